#!/usr/bin/env python3
"""Writes MANIFEST.json from the table below (kept in one place so it is always valid)."""
import json, os, sys
V = os.path.dirname(os.path.dirname(os.path.abspath(__file__)))

CHECKS = {
 "C05": dict(
   text="Theorems in Rocq (rocq/Props/C05.v, 19 statements, axiom-free) state every amount/percentage operation of the model Num/Amount.v as the exact rational rounded half away from zero at the documented precision, plus the lossless laws; the model is tied to num/*.go by running both on the same ~750k cases (exhaustive small grid, constructed ties, random up to 2^52) and any in-domain difference is reported as the failing input.",
   note="Trusted: Coq kernel, extraction (ExtrOcamlBasic), OCaml driver, Go harness, python comparison. Modelled not verified: float64 hardware path of Multiply/Divide/Rescale is covered by the correspondence inside the 2^52 domain; AmountFromFloat64/Float64/formatter not covered.",
   technique="Rocq theorems over a Gallina model + differential correspondence (extracted OCaml vs Go)",
   design="7 (C05)"),
 "C12": dict(
   text="Rocq theorems (rocq/Props/C12.v, 19 statements, axiom-free) over the Gallina transcription of tax.RateDef.Value / Combo.prepareRate (Rates/Lookup.v, model = code after the proposed one-token repair of the start-date comparison): the value looked up is applicable, has started, is the latest started among the applicable ones and the first such in table order; a value is in force on its start date itself; no answer iff the date precedes every applicable value, and then the preparation fails with invalid-date instead of guessing; exempt keys yield no percentage. Generated-data theorems (vm_compute of boolean checkers + proved soundness) state for EVERY rate table the code registers and every published table: unqualified values strictly descending, applicable values descending in every tag/extension context, every date valid. The as-shipped comparison is refuted in the same file (ES VAT standard on 2012-09-01 answers 18%). Tie: translator regenerates Gen/Regimes.v from tax.AllRegimeDefs() on every run; exhaustive correspondence Go vs extracted model over every regime x category x rate x qualifier context x {start-1,start,start+1, fixed, random dates} through RateDef.Value, tax.TotalCalculator and bill.Invoice.Calculate (issue_date and value_date), plus synthetic tables; oracle P from the published JSON.",
   note="Trusted: Coq kernel incl. vm_compute, extraction, OCaml driver, Go harness (harness/c12.go, gen_regimes.go), python comparison and P. Known finding C12-start-date-exclusive (findings/C12.json, fix in fixes/C12-1-start-date-inclusive.diff). Modelled not verified: regime/addon normalisers that could rewrite a combo before the lookup (the invoice stream would show a difference).",
   technique="Rocq theorems over a Gallina model and over translated tables + exhaustive differential correspondence (extracted OCaml vs Go) + independent table oracle",
   design="7 (C12)"),
 "C18": dict(
   text="Rocq theorems (rocq/Props/C18.v, 12 statements, axiom-free) over the Gallina transcription of the GENERIC reference rules (Defs/RefCheck.v: Combo.ValidateWithContext with InCategories / InCategoryRates / Key.Has on `+` parts, Extensions.Validate with registered key, listed codes and pattern, supportedTags + TagsIn, AddonRegistered, currency and country code membership; the rule set is an argument, so the code as shipped and the code after the proposed repairs are both models) applied to the reference view of a document (regime, addons, schema, tags, every combo, every extension entry, every currency and country code): refcheck_sound - for ALL definition tables and documents, a view the repaired rules accept only makes references that resolve (regime and addons exist, category and rate key belong to the regime that applies, extension key defined by a regime, addon or catalogue and value among its codes / matching its pattern, tag offered by the regime or an addon in use for the document type, currencies and countries known); refcheck_sound_shipped_refuted and combo_country_shipped_refuted - the rules as shipped are not sound (witness: `$regime: QQ` with rate-less combos; combo country QQ); resolves_published_iff_in_code / validated_resolves_in_published - corollaries of C19 (published_equals_in_code, published_only_defined_partial): resolution in the published tables coincides with resolution in the in-code tables; per-kind theorems; all_patterns_supported. PARTIAL: regime- and addon-specific validators, and whether every place of a document is reached by a validator, are exercised by the sweep only. Tie/sweep: translator regenerates Gen/*.v (incl. Gen/Countries.v) on every run; every valid example (162 files) x every reference position x {other defined values (published or in code; one-sided values always), undefined values} (quick ~19k, thorough ~400k mutated documents) through gobl.Parse -> Envelop -> Validate; the reference view of the calculated document (reflection over the Go structures) goes to the extracted rules (in-code and published tables) and to an independent python oracle over the published JSON; P: Go accepted => every reference resolves in the published definitions; Go accepted => shipped-rule model accepts; extracted rules over published tables = python oracle on every view; Gallina pattern matcher = regexp.MatchString on 4k probes of every declared pattern.",
   note="Trusted: Coq kernel incl. vm_compute, extraction, OCaml driver, harness/c18.go (reflection walk producing the reference view; replaced values are looked for in the view, else counted as normalised away), python mutation generator and oracle. regexp.MatchString is an argument `mp` of every theorem; the runner uses the Gallina matcher simple_match (covers every declared pattern: all_patterns_supported; compared with Go). `defined by the regime, an addon or a catalogue` is read as the library's global extension registry (any regime, any addon); accepted keys foreign to the document's regime/addons are counted, not judged. Category codes and rate keys inside tax TOTALS are not reference positions. Panics on DEFINED replacement values (party with a regime that has no normaliser; es-facturae on an invoice without `tax`) are listed in the evidence, not judged (C14's subject). Known findings (findings/C18.json, witnesses corpus/C18/, patches fixes/C18-1..5): C18-regime-not-checked, C18-combo-country-not-validated, C18-order-tax-not-validated, C18-payment-line-document-tax-not-validated, C18-tags-not-validated-outside-invoices.",
   technique="Rocq soundness theorem of a transcribed rule checker + corollary of translated-table equality + exhaustive single-replacement sweep (Go vs extracted checker vs independent python resolution in the published JSON)",
   design="7 (C18)"),
 "C19": dict(
   text="Rocq theorems over generated data (rocq/Props/C19.v, axiom-free, vm_compute of boolean checkers + proved soundness lemmas): every regime, addon and catalogue the code registers is published under the generator's file name with the same structural content (published_equals_in_code); no other file is published except the recorded stale data/regimes/gr.json (published_only_defined_partial); every regime and addon names an existing currency and only refers to defined extensions, extension codes, rate-value tags, addons and invoice types, with unique regime, addon, catalogue, currency, extension, category, rate and regime tag keys (all_definitions_coherent); scenario tags of regimes and tag keys of addons are defined/unique except the two recorded definitions (tags_defined_and_unique_partial). Tie: translator writes Gen/*.v from the live registries and Gen/Published.v from data/*.json through one rendering routine; the repository's own generators are run in a scratch copy and all 109 files under data/ are byte-compared; RegimeDef.Validate / AddonDef.Validate / time.LoadLocation on every definition; every regime and schema file requested from `gobl serve` /bulk; independent python JSON comparison and reference search must name the same definitions as the extracted checkers.",
   note="Trusted: Coq kernel incl. vm_compute, extraction, OCaml driver, the structural projection of harness/gen_regimes.go (texts are compared by bytes only), Go harness, python. Known findings C19-stale-gr-json, C19-in-scenario-tags-undefined, C19-it-sdi-duplicate-tag (findings/C19.json, fixes/C19-*.diff); the `_partial` theorems name their recorded exceptions in Defs/Coherence.v. Correction stamps are only checked to be non-empty (no stamp registry exists in the data).",
   technique="Rocq theorems over translated definition data + regeneration byte-diff + differential search (extracted checkers vs python over JSON)",
   design="7 (C19)"),
}

CALC_NOTE = ("Trusted: Coq kernel, extraction, OCaml driver, Go harness, python generator/comparison and the independent python reading of the calculation. "
             "Modelled not verified: rate-key resolution (C12), regime/addon normalisers, float64 path of num (C05).")
CHECKS.update({
 "C01": dict(
   text="The calculation (bill/calculator.go, line_calculate.go, discounts/charges, totals, payment details, tax totals calculator) is transcribed as the Gallina model Calc/Calc.v over the exact arithmetic of C05; theorems in Props/C01.v; the model is tied to the code by running Go (Parse -> Envelop -> JSON), the extracted model and an independent exact python reading on the same generated invoices and comparing every line figure, total and tax group; a figure where Go deviates from both is reported with the minimised document.",
   note=CALC_NOTE, technique="Rocq theorems over a Gallina calculation model + three-way differential correspondence", design="7 (C01)"),
 "C02": dict(
   text="Tax grouping/summing model (Calc/Calc.v: rt_matches, add_to_cats, ct_calc, sum_step) with theorems in Props/C02.v; tie as C01 with a combo-focused generator; oracle P checks partition, group amounts, category sums, signed tax total and the included-tax gross identity directly on Go's presented figures.",
   note=CALC_NOTE, technique="Rocq theorems over the tax-totals model + differential correspondence + direct clause oracle", design="7 (C02)"),
 "C03": dict(
   text="Re-addition identities under the currency rule: theorems over Calc/Calc.v in Props/C03.v; oracle P needs no model: every identity of the statement is recomputed from the figures Go presents (currency rule explicit or by EL default); calculation tied to the model as in C01.",
   note=CALC_NOTE, technique="Rocq theorems + output-identity oracle on Go results + differential correspondence", design="7 (C03)"),
 "C04": dict(
   text="Fixpoint of calculation and losslessness: the model's re-input function (Calc/Symmetry.v as_input) and its refutation witness in Props/C04.v; breadth by iteration of the implementation over all 165 example files and generated invoices/payments (3 rounds serialise/parse/calculate with byte comparison, parse->marshal identity, read-only ops, two processes with GOMAXPROCS 1/16); recalculation figures compared with the model. Partial: breadth over all schemas/regimes is sampling of the implementation, map-order nondeterminism cannot be exhibited by the model.",
   note=CALC_NOTE, technique="Rocq model of re-input + refutation witness; iteration of the implementation with byte comparison", design="7 (C04)"),
 "C17": dict(
   text="Negation/permutation/tax-removal model (Calc/Symmetry.v: neg_doc, invert, remove_included_taxes) with theorems in Props/C17.v; relational harness runs Go on d, Invert(d), Invert twice, row permutations and RemoveIncludedTaxes and compares with the model and Go's outputs pairwise.",
   note=CALC_NOTE, technique="Rocq theorems over the symmetry model + relational differential harness", design="7 (C17)"),
 "C20": dict(
   text="tax.Total Negate/Merge/Calculate and bill.Payment as the Gallina model Calc/Merge.v with theorems in Props/C20.v; Go vs extracted model on generated and real (calculated-invoice) summaries incl. operand immutability; oracle P recomputes component-wise sums with exact fractions.",
   note=CALC_NOTE, technique="Rocq theorems over the merge model + differential correspondence + fraction oracle", design="7 (C20)"),
})

NOT_APPLICABLE = []

def main():
    checks = []
    for cid in sorted(CHECKS):
        c = CHECKS[cid]
        checks.append({
            "property_id": cid,
            "quick_cmd": "tools/check %s quick" % cid,
            "thorough_cmd": "tools/check %s thorough" % cid,
            "evidence_file": "evidence/%s.json" % cid,
            "replay_cmd_template": "tools/check %s --replay {path}" % cid,
            "engine": "rocq-model-correspondence",
            "level_claimed": {"category": c.get("level", "proof"), "text": c["text"], "design_ref": "DESIGN.md section " + c["design"]},
            "level_note": c["note"],
            "technique": c["technique"],
        })
    m = {
        "version": 1,
        "setup_cmd": "tools/setup",
        "hooks": {
            "guard": "verif",
            "enable": "go build -tags verif (harness/ is a separate module with `replace github.com/invopop/gobl => /repo`; add-only //go:build verif files in /repo are listed in source_commits)",
            "baseline_off_cmd": "cd /repo && GOFLAGS=-mod=mod GOPROXY=off GOSUMDB=off GOTOOLCHAIN=local go test -vet=off -count=1 ./...",
            "source_commits": [],
            "add_only": True,
        },
        "engines": [{
            "name": "rocq-model-correspondence",
            "path": "tools/check",
            "serves_properties": sorted(CHECKS),
            "kind_free_text": "Rocq (Coq 8.16.1) theorems over executable Gallina models in rocq/, models extracted to OCaml (bin/oracle) and run against the Go implementation (harness/ -> bin/vharness, cmd/gobl) on generated cases; translator regenerates rocq/Gen from /repo",
        }],
        "checks": checks,
        "notes": "see DESIGN.md; KNOWN_FINDINGS.json lists recorded and fixed defects",
        "not_applicable": NOT_APPLICABLE,
    }
    json.dump(m, open(os.path.join(V, "MANIFEST.json"), "w"), indent=1)

if __name__ == "__main__":
    main()
