#!/usr/bin/env python3
"""Writes MANIFEST.json from the table below (kept in one place so it is always valid)."""
import json, os, sys
V = os.path.dirname(os.path.dirname(os.path.abspath(__file__)))

CHECKS = {
 "C05": dict(
   text="Theorems in Rocq (rocq/Props/C05.v, 19 statements, axiom-free) state every amount/percentage operation of the model Num/Amount.v as the exact rational rounded half away from zero at the documented precision, plus the lossless laws; the model is tied to num/*.go by running both on the same ~750k cases (exhaustive small grid, constructed ties, random up to 2^52) and any in-domain difference is reported as the failing input.",
   note="Trusted: Coq kernel, extraction (ExtrOcamlBasic), OCaml driver, Go harness, python comparison. Modelled not verified: float64 hardware path of Multiply/Divide/Rescale is covered by the correspondence inside the 2^52 domain; AmountFromFloat64/Float64/formatter not covered.",
   technique="Rocq theorems over a Gallina model + differential correspondence (extracted OCaml vs Go)",
   design="7 (C05)"),
 "C13": dict(
   text="Theorems in Rocq (rocq/Props/C13.v, 63 statements, axiom-free) over an executable Gallina model of tax.NormalizeIdentity and of the 17 regime validators (AE AT BE BR CH CO DE EL/GR ES FR GB IN IT MX NL PL PT; TaxId/Regimes.v): a generic lemma (a weight coprime to a modulus above 9 separates digits; Luhn doubling is a permutation) instantiated per regime to state exactly which single-digit errors are detected (all for PL CH BE FR IT AT ES DE IN; all but a characterised folded class for PT EL CO BR; all but 2nd digit +-6 / 3rd digit +-7 for GB; per test for NL), normalisation idempotent iff no doubled country prefix (unguarded statement refuted by ESES...), insensitive to case/separators/one prefix, digits preserved, accepted codes are fixed points, and valid_XX <-> declarative published rule for PL CH PT EL IT FR BE (NL and GB: equivalence with the rule as implemented plus _refuted theorems for the published rule). The model is tied to /repo by running tax.Identity.Normalize/Validate (public API, regimes loaded) and the extracted model on the same ~610k raw codes per quick run, 11M thorough (corpus of the repository's regime test vectors and recorded witnesses, constructed-valid codes, all their single-character edits, random national-shape strings, written variants, wrong lengths, the same identity inside an org.Party) and, independently, judging Go's verdict and normalised code against a hand-written Python reading of the published rules.",
   note="Trusted: Coq kernel, extraction (ExtrOcamlBasic), OCaml driver, Go harness, python generators/spec (tools/props/c13.py). Domain: ASCII input (plus N-tilde for MX); country codes known to l10n. Four recorded findings (findings/C13.json, proposed patches and the matching model update in fixes/): NL remainder 10 accepted as check digit 0, GB sum multiple of 97 expects 00 instead of 97, BR normaliser never registered, country GR keeps a leading EL. float64 paths of AT/BE/CH are exact on the integers involved and modelled in Z. Modelled not verified: error texts, tax.ParseIdentity.",
   technique="Rocq theorems over a Gallina model + differential correspondence (extracted OCaml vs Go) + independent published-rule oracle",
   design="7 (C13)"),
}
NOT_APPLICABLE = []

def main():
    checks = []
    for cid in sorted(CHECKS):
        c = CHECKS[cid]
        checks.append({
            "property_id": cid,
            "quick_cmd": "tools/check %s quick" % cid,
            "thorough_cmd": "tools/check %s thorough" % cid,
            "evidence_file": "evidence/%s.json" % cid,
            "replay_cmd_template": "tools/check %s --replay {path}" % cid,
            "engine": "rocq-model-correspondence",
            "level_claimed": {"category": c.get("level", "proof"), "text": c["text"], "design_ref": "DESIGN.md section " + c["design"]},
            "level_note": c["note"],
            "technique": c["technique"],
        })
    m = {
        "version": 1,
        "setup_cmd": "tools/setup",
        "hooks": {
            "guard": "verif",
            "enable": "go build -tags verif (harness/ is a separate module with `replace github.com/invopop/gobl => /repo`; add-only //go:build verif files in /repo are listed in source_commits)",
            "baseline_off_cmd": "cd /repo && GOFLAGS=-mod=mod GOPROXY=off GOSUMDB=off GOTOOLCHAIN=local go test -vet=off -count=1 ./...",
            "source_commits": [],
            "add_only": True,
        },
        "engines": [{
            "name": "rocq-model-correspondence",
            "path": "tools/check",
            "serves_properties": sorted(CHECKS),
            "kind_free_text": "Rocq (Coq 8.16.1) theorems over executable Gallina models in rocq/, models extracted to OCaml (bin/oracle) and run against the Go implementation (harness/ -> bin/vharness, cmd/gobl) on generated cases; translator regenerates rocq/Gen from /repo",
        }],
        "checks": checks,
        "notes": "see DESIGN.md; KNOWN_FINDINGS.json lists recorded and fixed defects",
        "not_applicable": NOT_APPLICABLE,
    }
    json.dump(m, open(os.path.join(V, "MANIFEST.json"), "w"), indent=1)

if __name__ == "__main__":
    main()
