#!/usr/bin/env python3
"""Writes MANIFEST.json from the table below (kept in one place so it is always valid)."""
import json, os, sys
V = os.path.dirname(os.path.dirname(os.path.abspath(__file__)))

CHECKS = {
 "C05": dict(
   text="Theorems in Rocq (rocq/Props/C05.v, 34 statements) state every amount/percentage operation of the model Num/Amount.v as the exact rational rounded half away from zero at the documented precision, plus the lossless laws; a second, statement-by-statement model of the Go code (Num/AmountImpl.v: int64 wrap-around, IEEE binary64 by Flocq, math.Round, int64 conversion) is proved equal to it whenever operands and exact intermediates are below 2^52 and rescaling divisors at most 10^63 (Num/AmountExact.v; core lemma: a binary64 quotient with |numerator| < 2^52 never crosses a half). Both models are tied to num/*.go by running all three on the same cases (exhaustive small grid, constructed ties, random up to 2^52, ~750k; the implementation model on a 75k sample and on a boundary stream 2^52..2^63, MinInt64, zero divisors, exponents to 70); any in-domain difference is reported as the failing input.",
   note="Trusted: Coq kernel, the four classical axioms of Coq's Reals library (through Flocq), extraction (ExtrOcamlBasic), OCaml driver, Go harness, python comparison. Outside the domain Go's int64(NaN/Inf/out-of-range) is platform-defined and only counted. AmountFromFloat64/Float64/formatter not covered.",
   technique="Rocq theorems over a Gallina model + differential correspondence (extracted OCaml vs Go)",
   design="7 (C05)"),
 "C12": dict(
   text="Rocq theorems (rocq/Props/C12.v, 19 statements, axiom-free) over the Gallina transcription of tax.RateDef.Value / Combo.prepareRate (Rates/Lookup.v, model = code after the proposed one-token repair of the start-date comparison): the value looked up is applicable, has started, is the latest started among the applicable ones and the first such in table order; a value is in force on its start date itself; no answer iff the date precedes every applicable value, and then the preparation fails with invalid-date instead of guessing; exempt keys yield no percentage. Generated-data theorems (vm_compute of boolean checkers + proved soundness) state for EVERY rate table the code registers and every published table: unqualified values strictly descending, applicable values descending in every tag/extension context, every date valid. The as-shipped comparison is refuted in the same file (ES VAT standard on 2012-09-01 answers 18%). Tie: translator regenerates Gen/Regimes.v from tax.AllRegimeDefs() on every run; exhaustive correspondence Go vs extracted model over every regime x category x rate x qualifier context x {start-1,start,start+1, fixed, random dates} through RateDef.Value, tax.TotalCalculator and bill.Invoice.Calculate (issue_date and value_date), plus synthetic tables; oracle P from the published JSON.",
   note="Trusted: Coq kernel incl. vm_compute, extraction, OCaml driver, Go harness (harness/c12.go, gen_regimes.go), python comparison and P. Known finding C12-start-date-exclusive (findings/C12.json, fix in fixes/C12-1-start-date-inclusive.diff). Modelled not verified: regime/addon normalisers that could rewrite a combo before the lookup (the invoice stream would show a difference).",
   technique="Rocq theorems over a Gallina model and over translated tables + exhaustive differential correspondence (extracted OCaml vs Go) + independent table oracle",
   design="7 (C12)"),
 "C19": dict(
   text="Rocq theorems over generated data (rocq/Props/C19.v, axiom-free, vm_compute of boolean checkers + proved soundness lemmas): every regime, addon and catalogue the code registers is published under the generator's file name with the same structural content (published_equals_in_code); no other file is published except the recorded stale data/regimes/gr.json (published_only_defined_partial); every regime and addon names an existing currency and only refers to defined extensions, extension codes, rate-value tags, addons and invoice types, with unique regime, addon, catalogue, currency, extension, category, rate and regime tag keys (all_definitions_coherent); scenario tags of regimes and tag keys of addons are defined/unique except the two recorded definitions (tags_defined_and_unique_partial). Tie: translator writes Gen/*.v from the live registries and Gen/Published.v from data/*.json through one rendering routine; the repository's own generators are run in a scratch copy and all 109 files under data/ are byte-compared; RegimeDef.Validate / AddonDef.Validate / time.LoadLocation on every definition; every regime and schema file requested from `gobl serve` /bulk; independent python JSON comparison and reference search must name the same definitions as the extracted checkers.",
   note="Trusted: Coq kernel incl. vm_compute, extraction, OCaml driver, the structural projection of harness/gen_regimes.go (texts are compared by bytes only), Go harness, python. Known findings C19-stale-gr-json, C19-in-scenario-tags-undefined, C19-it-sdi-duplicate-tag (findings/C19.json, fixes/C19-*.diff); the `_partial` theorems name their recorded exceptions in Defs/Coherence.v. Correction stamps are only checked to be non-empty (no stamp registry exists in the data).",
   technique="Rocq theorems over translated definition data + regeneration byte-diff + differential search (extracted checkers vs python over JSON)",
   design="7 (C19)"),
 "C06": dict(
   text="Theorems in Rocq (rocq/Props/C06.v, 35 statements, axiom-free, for ALL strings / all int64 amounts with 0-18 decimals) about the model Num/Codec.v of num/amount.go and num/percentage.go: the repaired reader accepts exactly the members of the published pattern whose value is an int64 with at most 18 decimals and reads them as the exact value with exponent = fraction length (parse_accepts_iff_pattern, parse_rejects_everything_else, parse_never_misreads, JSON variants through unquote), every amount prints as a pattern member and reads back identically (print_matches_pattern, parse_print_roundtrip, also proved of the shipped code for every value except math.MinInt64), percentages re-read to the same value with a stable text, and the exact language of the percentage reader; the defects of the shipped code are *_refuted theorems with computed witnesses. The published patterns are regenerated from JSONSchema() and data/schemas/num/*.json on every run and pinned by reflexivity lemmas. The model is tied to the Go code by running both on ~255k strings (pattern members, every single insertion/deletion/substitution of 14 symbols, digit strings around k*2^63, random bytes, JSON tokens) through UnmarshalText, UnmarshalJSON bare and quoted and a struct field via encoding/json, and on 100k amounts through String/MarshalText/json.Marshal/MinimalString and back; Go's outputs are also judged directly by an independent Python reading of the property.",
   note="Until fixes/C06-1-strict-amount-parse.diff is applied the correspondence runs against the model of the code AS SHIPPED and the three defect classes it repairs are KNOWN findings with narrow matchers (findings/C06.json); moving those entries to 'fixed' switches the correspondence to the repaired model. Known findings by design: percentage text without % / empty, the text null, JSON escapes, percentages beyond 2^52 (float64). Trusted: Coq kernel, extraction, OCaml driver, Go harness, Python judge. Modelled not verified: fmt %d/%0*d and strconv.ParseInt (tied by the correspondence), float64 path of percentages (exact in the model, C05's 2^52 guard), encoding/json tokenizer (struct-field route judged by the Python oracle only).",
   technique="Rocq theorems over a Gallina model + differential correspondence (extracted OCaml vs Go) + independent oracle on the implementation's outputs",
   design="7 (C06)"),
 "C14": dict(
   text="Proof for the modelled cores only (partial): rocq/Props/C14.v states, over nil/bounds-aware Gallina transcriptions (result = Ok | Err | Panic) of removePreviousScenarioNotes, calculateLineItemPrice (+ currency.Convert), head.Header validation and errors.go wrapError / Envelope.Verify, that the code AS SHIPPED panics or returns an unstructured error (four refutations with witnesses) and that the repaired cores never panic on any input, agree with the shipped code wherever that does not panic, and that every error reaching the envelope API carries one of the nine documented keys. The rest of the library is covered by a structure-aware mutation sweep (every single-member mutation of all example documents + seeded random inputs through parse/calculate/validate/digest/sign/verify/correct/replicate in 16 watchdog-guarded worker processes), which is a search, not a proof: a panic, hang or abort found there is directly the failing input.",
   note="Partial: panic-freedom is proved for four modelled cores; Go runtime behaviour (hangs, memory exhaustion) and all other functions are only searched by the sweep. The header-validation core is tied to head.Header.Validate by running both on generated headers with nil entries. Known panic sites of the unchanged tree are listed per site in findings/C14.json with narrow matchers (stage, top /repo frame function, mutation kind, member class); witnesses are kept in corpus/C14; proposed nil-guard patches in fixes/C14-*.diff. Trusted: Coq kernel, extraction, OCaml driver, harness/c14.go (mutation enumeration, recover, frame extraction), python orchestration.",
   technique="Rocq theorems over nil/bounds-aware Gallina cores + correspondence on the header core + structure-aware mutation sweep under recover/watchdog/ulimit",
   design="7 (C14)"),
 "C15": dict(
   text="Proof for the modelled cores only (partial): rocq/Props/C15.v proves, for a labelled transition system of cli.Bulk (reader, one worker per request, wait group, FIFO output, decode-error variant), that for every request list of any length and EVERY complete execution the output is a permutation of exactly one reply per request (own req_id, seq_id = position, body = f request) followed by exactly one final marker with seq_id = n+1, and that the decidable acceptance predicate the harness evaluates is exactly 'some schedule produces this output' (both directions); over a heap model of Go slices it proves that the tag/scenario/correction set builders never write a pre-existing registry cell, including spare capacity, once TagSet.Merge copies - and refutes it for the code as shipped. Ties: a deterministic deep snapshot of every registry structure (slices read up to capacity) before/after ~400 workloads (all examples + every regime x addon), whose changed cells must be exactly those the extracted shipped model predicts; generated JSON-lines streams POSTed to `gobl serve` /bulk and judged by the extracted acceptance predicate with payloads compared to the standalone CLI. Go's memory model, scheduler and all code outside the modelled helpers are covered only by the snapshot sweep and a race-detector stress run, which are search, not proof.",
   note="Partial: race-freedom in the sense of the Go memory model is not provable in an executable Gallina model; the race detector is sampling (GOMAXPROCS 1,2,4,16, injected Gosched, per-goroutine bytes compared with the sequential result). Payload equality is checked through SHA-1 digests of canonical JSON; for sign/correct/replicate freshly generated members (signature bytes, new uuids, digest over them) are projected away. Capacity growth in the slice model is max(needed, 2*cap) (no size classes). Known finding: TagSet.Merge appends into the shared regime tag array (findings/C15.json). Trusted: Coq kernel, extraction, OCaml driver, harness/c15.go (reflection walker), harness/c15race, python orchestration, the CLI binary as the 'standalone operation'.",
   technique="Rocq theorems over a transition system and a slice heap model + snapshot/stream correspondence (extracted OCaml predicate vs cmd/gobl) + race-detector stress",
   design="7 (C15)"),
 "C08": dict(
   text="Proof for the modelled core, partial for whole documents. Rocq theorems (rocq/Props/C08.v, axiom-free) over Digest/Envelope.v: a calculated envelope validates; validity is preserved by every re-encoding with the same normal form (member order, null members); if a valid envelope still validates after its document was replaced then the normal forms are equal OR the hash collides on the two explicit canonical byte strings (no hypothesis on the hash - undetected tampering IS a collision); recalculation changes the digest or exhibits a collision; the one derived member ($regime = supplier country) is modelled and `every_text_edit_evident_refuted` states the resulting blind spot. Canonical-JSON invariance/injectivity (C07) are premises. Tie: every example envelope and generated invoices: ~25k (quick) / all (thorough) single edits of the serialised document + re-encodings through gobl.Parse/Validate/Calculate, judged by an oracle that decides `no effect` from the re-serialised parsed documents, with independent sha256 and canonical printer; model verdicts and digests compared on every case.",
   note="PARTIAL: that json.Marshal of the parsed document loses no schema-defined member (marshal_lossless_on) and what every Validate method accepts are established by the sweep - search, not proof. Logical content = the parsed document: unknown members and a derivable $regime are not content. Known finding C08-amount-escapes (escapes inside amount strings are not decoded) with proposed patch in fixes/.",
   technique="Rocq reduction theorems over an abstract envelope/digest model + exhaustive single-edit sweep of serialised envelopes against the Go implementation",
   design="7 (C08)"),
 "C16": dict(
   text="Proof for the modelled core, partial for whole documents. Rocq theorems (rocq/Props/C16.v, axiom-free) over Correct/Correct.v (functional options incl. raw-JSON override and header stamps by pointer, merged correction definition, Invoice.Correct/Replicate, Envelope.Correct/Replicate with a small heap of stamp objects): exact acceptance conditions (correct_accepts_iff), shape of an accepted correction and of a replica (new identifiers given a fresh supply, unsigned, no stamps, no code, requested allowed type, exactly one preceding reference with the source's identity, reason, extensions, required stamps, optional tax copy, fresh digest), heap theorems: Replicate writes to no existing object; Correct writes to none unless raw JSON names stamps (source_unchanged_partial) and does otherwise (source_unchanged_refuted, confirmed on Go: finding C16-data-stamps-overwrite-source-header with patch); the result shares the header's stamp objects (refuted variant); after the proposed repair both hold (source_unchanged_after_repair). Tie: 73 example invoices of 16 regimes / 12 addons x types x option subsets x three ways of passing options through Envelope.Correct/Replicate, a subset through POST /bulk of gobl serve and the gobl correct/replicate commands; source serialised before/after/after overwriting every leaf of the result by reflection; oracle P from the published regime/addon JSON; model compared on every case (verdict kind, projected result, source stamps after, shared objects).",
   note="PARTIAL: Invoice.Calculate keeping identifier/type/series/code/dates/preceding (calc_keeps_header) is a premise observed by the sweep, not proved (one designed exception handled: es-verifactu moves the doc-type extension to tax.ext); Clone is modelled as identity on values. The model variant (code as it stands / after the repair) is selected by whether the finding is listed under known or fixed.",
   technique="Rocq theorems over a Gallina model with a heap of stamp objects + differential correspondence and reflection-based aliasing test against the Go implementation (library, HTTP bulk, CLI)",
   design="7 (C16)"),
}

CALC_NOTE = ("Trusted: Coq kernel, extraction, OCaml driver, Go harness, python generator/comparison and the independent python reading of the calculation. "
             "Modelled not verified: rate-key resolution (C12), regime/addon normalisers, float64 path of num (C05).")
CHECKS.update({
 "C01": dict(
   text="The calculation (bill/calculator.go, line_calculate.go, discounts/charges, totals, payment details, tax totals calculator) is transcribed as the Gallina model Calc/Calc.v over the exact arithmetic of C05; theorems in Props/C01.v; the model is tied to the code by running Go (Parse -> Envelop -> JSON), the extracted model and an independent exact python reading on the same generated invoices and comparing every line figure, total and tax group; a figure where Go deviates from both is reported with the minimised document.",
   note=CALC_NOTE, technique="Rocq theorems over a Gallina calculation model + three-way differential correspondence", design="7 (C01)"),
 "C02": dict(
   text="Tax grouping/summing model (Calc/Calc.v: rt_matches, add_to_cats, ct_calc, sum_step) with theorems in Props/C02.v; tie as C01 with a combo-focused generator; oracle P checks partition, group amounts, category sums, signed tax total and the included-tax gross identity directly on Go's presented figures.",
   note=CALC_NOTE, technique="Rocq theorems over the tax-totals model + differential correspondence + direct clause oracle", design="7 (C02)"),
 "C03": dict(
   text="Re-addition identities under the currency rule: theorems over Calc/Calc.v in Props/C03.v; oracle P needs no model: every identity of the statement is recomputed from the figures Go presents (currency rule explicit or by EL default); calculation tied to the model as in C01.",
   note=CALC_NOTE, technique="Rocq theorems + output-identity oracle on Go results + differential correspondence", design="7 (C03)"),
 "C04": dict(
   text="Fixpoint of calculation and losslessness: the model's re-input function (Calc/Symmetry.v as_input) and its refutation witness in Props/C04.v; breadth by iteration of the implementation over all 165 example files and generated invoices/payments (3 rounds serialise/parse/calculate with byte comparison, parse->marshal identity, read-only ops, two processes with GOMAXPROCS 1/16); recalculation figures compared with the model. Partial: breadth over all schemas/regimes is sampling of the implementation, map-order nondeterminism cannot be exhibited by the model.",
   note=CALC_NOTE, technique="Rocq model of re-input + refutation witness; iteration of the implementation with byte comparison", design="7 (C04)"),
 "C17": dict(
   text="Negation/permutation/tax-removal model (Calc/Symmetry.v: neg_doc, invert, remove_included_taxes) with theorems in Props/C17.v; relational harness runs Go on d, Invert(d), Invert twice, row permutations and RemoveIncludedTaxes and compares with the model and Go's outputs pairwise.",
   note=CALC_NOTE, technique="Rocq theorems over the symmetry model + relational differential harness", design="7 (C17)"),
 "C20": dict(
   text="tax.Total Negate/Merge/Calculate and bill.Payment as the Gallina model Calc/Merge.v with theorems in Props/C20.v; Go vs extracted model on generated and real (calculated-invoice) summaries incl. operand immutability; oracle P recomputes component-wise sums with exact fractions.",
   note=CALC_NOTE, technique="Rocq theorems over the merge model + differential correspondence + fraction oracle", design="7 (C20)"),
})

NOT_APPLICABLE = []

def main():
    checks = []
    for cid in sorted(CHECKS):
        c = CHECKS[cid]
        checks.append({
            "property_id": cid,
            "quick_cmd": "tools/check %s quick" % cid,
            "thorough_cmd": "tools/check %s thorough" % cid,
            "evidence_file": "evidence/%s.json" % cid,
            "replay_cmd_template": "tools/check %s --replay {path}" % cid,
            "engine": "rocq-model-correspondence",
            "level_claimed": {"category": c.get("level", "proof"), "text": c["text"], "design_ref": "DESIGN.md section " + c["design"]},
            "level_note": c["note"],
            "technique": c["technique"],
        })
    m = {
        "version": 1,
        "setup_cmd": "tools/setup",
        "hooks": {
            "guard": "verif",
            "enable": "go build -tags verif (harness/ is a separate module with `replace github.com/invopop/gobl => /repo`; add-only //go:build verif files in /repo are listed in source_commits)",
            "baseline_off_cmd": "cd /repo && GOFLAGS=-mod=mod GOPROXY=off GOSUMDB=off GOTOOLCHAIN=local go test -vet=off -count=1 ./...",
            "source_commits": [],
            "add_only": True,
        },
        "engines": [{
            "name": "rocq-model-correspondence",
            "path": "tools/check",
            "serves_properties": sorted(CHECKS),
            "kind_free_text": "Rocq (Coq 8.16.1) theorems over executable Gallina models in rocq/, models extracted to OCaml (bin/oracle) and run against the Go implementation (harness/ -> bin/vharness, cmd/gobl) on generated cases; translator regenerates rocq/Gen from /repo",
        }],
        "checks": checks,
        "notes": "see DESIGN.md; KNOWN_FINDINGS.json lists recorded and fixed defects",
        "not_applicable": NOT_APPLICABLE,
    }
    json.dump(m, open(os.path.join(V, "MANIFEST.json"), "w"), indent=1)

if __name__ == "__main__":
    main()
