#!/usr/bin/env python3
"""Writes MANIFEST.json from the table below (kept in one place so it is always valid)."""
import json, os, sys
V = os.path.dirname(os.path.dirname(os.path.abspath(__file__)))

CHECKS = {
 "C05": dict(
   text="Theorems in Rocq (rocq/Props/C05.v, 19 statements, axiom-free) state every amount/percentage operation of the model Num/Amount.v as the exact rational rounded half away from zero at the documented precision, plus the lossless laws; the model is tied to num/*.go by running both on the same ~750k cases (exhaustive small grid, constructed ties, random up to 2^52) and any in-domain difference is reported as the failing input.",
   note="Trusted: Coq kernel, extraction (ExtrOcamlBasic), OCaml driver, Go harness, python comparison. Modelled not verified: float64 hardware path of Multiply/Divide/Rescale is covered by the correspondence inside the 2^52 domain; AmountFromFloat64/Float64/formatter not covered.",
   technique="Rocq theorems over a Gallina model + differential correspondence (extracted OCaml vs Go)",
   design="7 (C05)"),
 "C08": dict(
   text="Proof for the modelled core, partial for whole documents. Rocq theorems (rocq/Props/C08.v, axiom-free) over Digest/Envelope.v: a calculated envelope validates; validity is preserved by every re-encoding with the same normal form (member order, null members); if a valid envelope still validates after its document was replaced then the normal forms are equal OR the hash collides on the two explicit canonical byte strings (no hypothesis on the hash - undetected tampering IS a collision); recalculation changes the digest or exhibits a collision; the one derived member ($regime = supplier country) is modelled and `every_text_edit_evident_refuted` states the resulting blind spot. Canonical-JSON invariance/injectivity (C07) are premises. Tie: every example envelope and generated invoices: ~25k (quick) / all (thorough) single edits of the serialised document + re-encodings through gobl.Parse/Validate/Calculate, judged by an oracle that decides `no effect` from the re-serialised parsed documents, with independent sha256 and canonical printer; model verdicts and digests compared on every case.",
   note="PARTIAL: that json.Marshal of the parsed document loses no schema-defined member (marshal_lossless_on) and what every Validate method accepts are established by the sweep - search, not proof. Logical content = the parsed document: unknown members and a derivable $regime are not content. Known finding C08-amount-escapes (escapes inside amount strings are not decoded) with proposed patch in fixes/.",
   technique="Rocq reduction theorems over an abstract envelope/digest model + exhaustive single-edit sweep of serialised envelopes against the Go implementation",
   design="7 (C08)"),
 "C16": dict(
   text="Proof for the modelled core, partial for whole documents. Rocq theorems (rocq/Props/C16.v, axiom-free) over Correct/Correct.v (functional options incl. raw-JSON override and header stamps by pointer, merged correction definition, Invoice.Correct/Replicate, Envelope.Correct/Replicate with a small heap of stamp objects): exact acceptance conditions (correct_accepts_iff), shape of an accepted correction and of a replica (new identifiers given a fresh supply, unsigned, no stamps, no code, requested allowed type, exactly one preceding reference with the source's identity, reason, extensions, required stamps, optional tax copy, fresh digest), heap theorems: Replicate writes to no existing object; Correct writes to none unless raw JSON names stamps (source_unchanged_partial) and does otherwise (source_unchanged_refuted, confirmed on Go: finding C16-data-stamps-overwrite-source-header with patch); the result shares the header's stamp objects (refuted variant); after the proposed repair both hold (source_unchanged_after_repair). Tie: 73 example invoices of 16 regimes / 12 addons x types x option subsets x three ways of passing options through Envelope.Correct/Replicate, a subset through POST /bulk of gobl serve and the gobl correct/replicate commands; source serialised before/after/after overwriting every leaf of the result by reflection; oracle P from the published regime/addon JSON; model compared on every case (verdict kind, projected result, source stamps after, shared objects).",
   note="PARTIAL: Invoice.Calculate keeping identifier/type/series/code/dates/preceding (calc_keeps_header) is a premise observed by the sweep, not proved (one designed exception handled: es-verifactu moves the doc-type extension to tax.ext); Clone is modelled as identity on values. The model variant (code as it stands / after the repair) is selected by whether the finding is listed under known or fixed.",
   technique="Rocq theorems over a Gallina model with a heap of stamp objects + differential correspondence and reflection-based aliasing test against the Go implementation (library, HTTP bulk, CLI)",
   design="7 (C16)"),
}
NOT_APPLICABLE = []

def main():
    checks = []
    for cid in sorted(CHECKS):
        c = CHECKS[cid]
        checks.append({
            "property_id": cid,
            "quick_cmd": "tools/check %s quick" % cid,
            "thorough_cmd": "tools/check %s thorough" % cid,
            "evidence_file": "evidence/%s.json" % cid,
            "replay_cmd_template": "tools/check %s --replay {path}" % cid,
            "engine": "rocq-model-correspondence",
            "level_claimed": {"category": c.get("level", "proof"), "text": c["text"], "design_ref": "DESIGN.md section " + c["design"]},
            "level_note": c["note"],
            "technique": c["technique"],
        })
    m = {
        "version": 1,
        "setup_cmd": "tools/setup",
        "hooks": {
            "guard": "verif",
            "enable": "go build -tags verif (harness/ is a separate module with `replace github.com/invopop/gobl => /repo`; add-only //go:build verif files in /repo are listed in source_commits)",
            "baseline_off_cmd": "cd /repo && GOFLAGS=-mod=mod GOPROXY=off GOSUMDB=off GOTOOLCHAIN=local go test -vet=off -count=1 ./...",
            "source_commits": [],
            "add_only": True,
        },
        "engines": [{
            "name": "rocq-model-correspondence",
            "path": "tools/check",
            "serves_properties": sorted(CHECKS),
            "kind_free_text": "Rocq (Coq 8.16.1) theorems over executable Gallina models in rocq/, models extracted to OCaml (bin/oracle) and run against the Go implementation (harness/ -> bin/vharness, cmd/gobl) on generated cases; translator regenerates rocq/Gen from /repo",
        }],
        "checks": checks,
        "notes": "see DESIGN.md; KNOWN_FINDINGS.json lists recorded and fixed defects",
        "not_applicable": NOT_APPLICABLE,
    }
    json.dump(m, open(os.path.join(V, "MANIFEST.json"), "w"), indent=1)

if __name__ == "__main__":
    main()
