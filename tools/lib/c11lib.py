"""Helpers of the C11 check: JSON <-> wire trees, document mutation, python-jsonschema worker I/O."""
import json
from decimal import Decimal

from vlib import w, Word


class BadNumber(Exception):
    pass


def num_me(x):
    """python number -> (mantissa, exponent) exactly as its shortest decimal text denotes it."""
    if isinstance(x, int):
        return x, 0
    d = Decimal(repr(x))
    if not d.is_finite():
        raise BadNumber(repr(x))
    sign, digits, exp = d.as_tuple()
    m = int("".join(map(str, digits)))
    if abs(exp) > 400:
        raise BadNumber(repr(x))
    return (-m if sign else m), exp


def jwire(j):
    """JSON value (as python json.loads gives it) -> wire text of the tree RunC11.json_of_v reads."""
    if j is None:
        return "z"
    if j is True:
        return "t"
    if j is False:
        return "f"
    if isinstance(j, (int, float)):
        m, e = num_me(j)
        return "( n %d %d )" % (m, e)
    if isinstance(j, str):
        return "( s x%s )" % j.encode("utf-8", "surrogatepass").hex()
    if isinstance(j, list):
        return "( a ( " + " ".join(jwire(x) for x in j) + " ) )" if j else "( a ( ) )"
    if isinstance(j, dict):
        if not j:
            return "( o ( ) )"
        return "( o ( " + " ".join("( x%s %s )" % (k.encode("utf-8", "surrogatepass").hex(), jwire(v)) for k, v in j.items()) + " ) )"
    raise TypeError(repr(j))


def validate_line(schema_id, j):
    return "c11 validate x%s %s" % (schema_id.encode().hex(), jwire(j))
