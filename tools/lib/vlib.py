"""Shared machinery for the per-property checks (see DESIGN.md sections 2, 3, 6).

Build steps (each rebuilds from /repo's current working tree, serialised with flock):
  build_rocq()     translator -> rocq/Gen/*.v, then full .vo build with make
  props(cid)       re-compiles rocq/Props/<cid>.v, collects Print Assumptions
  build_oracle()   extraction + native OCaml driver
  build_harness()  go build -tags verif of the harness against /repo
Execution:  run_go(lines), run_oracle(lines)
Reporting:  Evidence, violation(), known findings.
"""
import fcntl
import hashlib
import json
import os
import random
import re
import subprocess
import sys
import time

VERIF = os.path.dirname(os.path.dirname(os.path.dirname(os.path.abspath(__file__))))
REPO = os.environ.get("VERIF_REPO", "/repo")
ROCQ = os.path.join(VERIF, "rocq")
BIN = os.path.join(VERIF, "bin")
WORK = os.path.join(VERIF, "work")
GOENV = dict(os.environ, GOFLAGS="-mod=mod", GOPROXY="off", GOSUMDB="off", GOTOOLCHAIN="local",
             CGO_ENABLED=os.environ.get("CGO_ENABLED", "0"))

ALLOWED_AXIOMS = {
    # declared by Coq's standard library, reached only through Reals/Flocq (DESIGN.md section 10)
    "Classical_Prop.classic",
    "FunctionalExtensionality.functional_extensionality_dep",
    "ClassicalDedekindReals.sig_forall_dec",
    "ClassicalDedekindReals.sig_not_dec",
}

T0 = time.time()


def log(*a):
    print("[verif]", *a, file=sys.stderr, flush=True)


def sh(cmd, timeout=1200, cwd=None, env=None, input=None, check=False):
    p = subprocess.run(cmd, shell=isinstance(cmd, str), cwd=cwd, env=env, input=input,
                       stdout=subprocess.PIPE, stderr=subprocess.STDOUT, timeout=timeout, text=True)
    if check and p.returncode != 0:
        raise RuntimeError("command failed (%s): %s\n%s" % (p.returncode, cmd, p.stdout[-4000:]))
    return p.returncode, p.stdout


class Lock:
    def __init__(self, name):
        os.makedirs(WORK, exist_ok=True)
        self.path = os.path.join(WORK, name + ".lock")

    def __enter__(self):
        self.f = open(self.path, "w")
        fcntl.flock(self.f, fcntl.LOCK_EX)
        return self

    def __exit__(self, *a):
        fcntl.flock(self.f, fcntl.LOCK_UN)
        self.f.close()


# ----------------------------------------------------------------------------------------------
# builds
# ----------------------------------------------------------------------------------------------

def build_harness():
    """go build of the harness (and, on request, the CLI) against /repo's working tree."""
    with Lock("go"):
        os.makedirs(BIN, exist_ok=True)
        h = os.path.join(VERIF, "harness")
        sh("cp %s/go.sum %s/go.sum" % (REPO, h))
        # the replace directive points at VERIF_REPO
        gm = open(os.path.join(h, "go.mod")).read()
        gm2 = re.sub(r"replace github.com/invopop/gobl => .*", "replace github.com/invopop/gobl => " + REPO, gm)
        if gm2 != gm:
            open(os.path.join(h, "go.mod"), "w").write(gm2)
        rc, out = sh("go build -tags verif -o %s/vharness ." % BIN, cwd=h, env=GOENV, timeout=900)
        if rc != 0:
            return False, out
        return True, out


def build_cli():
    with Lock("go"):
        os.makedirs(BIN, exist_ok=True)
        rc, out = sh("go build -tags verif -o %s/gobl ./cmd/gobl" % BIN, cwd=REPO, env=GOENV, timeout=900)
        return rc == 0, out


def translate(which=None):
    """Regenerates rocq/Gen/*.v from /repo (write-if-changed). Returns (ok, log)."""
    gen = os.path.join(ROCQ, "Gen")
    os.makedirs(gen, exist_ok=True)
    tmp = os.path.join(WORK, "gen.%d" % os.getpid())
    os.makedirs(tmp, exist_ok=True)
    rc, out = sh([os.path.join(BIN, "vharness"), "translate", REPO, tmp] + ([which] if which else []),
                 timeout=600, env=GOENV)
    if rc != 0:
        sh("rm -rf " + tmp)
        return False, out
    for f in sorted(os.listdir(tmp)):
        new = open(os.path.join(tmp, f)).read()
        dst = os.path.join(gen, f)
        old = open(dst).read() if os.path.exists(dst) else None
        if old != new:
            open(dst, "w").write(new)
    sh("rm -rf " + tmp)
    return True, out


def build_rocq(targets=None):
    """Full .vo build (never -vos) through tools/rocqmake (flock inside). Returns (ok, log, failed_files)."""
    tg = " ".join(targets) if targets else ""
    rc, out = sh("%s/tools/rocqmake %s; echo RC=$?" % (VERIF, tg), timeout=3200)
    failed = re.findall(r"\*\*\* \[Makefile[^\]]*: ([^\]]+\.vo)\] Error", out)
    ok = not failed and re.search(r"RC=0\s*$", out) is not None
    return ok, out, failed


def props(cid):
    """Re-checks rocq/Props/<cid>.v on this run and parses its Print Assumptions output.
    Returns dict(ok, theorems=[(name, axioms)], obligations, discharged, log)."""
    f = os.path.join(ROCQ, "Props", cid + ".v")
    src = open(f).read()
    names = re.findall(r"^\s*(?:Theorem|Corollary)\s+([A-Za-z0-9_']+)", src, re.M)
    with Lock("rocq"):
        rc, out = sh("timeout 900 coqc -Q . Verif Props/%s.v" % cid, cwd=ROCQ, timeout=1000)
    res = {"ok": rc == 0, "obligations": len(names), "log": out[-3000:], "theorems": [], "axioms": []}
    if rc != 0:
        res["discharged"] = 0
        return res
    # Print Assumptions blocks appear in order of the theorems
    blocks = re.split(r"(?=Closed under the global context|Axioms:)", out)
    blocks = [b for b in blocks if b.startswith("Closed under") or b.startswith("Axioms:")]
    disc = 0
    allax = set()
    for i, n in enumerate(names):
        ax = []
        if i < len(blocks) and blocks[i].startswith("Axioms:"):
            ax = re.findall(r"^([A-Za-z0-9_.']+)\s*:", blocks[i][len("Axioms:"):], re.M)
        elif i >= len(blocks):
            ax = ["<no Print Assumptions output>"]
        good = all(a in ALLOWED_AXIOMS for a in ax)
        disc += 1 if good else 0
        allax.update(ax)
        res["theorems"].append((n, ax))
    res["discharged"] = disc
    res["axioms"] = sorted(allax)
    if disc != len(names):
        res["ok"] = False
    return res


def scan_forbidden():
    """No Admitted/admit/Axiom/Parameter/... anywhere in the development."""
    rc, out = sh(r"grep -rnE '\b(Admitted|admit|Axiom|Parameter|Conjecture|Admit Obligations|Unset Guard Checking|bypass_check|Unset Positivity|Unset Universe Checking)\b' "
                 r"--include=*.v . | grep -v '^./Gen/.*(\*' || true", cwd=ROCQ)
    bad = [l for l in out.splitlines() if l.strip() and "conda" not in l]
    # top-level Variable/Hypothesis outside sections are avoided by convention: all are inside Section
    return bad


def build_oracle():
    with Lock("rocq"):
        src_time = max(os.path.getmtime(os.path.join(dp, f)) for dp, _, fs in os.walk(ROCQ) for f in fs if f.endswith(".v"))
        src_time = max(src_time, os.path.getmtime(os.path.join(VERIF, "oracle", "main.ml")))
        exe = os.path.join(BIN, "oracle")
        if os.path.exists(exe) and os.path.getmtime(exe) >= src_time:
            return True, "up to date"
        os.makedirs(BIN, exist_ok=True)
        rc, out = sh(os.path.join(VERIF, "oracle", "build.sh"), timeout=1500)
        return rc == 0, out


# ----------------------------------------------------------------------------------------------
# wire format
# ----------------------------------------------------------------------------------------------

def w(x):
    """python value -> wire text: int, bytes/str (hex), list/tuple, bool."""
    if isinstance(x, bool):
        return "1" if x else "0"
    if isinstance(x, int):
        return str(x)
    if isinstance(x, str):
        return "x" + x.encode().hex()
    if isinstance(x, (bytes, bytearray)):
        return "x" + bytes(x).hex()
    if isinstance(x, (list, tuple)):
        return "( " + " ".join(w(y) for y in x) + " )" if x else "( )"
    if isinstance(x, Word):
        return x.s
    raise TypeError(repr(x))


class Word:
    """bare word token (operation names)"""
    def __init__(self, s):
        self.s = s


def wline(op, *args):
    return " ".join([op] + [a if isinstance(a, str) and a.isidentifier() and False else w(a) for a in args])


def parse_wire(line):
    toks = line.split()
    stack = [[]]
    for t in toks:
        if t == "(":
            stack.append([])
        elif t == ")":
            l = stack.pop()
            stack[-1].append(l)
        elif re.fullmatch(r"-?[0-9]+", t):
            stack[-1].append(int(t))
        elif t.startswith("x"):
            try:
                stack[-1].append(bytes.fromhex(t[1:]))
            except ValueError:
                stack[-1].append(t.encode())
        else:
            stack[-1].append(t.encode())
    return stack[0]


def is_err(vs, kind=None):
    if len(vs) == 1 and isinstance(vs[0], list) and vs[0] and vs[0][0] == b"err":
        return kind is None or (len(vs[0]) > 1 and vs[0][1] == kind.encode())
    return False


def _run_lines(exe, lines, timeout, shards=1, min_shard=2000):
    if not lines:
        return []
    if shards > 1 and len(lines) > min_shard:
        n = (len(lines) + shards - 1) // shards
        parts = [lines[i:i + n] for i in range(0, len(lines), n)]
        procs = []
        for p in parts:
            pr = subprocess.Popen([exe], stdin=subprocess.PIPE, stdout=subprocess.PIPE, text=True, env=GOENV)
            procs.append((pr, p))
        import threading
        outs = [None] * len(procs)

        def feed(i, pr, p):
            o, _ = pr.communicate("\n".join(p) + "\n", timeout=timeout)
            outs[i] = o.split("\n")[:len(p)]
        ths = [threading.Thread(target=feed, args=(i, pr, p)) for i, (pr, p) in enumerate(procs)]
        [t.start() for t in ths]
        [t.join() for t in ths]
        res = []
        for (pr, p), o in zip(procs, outs):
            if o is None or len(o) != len(p) or pr.returncode != 0:
                raise RuntimeError("%s: shard failed (rc %s, %s/%s lines)" % (exe, pr.returncode, 0 if o is None else len(o), len(p)))
            res.extend(o)
        return res
    p = subprocess.run([exe], input="\n".join(lines) + "\n", stdout=subprocess.PIPE, text=True, timeout=timeout, env=GOENV)
    out = p.stdout.split("\n")
    if out and out[-1] == "":
        out.pop()
    if p.returncode != 0 or len(out) != len(lines):
        raise RuntimeError("%s: rc %s, %d output lines for %d input lines" % (exe, p.returncode, len(out), len(lines)))
    return out


def run_go(lines, timeout=1800, shards=8, min_shard=2000):
    return _run_lines(os.path.join(BIN, "vharness"), lines, timeout, shards, min_shard)


def run_oracle(lines, timeout=1800, shards=8, min_shard=2000):
    return _run_lines(os.path.join(BIN, "oracle"), lines, timeout, shards, min_shard)


def coq_eval(lines, timeout=900):
    """Evaluates run_line on the given wire lines inside Coq with vm_compute (cross-check of the
    extracted code on a sample). Returns the list of output lines."""
    os.makedirs(WORK, exist_ok=True)
    name = "Cases%d" % os.getpid()
    path = os.path.join(WORK, name + ".v")
    def coqbytes(s):
        return "[" + ";".join('"%03d"' % b for b in s.encode()) + "]"
    with open(path, "w") as f:
        f.write("From Coq Require Import List Strings.Byte ZArith.\nFrom Verif Require Import Base.Wire Run.Dispatch.\nImport ListNotations.\n")
        f.write("Definition b (n : N) : byte := match Byte.of_N n with Some x => x | None => x00 end.\n")
        f.write("Definition outs := Eval vm_compute in map (fun l => map (fun x => Byte.to_N x) (run_line (map b l))) [\n")
        f.write(";\n".join("[" + ";".join(str(c) for c in l.encode()) + "]%N" for l in lines))
        f.write("].\nPrint outs.\n")
    with Lock("rocq"):
        rc, out = sh("timeout %d coqc -Q %s Verif -Q %s W %s" % (timeout, ROCQ, WORK, path), timeout=timeout + 30)
    for ext in (".v", ".vo", ".glob", ".vok", ".vos"):
        try:
            os.remove(os.path.join(WORK, name + ext))
        except OSError:
            pass
    try:
        os.remove(os.path.join(WORK, "." + name + ".aux"))
    except OSError:
        pass
    if rc != 0:
        raise RuntimeError("coq_eval failed: " + out[-2000:])
    m = re.search(r"outs\s*=\s*(\[.*\])\s*:\s*list", out, re.S)
    body = m.group(1)
    res = []
    # parse [[1; 2]; [3]]%N style output
    depth = 0
    cur = None
    for tok in re.findall(r"\[|\]|\d+", body):
        if tok == "[":
            depth += 1
            if depth == 2:
                cur = []
        elif tok == "]":
            if depth == 2:
                res.append(bytes(cur).decode())
            depth -= 1
        else:
            cur.append(int(tok))
    return res


# ----------------------------------------------------------------------------------------------
# reporting
# ----------------------------------------------------------------------------------------------

def load_findings():
    """KNOWN_FINDINGS.json plus per-property files findings/Cxx.json (same shape); never written at run time."""
    res = {"known": [], "fixed": []}
    paths = []   # KNOWN_FINDINGS.json is the consolidated index generated from these files by tools/mkfindings.py
    fd = os.path.join(VERIF, "findings")
    if os.path.isdir(fd):
        paths += [os.path.join(fd, f) for f in sorted(os.listdir(fd)) if f.endswith(".json")]
    for p in paths:
        if os.path.exists(p):
            d = json.load(open(p))
            res["known"] += d.get("known", [])
            res["fixed"] += d.get("fixed", [])
    return res


class Check:
    def __init__(self, cid, tier, seed):
        self.cid, self.tier, self.seed = cid, tier, seed
        self.rng = random.Random((seed << 8) ^ int(hashlib.sha1(cid.encode()).hexdigest()[:6], 16))
        self.violations = []      # (what, replay_obj, no_input)
        self.known_hits = {}
        self.cov = {"evaluations": 0, "distinct_nontrivial": 0, "rule": "", "samples": [], "streams": {}}
        self.assumptions = []
        self.findings = [f for f in load_findings().get("known", []) if f["property"] == cid]
        self.proof = None
        self._distinct = set()

    # -- counting
    def count(self, stream, n=1, nontrivial_key=None):
        st = self.cov["streams"].setdefault(stream, {"evaluations": 0, "nontrivial": 0})
        st["evaluations"] += n
        self.cov["evaluations"] += n
        if nontrivial_key is not None:
            k = hashlib.blake2b(repr((stream, nontrivial_key)).encode(), digest_size=8).digest()
            if k not in self._distinct:
                self._distinct.add(k)
                st["nontrivial"] += 1

    def sample(self, obj, limit=6):
        if len(self.cov["samples"]) < limit:
            self.cov["samples"].append(obj)

    # -- findings
    def known(self, fid):
        for f in self.findings:
            if f["id"] == fid:
                return f
        return None

    def report(self, what, replay, finding_id=None, no_input=False):
        """A property violation. If it matches a committed known finding it is only counted."""
        if finding_id and self.known(finding_id):
            self.known_hits.setdefault(finding_id, []).append(what)
            return
        self.violations.append((what, replay, no_input))

    # -- proof part
    def prove(self, need_translate=None):
        """translate -> make (only what this property's theorems and the oracle need) -> Props/<cid>.v.
        Returns True when all obligations of this property are discharged.  Building only
        Props/<cid>.vo and Run/Dispatch.vo keeps a broken data theorem of ANOTHER property from
        raising an alarm here."""
        t = time.time()
        bad = scan_forbidden()
        tr_ok, tr_out = True, ""
        if os.path.exists(os.path.join(BIN, "vharness")):
            tr_ok, tr_out = translate()
        targets = ["Run/Dispatch.vo"]
        if os.path.exists(os.path.join(ROCQ, "Props", self.cid + ".v")):
            targets.append("Props/%s.vo" % self.cid)
        ok, out, failed = build_rocq(targets)
        pr = {"ok": False, "obligations": 1, "discharged": 0, "theorems": [], "axioms": [], "log": ""}
        if os.path.exists(os.path.join(ROCQ, "Props", self.cid + ".v")):
            pr = props(self.cid)
        pr["build_ok"] = ok
        pr["failed_files"] = failed
        pr["forbidden"] = bad
        pr["translate_ok"] = tr_ok
        pr["make_log"] = (out[-3000:] if not ok else "") + ("" if tr_ok else "\ntranslator failed: " + tr_out[-1500:])
        pr["wall_s"] = round(time.time() - t, 1)
        if bad or not ok or not tr_ok:
            pr["ok"] = False
        self.proof = pr
        return pr["ok"]

    def finish(self, extra_trusted=None, level="proof"):
        os.makedirs(os.path.join(VERIF, "evidence"), exist_ok=True)
        os.makedirs(os.path.join(VERIF, "replays"), exist_ok=True)
        pr = self.proof or {"obligations": 0, "discharged": 0, "theorems": [], "axioms": []}
        self.cov["distinct_nontrivial"] = len(self._distinct)
        cov = dict(self.cov)
        cov["obligations"] = pr.get("obligations", 0)
        cov["discharged"] = pr.get("discharged", 0)
        cov["theorems"] = [{"name": n, "axioms": ax} for n, ax in pr.get("theorems", [])]
        cov["checker_cmd"] = "make -C rocq (coq_makefile, full .vo build, Coq 8.16.1) && coqc -Q rocq Verif rocq/Props/%s.v (Print Assumptions under every theorem)" % self.cid
        cov["trusted_base"] = [
            "Coq 8.16.1 kernel incl. vm_compute (no native_compute)",
            "axioms reported by Print Assumptions: " + (", ".join(pr.get("axioms", [])) or "none (closed under the global context)"),
            "extraction (ExtrOcamlBasic only, no Extract Constant) + OCaml 4.13.1 driver oracle/main.ml",
            "correspondence harness: harness/*.go linked against /repo, tools/*.py generators and comparison",
        ] + (extra_trusted or [])
        for fid, hits in self.known_hits.items():
            print("KNOWN-FINDING: property=%s %s (%d cases this run; e.g. %s)" % (self.cid, self.known(fid)["what"], len(hits), hits[0]))
        cov["known_findings_hit"] = {k: len(v) for k, v in self.known_hits.items()}
        nviol = len(self.violations)
        ev = {"property_id": self.cid, "tier": self.tier, "seed": self.seed, "level": level,
              "coverage": cov, "assumptions": self.assumptions, "wall_s": round(time.time() - T0, 1),
              "violations": nviol}
        if not cov["samples"]:
            cov["samples"] = ["(no case sampled)"]
        json.dump(ev, open(os.path.join(VERIF, "evidence", self.cid + ".json"), "w"), indent=1, default=_js)
        shown = 0
        for i, (what, replay, no_input) in enumerate(self.violations):
            if shown >= 5:
                break
            path = os.path.join("replays", "%s-%d-%d.json" % (self.cid, self.seed, i))
            json.dump({"property": self.cid, "what": what, "replay": replay}, open(os.path.join(VERIF, path), "w"), indent=1, default=_js)
            print("VIOLATION property=%s replay=%s%s" % (self.cid, path, " no-failing-input-found" if no_input else ""))
            log("violation:", what)
            shown += 1
        return 1 if nviol else 0


def _js(o):
    if isinstance(o, (bytes, bytearray)):
        try:
            return bytes(o).decode()
        except UnicodeDecodeError:
            return "hex:" + bytes(o).hex()
    if isinstance(o, set):
        return sorted(o)
    return str(o)


def std_builds(c, oracle=True, harness=True, cli=False):
    """Builds everything a check needs; a failing Go build of /repo is reported as a broken tie."""
    if harness:
        ok, out = build_harness()
        if not ok:
            c.report("the implementation no longer builds with the harness: " + out[-1500:], {"correspondence": "go build"}, no_input=True)
            return False
    if cli:
        ok, out = build_cli()
        if not ok:
            c.report("cmd/gobl no longer builds: " + out[-1500:], {"correspondence": "go build ./cmd/gobl"}, no_input=True)
            return False
    return True
