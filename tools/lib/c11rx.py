"""C11: the regular expressions the regime and add-on Go code validates members with, and strings that satisfy them.

A member validated by a regime-specific expression (a Mexican RFC, a CURP, a Portuguese series ...) is published in the
schema as some general type (cbc/code, a string with a pattern ...). Generic bad values never tell whether the two agree:
the regime's expression refuses them first. This module harvests the expression literals of the Go source
(regexp.MustCompile arguments and the constants / variables named ...Pattern / ...Regexp), per country directory, and
samples strings that MATCH an expression while taking its characters from outside the code / key alphabet wherever the
expression allows one (non-ASCII letters, `&`, `,` ...)."""
import glob
import json
import os
import re

try:
    import re._parser as sre_parse          # python >= 3.11
except ImportError:                          # pragma: no cover
    import sre_parse

LIT = r'(`[^`]*`|"(?:[^"\\\n]|\\.)*")'
RX_CALL = re.compile(r'regexp\.MustCompile\(\s*' + LIT + r'\s*\)')
RX_NAME = re.compile(r'\b[A-Za-z_][A-Za-z0-9_]*(?:Pattern|Regexp|RegExp|Regex|pattern|regexp|regex)[A-Za-z0-9_]*\s*(?:string\s*)?=\s*' + LIT + r'[ \t]*(?://[^\n]*)?$', re.M)

ORDINARY = set("ABCDEFGHIJKLMNOPQRSTUVWXYZabcdefghijklmnopqrstuvwxyz0123456789")
# what an expression's `.`, negated class or wide range is offered from outside the code / key alphabet
OUTSIDE = ["Ñ", "&", "é", ",", "日", "'", "#", "ñ", "+", "*"]


def _literal(text):
    if text.startswith("`"):
        return text[1:-1]
    try:
        return json.loads(text)             # Go's interpreted literals are close enough to JSON's for pattern texts
    except ValueError:
        return None


def harvest(repo):
    """{country code (upper case): sorted pattern texts} from regimes/<cc>/**.go and addons/<cc>/**.go (tests excluded)"""
    out = {}
    for top in ("regimes", "addons"):
        for f in glob.glob(os.path.join(repo, top, "**", "*.go"), recursive=True):
            if f.endswith("_test.go"):
                continue
            rel = os.path.relpath(f, os.path.join(repo, top)).split(os.sep)
            if len(rel) < 2 or len(rel[0]) != 2:
                continue
            try:
                src = open(f, encoding="utf-8", errors="replace").read()
            except OSError:
                continue
            for rx in (RX_CALL, RX_NAME):
                for m in rx.finditer(src):
                    p = _literal(m.group(1))
                    if p:
                        out.setdefault(rel[0].upper(), set()).add(p)
    return {k: sorted(v) for k, v in out.items()}


def _class_members(rng, items):
    """(ordinary members, outside members) of a character class given as sre items"""
    neg = bool(items) and items[0][0] is sre_parse.NEGATE
    its = items[1:] if neg else items
    lits, ranges, cats = [], [], []
    for op, av in its:
        if op is sre_parse.LITERAL:
            lits.append(chr(av))
        elif op is sre_parse.RANGE:
            ranges.append(av)
        elif op is sre_parse.CATEGORY:
            cats.append(av)

    def cat_has(ch):
        for cat in cats:
            n = str(cat)
            if "NOT_" in n:
                return None                 # not handled: no member offered through it
            if "DIGIT" in n and ch in "0123456789":
                return True
            if "WORD" in n and (ch in ORDINARY or ch == "_"):
                return True
            if "SPACE" in n and ch in " \t":
                return True
        return False

    def has(ch):
        return ch in lits or any(lo <= ord(ch) <= hi for lo, hi in ranges) or bool(cat_has(ch))
    if neg:
        cand = ["A", "a", "0", "Z", "7", " ", "-", "_"] + OUTSIDE
        mem = [ch for ch in cand if not has(ch)]
    else:
        mem = list(lits)
        for lo, hi in ranges:
            mem += [chr(lo), chr(hi)] + [chr(rng.randint(lo, hi)) for _ in range(3)]
            mem += [ch for ch in OUTSIDE if lo <= ord(ch) <= hi]
        for cat in cats:
            n = str(cat)
            if "NOT_" in n:
                continue
            if "DIGIT" in n:
                mem += list("0123456789")
            elif "WORD" in n:
                mem += ["A", "z", "5", "_"]
            elif "SPACE" in n:
                mem += [" "]
    mem = [ch for ch in mem if ch not in "\n\r" and not (0xD800 <= ord(ch) <= 0xDFFF)]
    return [ch for ch in mem if ch in ORDINARY], [ch for ch in mem if ch not in ORDINARY]


def _tokens(rng, tree, out, depth=0):
    """appends (ordinary choice or None, outside choice or None) per character of ONE string of the expression's language"""
    for op, av in tree:
        if op is sre_parse.LITERAL:
            out.append((chr(av), None))
        elif op is sre_parse.NOT_LITERAL:
            o = [ch for ch in "A0" if ch != chr(av)]
            x = [ch for ch in OUTSIDE if ch != chr(av)]
            out.append((rng.choice(o), rng.choice(x)))
        elif op is sre_parse.ANY:
            out.append((rng.choice("AZ09"), rng.choice(OUTSIDE)))
        elif op is sre_parse.IN:
            o, x = _class_members(rng, av)
            if not o and not x:
                raise ValueError("empty class")
            out.append((rng.choice(o) if o else None, rng.choice(x) if x else None))
        elif op is sre_parse.CATEGORY:
            o, x = _class_members(rng, [(sre_parse.CATEGORY, av)])
            if not o and not x:
                raise ValueError("empty category")
            out.append((rng.choice(o) if o else None, rng.choice(x) if x else None))
        elif op in (sre_parse.MAX_REPEAT, sre_parse.MIN_REPEAT):
            lo, hi, sub = av
            hi = lo + 2 if hi is sre_parse.MAXREPEAT or hi > lo + 2 else hi
            for _ in range(rng.randint(lo, hi) if depth < 4 else lo):
                _tokens(rng, sub, out, depth + 1)
        elif op is sre_parse.SUBPATTERN:
            _tokens(rng, av[-1], out, depth + 1)
        elif op is sre_parse.BRANCH:
            _tokens(rng, rng.choice(av[1]), out, depth + 1)
        elif op is sre_parse.AT:
            continue
        else:
            raise ValueError("unsupported construct %s" % (op,))


def samples(rng, pattern, n=3):
    """up to n+1 strings of the expression's language: ONE position taken from outside the code alphabet (n of them, where
    the expression offers such a position), and one with EVERY position that can be. [] when the expression is outside
    the handled subset (the caller confirms every string with Go's regexp anyway)."""
    try:
        tree = sre_parse.parse(pattern)
    except Exception:
        return []
    res = []
    for k in range(n + 1):
        toks = []
        try:
            _tokens(rng, tree, toks)
        except (ValueError, IndexError, RecursionError):
            return res
        slots = [i for i, (o, x) in enumerate(toks) if x is not None and o is not None]
        if not slots and res:
            break                           # nothing to choose: one string of the language is enough
        if k < n:
            take = {rng.choice(slots)} if slots else set()
        else:
            take = set(slots)
        s = "".join((x if (i in take or o is None) else o) for i, (o, x) in enumerate(toks))
        if s and s not in res and len(s) <= 200:
            res.append(s)
    return res


def neighbours(rng, pattern, value, n=40):
    """the present value with ONE character replaced by a non-alphanumeric character the expression's text mentions (or a
    general outside one) - candidates only; the caller keeps those the expression still matches"""
    chars = sorted({ch for ch in pattern if ch not in ORDINARY and ch not in "^$()[]{}|\\?*+.-:<>= \t"} | set(OUTSIDE[:3]))
    res = [value[:i] + ch + value[i + 1:] for i in range(len(value)) for ch in chars if value[i] != ch]
    rng.shuffle(res)
    return res[:n]
