"""Document generator, wire rendering and an independent exact-arithmetic reading of the
calculation (oracle P) shared by the calculation properties C01, C02, C03, C04, C17.

A generated case is a GOBL invoice as a JSON-able dict (what the Go implementation receives);
`to_wire` derives the model's input from it (amount texts -> (value, exp), rate keys resolved
through the published regime tables data/regimes/*.json of the repository under test)."""
import json
import os
from fractions import Fraction

from vlib import REPO, w

SUBUNITS = {"EUR": 2, "USD": 2, "JPY": 0, "KWD": 3, "MXN": 2, "GBP": 2, "BHD": 3, "CLP": 0}
CURID = {k: i + 1 for i, k in enumerate(sorted(SUBUNITS))}
PRECISE, CURRENCY = "precise", "currency"
T52 = 2 ** 52


# ---------------------------------------------------------------------------------------------
# exact amounts
# ---------------------------------------------------------------------------------------------
def rha(n, d):
    if d < 0:
        n, d = -n, -d
    if n >= 0:
        return (2 * n + d) // (2 * d)
    return -((2 * (-n) + d) // (2 * d))


class A:
    __slots__ = ("v", "e")
    big = 0   # largest magnitude seen (domain guard of C05: everything below 2^52)

    def __init__(s, v, e):
        s.v = v
        s.e = e
        if abs(v) > A.big:
            A.big = abs(v)

    def rescale(s, e):
        if s.e > e:
            return A(rha(s.v, 10 ** (s.e - e)), e)
        if s.e < e:
            return A(s.v * 10 ** (e - s.e), e)
        return s

    def up(s, e):
        return s.rescale(e) if e > s.e else s

    def down(s, e):
        return s.rescale(e) if e < s.e else s

    def match(s, o):
        return s.up(o.e)

    def add(s, o):
        return A(s.v + o.rescale(s.e).v, s.e)

    def sub(s, o):
        return A(s.v - o.rescale(s.e).v, s.e)

    def mul(s, o):
        A(s.v * o.v, 0)
        return A(rha(s.v * o.v, 10 ** o.e), s.e)

    def div(s, o):
        A(s.v * 10 ** o.e, 0)
        return A(rha(s.v * 10 ** o.e, o.v), s.e)

    def neg(s):
        return A(-s.v, s.e)

    def iszero(s):
        return s.v == 0

    def q(s):
        return Fraction(s.v, 10 ** s.e)

    def t(s):
        return [s.v, s.e]

    def __repr__(s):
        return fmt(s)


def parse(t):
    neg = t.startswith("-")
    t = t.lstrip("-")
    if "." in t:
        a, b = t.split(".")
        v = int(a) * 10 ** len(b) + int(b)
        e = len(b)
    else:
        v = int(t)
        e = 0
    return A(-v if neg else v, e)


def fmt(a):
    if a.e == 0:
        return str(a.v)
    s = "-" if a.v < 0 else ""
    v = abs(a.v)
    p = 10 ** a.e
    return "%s%d.%0*d" % (s, v // p, a.e, v % p)


def parse_pct(t):
    if t.endswith("%"):
        a = parse(t[:-1])
        return a.rescale(a.e + 2).div(A(100, 0))
    return parse(t)


def pct_of(p, a):
    return a.mul(p)


def factor(p):
    return p.add(A(1, 0))


def remove(a, p):
    return a.div(factor(p))


# ---------------------------------------------------------------------------------------------
# published regime tables
# ---------------------------------------------------------------------------------------------
_REG = {}
_INCODE = None


def _incode():
    """the regime definitions the CODE under test registers (bin/vharness c12dump), so that the calculation
    properties judge the arithmetic with whatever rate the library applies; agreement of the code with the
    published data/regimes/*.json and the date logic are C19's and C12's subjects."""
    global _INCODE
    if _INCODE is None:
        import subprocess
        from vlib import BIN, GOENV
        try:
            p = subprocess.run([os.path.join(BIN, "vharness"), "c12dump", REPO], stdout=subprocess.PIPE, env=GOENV, timeout=120)
            _INCODE = json.loads(p.stdout.decode()) if p.returncode == 0 else {}
        except Exception:
            _INCODE = {}
    return _INCODE


def regime(cc):
    cc = {"GR": "EL"}.get(cc, cc)
    if cc not in _REG:
        d = _incode().get(cc.lower())
        if d is None:
            p = os.path.join(REPO, "data", "regimes", cc.lower() + ".json")
            d = json.load(open(p)) if os.path.exists(p) else None
        _REG[cc] = d
    return _REG[cc]


def reset_tables():
    global _INCODE
    _REG.clear()
    _INCODE = None


def rate_value(cc, cat, key, date, ext):
    """(percent text | None, surcharge text | None, exempt, rate ext) per the property: latest since <= date
    among the values whose ext filter applies (first such in table order)."""
    r = regime(cc)
    if r is None:
        return "keep", None, False, {}      # no regime for the country: the key fixes nothing
    for c in r["categories"]:
        if c["code"] != cat:
            continue
        for rd in c.get("rates", []):
            keys = rd.get("keys") or ([rd["key"]] if rd.get("key") else [])
            if key not in keys:
                continue
            if rd.get("exempt"):
                return None, None, True, rd.get("ext") or {}
            vals = rd.get("values", [])
            if not vals:
                return "keep", None, False, rd.get("ext") or {}
            for v in vals:
                if v.get("ext") and any((ext or {}).get(k) != x for k, x in v["ext"].items()):
                    continue
                if v.get("tags"):
                    continue
                if v.get("since") and v["since"] > date:
                    continue
                return v["percent"], v.get("surcharge"), False, rd.get("ext") or {}
            return "nodate", None, False, {}
    return "norate", None, False, {}


def cat_retained(cc, cat):
    r = regime(cc)
    if r is None:
        return False        # country without a regime: Combo.calculate leaves the combo alone (not retained, values as given)
    for c in r["categories"]:
        if c["code"] == cat:
            return bool(c.get("retained"))
    return None


def resolve_combo(doc_cc, t, date):
    """JSON combo -> prepared combo dict for the model, or None when Go is expected to refuse it."""
    country = t.get("country", "")
    cc = doc_cc
    if country == doc_cc:
        country = ""
    elif country:
        cc = country
    ext = dict(t.get("ext") or {})
    pct, sur = t.get("percent"), t.get("surcharge")
    retained = cat_retained(cc, t["cat"])
    if retained is None:
        return None
    if t.get("rate") and "_r" in t:
        # the percentage / surcharge the library itself put on this combo (annotated by run3 from Go's result)
        p, s, exempt, rext = rate_value(cc, t["cat"], t["rate"], date, ext)
        if not country and p not in ("norate", "nodate"):
            ext.update(rext)
        rp, rs = t["_r"]
        return {"cat": t["cat"], "country": country, "ext": sorted(ext.items()),
                "pct": None if rp is None else A(rp[0], rp[1]), "sur": None if rs is None else A(rs[0], rs[1]),
                "retained": retained, "key": t.get("rate", "")}
    if t.get("rate"):
        p, s, exempt, rext = rate_value(cc, t["cat"], t["rate"], date, ext)
        if p in ("norate", "nodate"):
            return None
        if not country:
            ext.update(rext)
        if exempt:
            pct, sur = None, None
        elif p != "keep":
            pct, sur = p, s
    return {"cat": t["cat"], "country": country, "ext": sorted(ext.items()),
            "pct": None if pct is None else parse_pct(pct), "sur": None if sur is None else parse_pct(sur),
            "retained": retained, "key": t.get("rate", "")}


# ---------------------------------------------------------------------------------------------
# wire rendering of a document for the model
# ---------------------------------------------------------------------------------------------
def oa(t):
    return [] if t is None else parse(t).t()


def op(t):
    return [] if t is None else parse_pct(t).t()


def doc_meta(doc):
    cc = doc["supplier"]["tax_id"]["country"]
    reg = regime(cc)
    cur = doc.get("currency") or reg["currency"]
    rr = (doc.get("tax") or {}).get("rounding") or reg.get("calculator_rounding_rule") or PRECISE
    date = doc.get("value_date") or doc["issue_date"]
    return cc, cur, SUBUNITS[cur], rr, date


def to_wire(doc):
    cc, cur, c, rr, date = doc_meta(doc)

    def combos(ts):
        out = []
        for t in ts or []:
            cb = resolve_combo(cc, t, date)
            if cb is None:
                raise ValueError("unresolvable combo")
            out.append([cb["cat"].encode(), cb["country"].encode(), [[k.encode(), v.encode()] for k, v in cb["ext"]],
                        [] if cb["pct"] is None else cb["pct"].t(), [] if cb["sur"] is None else cb["sur"].t(),
                        1 if cb["retained"] else 0, cb["key"].encode()])
        return out

    def ldc(d):
        return [parse(d["amount"]).t() if "amount" in d else [0, 0], op(d.get("percent")), oa(d.get("base")),
                oa(d.get("rate")), oa(d.get("quantity"))]

    def ddc(d):
        return [parse(d["amount"]).t() if "amount" in d else [0, 0], op(d.get("percent")), oa(d.get("base")), combos(d.get("taxes"))]

    def item(it):
        icur = it.get("currency")
        return [parse(it["price"]).t(), [] if not icur else [CURID[icur], SUBUNITS[icur]],
                [[CURID[a["currency"]], parse(a["value"]).t()] for a in it.get("alt_prices", [])]]

    def sub(sl):
        return [parse(sl["quantity"]).t(), item(sl["item"]), [ldc(x) for x in sl.get("discounts", [])], [ldc(x) for x in sl.get("charges", [])]]

    def line(l):
        return [parse(l["quantity"]).t(), item(l["item"]), [sub(s) for s in l.get("breakdown", [])],
                [ldc(x) for x in l.get("discounts", [])], [ldc(x) for x in l.get("charges", [])], combos(l.get("taxes"))]

    pay = doc.get("payment") or {}
    prow = lambda a: [parse(a["amount"]).t() if "amount" in a else [0, 0], op(a.get("percent"))]
    pit = (doc.get("tax") or {}).get("prices_include") or ""
    rounding = (doc.get("totals") or {}).get("rounding")
    return [c, 1 if rr == CURRENCY else 0, pit.encode(), CURID[cur], [line(l) for l in doc["lines"]],
            [ddc(d) for d in doc.get("discounts", [])], [ddc(d) for d in doc.get("charges", [])],
            [[CURID[r["from"]], CURID[r["to"]], parse(r["amount"]).t()] for r in doc.get("exchange_rates", [])],
            [prow(a) for a in pay.get("advances", [])],
            [prow(a) for a in (pay.get("terms") or {}).get("due_dates", [])], oa(rounding)]


def wire_line(op_, doc, prefix="c01"):
    return "%s %s %s" % (prefix, op_, w(to_wire(doc)))


def strip_notes(x):
    """drops the generator's private annotations (keys starting with '_') before rendering JSON"""
    if isinstance(x, dict):
        return {k: strip_notes(v) for k, v in x.items() if not k.startswith("_")}
    if isinstance(x, list):
        return [strip_notes(v) for v in x]
    return x


def drop_empty_rows(doc):
    """removes the line / sub-line discount and charge rows that are EMPTY - no key, code, reason or extension and
    every number (percentage, amount, rate) zero or absent - as normalisation does before a calculation; such a row
    changes no figure. (A fixed amount below half a minor unit is presented as zero under the 'currency' rule, so
    the result of a calculation can hold such rows although its source did not.)"""
    def empty(r):
        if any(r.get(k) for k in ("key", "code", "reason", "ext")):
            return False
        return not Gen.row_has_value(r)
    for l in doc.get("lines", []):
        for row in [l] + list(l.get("breakdown", [])):
            for k in ("discounts", "charges"):
                if k in row:
                    row[k] = [r for r in row[k] if not empty(r)]
                    if not row[k]:
                        del row[k]
    return doc


def json_line(op_, doc, prefix="c01"):
    return "%s %s %s" % (prefix, op_, w(json.dumps(strip_notes(doc))))


def annotate_resolved(doc, resolved):
    """writes the library's own percentage/surcharge onto every rate-key combo ('_r'), rows in the order
    lines, discounts, charges"""
    rows = list(doc.get("lines", [])) + list(doc.get("discounts", [])) + list(doc.get("charges", []))
    if len(rows) != len(resolved):
        return
    for r, rc in zip(rows, resolved):
        ts = r.get("taxes") or []
        if len(ts) != len(rc):
            continue
        for t, (p, s) in zip(ts, rc):
            if t.get("rate"):
                t["_r"] = (None if p == [] else tuple(p), None if s == [] else tuple(s))


def clear_resolved(doc):
    for r in list(doc.get("lines", [])) + list(doc.get("discounts", [])) + list(doc.get("charges", [])):
        for t in r.get("taxes") or []:
            t.pop("_r", None)


# ---------------------------------------------------------------------------------------------
# independent exact reading of the calculation (oracle P); result in the model's wire layout
# ---------------------------------------------------------------------------------------------
def item_price(item, cur, c, rates):
    icur = item.get("currency") or cur
    price = parse(item["price"]).match(A(0, SUBUNITS[icur]))
    if not item.get("currency") or item["currency"] == cur:
        return price
    for ap in item.get("alt_prices", []):
        if ap["currency"] == cur:
            return parse(ap["value"]).match(A(0, SUBUNITS[cur]))
    for r in rates:
        if r["from"] == item["currency"] and r["to"] == cur:
            # ExchangeRate.Convert (as repaired): the amount is held with at least the destination currency's decimals
            # before it is multiplied (Multiply rounds to its receiver's decimals), then expressed in that currency
            return price.match(A(0, SUBUNITS[cur])).mul(parse(r["amount"])).rescale(SUBUNITS[cur])
    return None


def apply_rr(rr, c, a):
    return a.rescale(c) if rr == CURRENCY else a.up(c)


def match_rr(rr, a, b):
    return a if rr == CURRENCY else a.match(b)


def line_dc(rows, sum_, total, c, rr, quantity, is_charge):
    out = []
    for d in rows:
        amount = parse(d["amount"]) if "amount" in d else A(0, 0)
        if d.get("percent") is not None and not parse_pct(d["percent"]).iszero():
            base = sum_
            if d.get("base") is not None:
                b = parse(d["base"]).up(c)
                base = apply_rr(rr, c, b.up(c + 2))
            amount = pct_of(parse_pct(d["percent"]), base)
        if is_charge and d.get("rate") is not None:
            q = quantity if d.get("quantity") is None else parse(d["quantity"])
            # rate x quantity keeps every decimal of the product (repaired calculateLineCharges)
            r = parse(d["rate"])
            amount = r.up(r.e + q.e).mul(q)
        amount = apply_rr(rr, c, amount)
        total = total.add(amount) if is_charge else total.sub(amount)
        out.append(amount)
    return out, total


def eqv(a, b):
    m = max(a.e, b.e)
    return a.rescale(m).v == b.rescale(m).v


def pcalc(doc):
    """Returns the result in the layout of RunCalc.e_result as python lists (parse_wire form),
    'calc-error' when the calculation is refused."""
    cc, cur, c, rr, date = doc_meta(doc)
    zero = A(0, c)
    pit = (doc.get("tax") or {}).get("prices_include")
    xr = doc.get("exchange_rates", [])
    lines = []
    taxable = []
    for l in doc["lines"]:
        q = parse(l["quantity"])
        item = dict(l["item"])
        subs = []
        if l.get("breakdown"):
            np_ = zero
            maxe = 0
            for sl in l["breakdown"]:
                sp = item_price(sl["item"], cur, c, xr)
                if sp is None:
                    return "calc-error"
                maxe = max(maxe, sp.e)
                p2 = sp.up(c + 2) if rr == PRECISE else sp
                sq = parse(sl["quantity"])
                ssum = apply_rr(rr, c, p2.mul(sq))
                stot = ssum
                _, stot = line_dc(sl.get("discounts", []), ssum, stot, c, rr, sq, False)
                _, stot = line_dc(sl.get("charges", []), ssum, stot, c, rr, sq, True)
                subs.append((ssum, stot))
                np_ = np_.match(stot).add(stot)
            item = {"price": fmt(np_.rescale(maxe))}
        price = item_price(item, cur, c, xr)
        if price is None:
            return "calc-error"
        pr = price.up(c + (2 if rr == PRECISE else 0))
        s = apply_rr(rr, c, pr.mul(q))
        total = s
        ds, total = line_dc(l.get("discounts", []), s, total, c, rr, q, False)
        cs, total = line_dc(l.get("charges", []), s, total, c, rr, q, True)
        lines.append({"price": price, "sum": s, "total": total, "ds": ds, "cs": cs, "subs": subs})
        taxable.append((total, l.get("taxes") or []))
    tsum = zero
    for l in lines:
        tsum = tsum.match(l["total"]).add(l["total"])
    total = tsum

    def doc_dc(rows):
        out = []
        for d in rows:
            amount = parse(d["amount"]) if "amount" in d else A(0, 0)
            if d.get("percent") is not None and not parse_pct(d["percent"]).iszero():
                base = tsum
                if d.get("base") is not None:
                    base = apply_rr(rr, c, parse(d["base"]).up(c + 2))
                amount = pct_of(parse_pct(d["percent"]), base)
            out.append(apply_rr(rr, c, amount))
        return out
    drows, crows = doc.get("discounts", []), doc.get("charges", [])
    dd, cc_ = doc_dc(drows), doc_dc(crows)
    discount = charge = None
    if dd:
        t = zero
        for a in dd:
            t = t.match(a).add(a)
        discount = t
        total = total.sub(t)
    if cc_:
        t = zero
        for a in cc_:
            t = t.match(a).add(a)
        charge = t
        total = total.add(t)
    for d, a in zip(drows, dd):
        taxable.append((a.neg(), d.get("taxes") or []))
    for d, a in zip(crows, cc_):
        taxable.append((a, d.get("taxes") or []))
    if not taxable:
        return [b"nototals", [present_line(l) for l in lines]]
    tls = []
    for tot, taxes in taxable:
        combos = []
        for t in taxes:
            cb = resolve_combo(cc, t, date)
            if cb is None:
                return "calc-error"
            combos.append(cb)
            tot = tot.up(c + 2)
        tls.append([tot, combos])
    if pit:
        for tl in tls:
            cb = next((x for x in tl[1] if x["cat"] == pit), None)
            if cb is not None:
                if cb["retained"]:
                    return "calc-error"
                if cb["pct"] is None:
                    continue
                tl[0] = remove(tl[0], cb["pct"])
    cats = []
    for tot, combos in tls:
        for cb in combos:
            ct = next((x for x in cats if x["code"] == cb["cat"]), None)
            if ct is None:
                ct = {"code": cb["cat"], "retained": cb["retained"], "rates": [], "amount": zero, "surcharge": None}
                cats.append(ct)
            rt = None
            for r in ct["rates"]:
                if r["ext"] != cb["ext"] or r["country"] != cb["country"]:
                    continue
                if r["pct"] is None or cb["pct"] is None:
                    ok = r["pct"] is None and cb["pct"] is None
                else:
                    ok = True
                    if r["sur"] is not None or cb["sur"] is not None:
                        if r["sur"] is None or cb["sur"] is None or not eqv(r["sur"], cb["sur"]):
                            ok = False
                    if ok:
                        ok = eqv(r["pct"], cb["pct"])
                if ok:
                    rt = r
                    break
            if rt is None:
                rt = {"country": cb["country"], "ext": cb["ext"], "pct": cb["pct"], "sur": cb["sur"], "base": zero,
                      "amount": zero, "suramount": zero}
                ct["rates"].append(rt)
            rt["base"] = match_rr(rr, rt["base"], tot).add(tot)
    taxsum = zero
    for ct in cats:
        ct["amount"] = zero
        for rt in ct["rates"]:
            if rt["pct"] is None:
                continue
            rt["amount"] = pct_of(rt["pct"], rt["base"])
            ct["amount"] = match_rr(rr, ct["amount"], rt["amount"]).add(rt["amount"])
            if rt["sur"] is not None:
                rt["suramount"] = pct_of(rt["sur"], rt["base"])
                x = ct["surcharge"] if ct["surcharge"] is not None else zero
                ct["surcharge"] = match_rr(rr, x, rt["suramount"]).add(rt["suramount"])
        taxsum = match_rr(rr, taxsum, ct["amount"])
        if ct["retained"]:
            taxsum = taxsum.sub(ct["amount"])
            if ct["surcharge"] is not None:
                taxsum = taxsum.sub(ct["surcharge"])
        else:
            taxsum = taxsum.add(ct["amount"])
            if ct["surcharge"] is not None:
                taxsum = taxsum.add(ct["surcharge"])
    for ct in cats:
        for rt in ct["rates"]:
            rt["amount"] = rt["amount"].rescale(c)
            rt["base"] = rt["base"].rescale(c)
            rt["suramount"] = rt["suramount"].rescale(c)
        ct["precise"] = ct["amount"]
        ct["amount"] = ct["amount"].rescale(c)
        if ct["surcharge"] is not None:
            ct["surcharge"] = ct["surcharge"].rescale(c)
    taxsum_r = taxsum.rescale(c)
    included = None
    if pit:
        ct = next((x for x in cats if x["code"] == pit), None)
        if ct is not None:
            included = ct["precise"] if not ct["precise"].iszero() else ct["amount"]
            total = total.sub(included)
    tax = taxsum if not taxsum.iszero() else taxsum_r
    twt = total.add(tax)
    payable = twt
    rounding = (doc.get("totals") or {}).get("rounding")
    if rounding is not None:
        # a supplied rounding is presented with the currency's decimals and that figure is what payable adds
        rounding = parse(rounding).rescale(c)
        payable = twt.add(rounding)
    pay = doc.get("payment") or {}
    advances = due = None
    adv_rows = []
    if pay.get("advances"):
        rows = []
        for a in pay["advances"]:
            amount = parse(a["amount"]) if "amount" in a else A(0, 0)
            if a.get("percent") is not None:
                amount = pct_of(parse_pct(a["percent"]), twt)
            rows.append(amount.match(zero))
        t = zero
        for a in rows:
            t = t.match(a).add(a)
        adv_rows = [a.rescale(c) for a in rows]
        advances = t
        due = payable.sub(t)
    dues = []
    for d_ in (pay.get("terms") or {}).get("due_dates", []):
        amount = parse(d_["amount"]) if "amount" in d_ else A(0, 0)
        if d_.get("percent") is not None and not parse_pct(d_["percent"]).iszero():
            amount = pct_of(parse_pct(d_["percent"]), payable)
        dues.append(amount.rescale(c))

    def pres(d, a):
        return a.down(c if d.get("base") is None else parse(d["base"]).e)
    R = lambda a: a.rescale(c).t()
    Ro = lambda a: [] if a is None else a.rescale(c).t()

    def ecat(ct):
        return [ct["code"].encode(), 1 if ct["retained"] else 0,
                [[rt["country"].encode(), [[k.encode(), v.encode()] for k, v in rt["ext"]],
                  [] if rt["pct"] is None else rt["pct"].t(), [] if rt["sur"] is None else rt["sur"].t(),
                  rt["base"].t(), rt["amount"].t(), rt["suramount"].t() if rt["sur"] is not None else []]
                 for rt in ct["rates"]],
                ct["amount"].t(), [] if ct["surcharge"] is None else ct["surcharge"].t()]
    return [b"ok", [[present_line(l) for l in lines], R(tsum), Ro(discount), Ro(charge), Ro(included), R(total), R(tax),
                    R(twt), R(payable), Ro(advances), Ro(due), [pres(d, a).t() for d, a in zip(drows, dd)],
                    [pres(d, a).t() for d, a in zip(crows, cc_)], [a.t() for a in adv_rows], [a.t() for a in dues],
                    [ecat(ct) for ct in cats], taxsum_r.t() if cats else [], [] if rounding is None else rounding.t()]]


def present_line(l):
    e = l["price"].e
    return [l["price"].t(), l["sum"].down(e).t(), l["total"].down(e).t(), [a.down(e).t() for a in l["ds"]],
            [a.down(e).t() for a in l["cs"]], [[s.down(e).t(), t.down(e).t()] for s, t in l["subs"]]]


# ---------------------------------------------------------------------------------------------
# generator
# ---------------------------------------------------------------------------------------------
PCT = ["21%", "10%", "4%", "5.2%", "1.4%", "0.5%", "21.0%", "7.75%", "19%", "0%", "33.333%", "100%", "-10%", "2.5%", "12.5%", "50%"]
TIE_Q = ["0.5", "1.5", "2.5", "0.25", "0.125", "-0.5", "-1.5", "3.5", "0.05", "0.75"]


class Gen:
    """Seeded generator of invoices; every random choice comes from rng."""

    def __init__(self, rng, feature_weights=None):
        self.rng = rng

    def amt(self, maxv, maxe, signed=False, tie=False):
        rng = self.rng
        e = rng.randint(0, maxe)
        v = rng.randrange(maxv)
        if tie and rng.random() < 0.5:
            v = v | 1          # odd last digit: half units appear once multiplied by a tie quantity
            if rng.random() < 0.5:
                v = v - v % 10 + 5
        if signed and rng.random() < 0.25:
            v = -v
        return fmt(A(v, e))

    def taxes(self, cc, allow_included_safe=False):
        rng = self.rng
        if cc == "ES" and rng.random() < getattr(self, "eqs_bias", 0):
            # surcharge-heavy documents: several DIFFERENT surcharged rates meet in one category
            if rng.random() < 0.8:
                return [{"cat": "VAT", "rate": rng.choice(["standard+eqs", "reduced+eqs", "super-reduced+eqs"])}]
            return [{"cat": "VAT", "percent": rng.choice(["21%", "10%", "4%"]), "surcharge": rng.choice(["5.2%", "1.4%", "0.5%", "5.20%"])}]
        if cc == "ES":
            k = rng.randrange(18 if getattr(self, "calc_only", False) else 16)   # 16, 17: documents that calculate but do not validate
            if k >= 16:     # a rate KEY that fixes no value (country without a regime): rows with the same key and different
                            # percentages - or one of them exempt - are different groups
                t = {"cat": "VAT", "country": rng.choice(["JP", "JP", "SE"]), "rate": rng.choice(["reduced", "reduced", "standard"])}
                if rng.random() < 0.8:
                    t["percent"] = rng.choice(["8%", "5%", "10%", "8.0%"])
                    if rng.random() < 0.2:
                        t["surcharge"] = rng.choice(["1%", "2%"])
                return [t]
            if k in (12, 13) and not getattr(self, "calc_only", False):
                k = 15          # (extension keys no regime defines: documents that calculate but do not validate)
            if k == 12:     # same percentage with and without an extension: groups must stay apart, in either order
                ext = rng.choice([{"es-zz-kind": "A"}, {"es-zz-kind": "B"}, {"es-zz-kind": "A", "es-zz-more": "X"}, {"es-zz-more": "X"},
                                  {"es-zz-kind": "A", "es-zz-more": "X", "es-zz-z": "1"}])   # incl. strict sub-maps of one another
                return [{"cat": "VAT", "percent": rng.choice(["21%", "10%", "0%"]), "ext": ext}]
            if k == 13:     # exempt (no percentage at all), locally or under a country override
                t = {"cat": "VAT"}
                if rng.random() < 0.5:
                    t["country"] = rng.choice(["PT", "FR"])
                if rng.random() < 0.45:
                    t["ext"] = rng.choice([{"es-zz-kind": "A"}, {"es-zz-kind": "A", "es-zz-more": "X"}, {"es-zz-more": "X"}])
                return [t]
            if k == 14:
                return [{"cat": "VAT", "percent": rng.choice(["21%", "10%"]), "country": rng.choice(["PT", "FR"])}]
            if k == 15:
                return [{"cat": "VAT", "percent": rng.choice(["21%", "10%", "0%"])}]
            if k == 0:
                return [{"cat": "VAT", "rate": "standard"}]
            if k == 1:
                return [{"cat": "VAT", "percent": rng.choice(PCT[:9])}]
            if k == 2:
                return [{"cat": "VAT", "rate": rng.choice(["standard+eqs", "reduced+eqs"])}]
            if k == 3:
                return [{"cat": "VAT", "rate": "exempt"}] if self.has_exempt else [{"cat": "VAT", "rate": "zero"}]
            if k == 4:      # retained category after, before, or without the ordinary one (the first category met sets the sum's precision)
                ts = [{"cat": "VAT", "rate": "reduced"}, {"cat": "IRPF", "percent": rng.choice(["15%", "7%", "19%"])}]
                return ts if rng.random() < 0.5 else (ts[::-1] if rng.random() < 0.7 else ts[1:])
            if k == 5:
                ts = [{"cat": "VAT", "percent": rng.choice(PCT[:9])}, {"cat": "IRPF", "rate": "pro"}]
                return ts if rng.random() < 0.5 else ts[::-1]
            if k == 6:
                return [{"cat": "IGIC", "rate": rng.choice(["standard", "reduced", "zero"])}]
            if k == 7:
                return [{"cat": "VAT", "percent": rng.choice(["21%", "21.0%", "21.00%"])}]
            if k == 8:
                return [{"cat": "VAT", "country": "PT", "rate": rng.choice(["standard", "reduced"])}]
            if k == 9:
                return [{"cat": "VAT", "percent": rng.choice(["21%", "10%"]), "surcharge": rng.choice(["5.2%", "1.4%", "5.20%"])}]
            if k == 10:
                return [{"cat": "VAT", "percent": "0%"}]
            return []
        if cc == "EL":
            k = rng.randrange(5)
            if k == 0:
                return [{"cat": "VAT", "rate": rng.choice(["standard", "reduced", "super-reduced", "standard+island"])}]
            if k == 1:
                return [{"cat": "VAT", "percent": rng.choice(["24%", "13%", "6%", "24.0%"])}]
            if k == 2:
                return [{"cat": "VAT", "percent": "0%"}]
            return [{"cat": "VAT", "rate": "standard"}] if k == 3 else []
        if cc == "PT":
            k = rng.randrange(5)
            # the PT regime's normaliser adds a default pt-region to combos without one, so always give it
            if k <= 1:
                return [{"cat": "VAT", "rate": rng.choice(["standard", "intermediate"]), "ext": {"pt-region": rng.choice(["PT-AC", "PT-MA", "PT"])}}]
            if k <= 3:
                return [{"cat": "VAT", "percent": rng.choice(["23%", "16%", "23.0%"]), "ext": {"pt-region": rng.choice(["PT-AC", "PT-MA", "PT"])}}]
            return []
        return []

    def ldc(self, charge, tie):
        rng = self.rng
        rows = []
        for _ in range(rng.choice([0, 0, 1, 1, 2])):
            k = rng.randrange(4 if charge else 3)
            r = {"reason": "r"}
            if k == 0:
                r["percent"] = rng.choice(PCT)
            elif k == 1:
                r["amount"] = self.amt(5000, self.fixed_dec, tie=tie)
            elif k == 2:
                r["percent"] = rng.choice(PCT)
                r["base"] = self.amt(90000, rng.choice([0, 1, 2, 2, 3, 4]), tie=tie)
            else:
                r["rate"] = self.amt(900, rng.choice([0, 1, 2, 2, 3]), tie=tie)
                if rng.random() < 0.6:
                    r["quantity"] = self.amt(50, rng.choice([0, 1, 1, 2, 3]))
            self.both_given_row(r, 5000, self.fixed_dec)
            if getattr(self, "unlabelled", False) and rng.random() < 0.4 and self.row_has_value(r):
                # a row given by its numbers alone (no key / code / reason): it still takes part in the arithmetic
                del r["reason"]
            rows.append(r)
        return rows

    @staticmethod
    def row_has_value(r):
        """some number of the row is not zero (a row of zeros without a label is legitimately dropped as empty)"""
        for k in ("percent", "amount", "rate"):
            if k in r and not (parse_pct(r[k]) if k == "percent" else parse(r[k])).iszero():
                return True
        return False

    def both_given_row(self, r, maxv, dec):
        """with `both_given`: a row defined by a percentage (or a rate) that ALSO carries an amount - as every row of an
        already calculated document does, and as a caller may supply; the amount is derived, whatever was there"""
        if getattr(self, "both_given", False) and "amount" not in r and ("percent" in r or "rate" in r) and self.rng.random() < 0.15:
            r["amount"] = self.amt(maxv, dec)

    def subline(self, tie):
        """one sub-line (member of a line's `breakdown` or `substituted`), priced in the document's currency"""
        rng = self.rng
        sl = {"quantity": self.amt(300, 2, True), "item": {"name": "s", "price": self.amt(20000, rng.choice([0, 2, 3, 4]), tie=tie)}}
        sd = self.ldc(False, tie)
        sc = self.ldc(True, tie)
        if sd:
            sl["discounts"] = sd
        if sc:
            sl["charges"] = sc
        return sl

    def doc(self, c03=False, force_rule=None, regimes=("ES", "ES", "ES", "EL", "PT"), max_lines=5, big=False):
        """c03: restrict to the hypothesis of C03 (fixed amounts supplied at the currency's precision)."""
        rng = self.rng
        self.c03 = c03
        cc = rng.choice(regimes)
        self.has_exempt = any("exempt" in (rd.get("keys") or [rd.get("key")]) for c_ in regime(cc)["categories"] for rd in c_.get("rates", []))
        curc = rng.choice(["EUR", "EUR", "EUR", "JPY", "KWD", "USD"])
        c = SUBUNITS[curc]
        self.c = c
        tie = rng.random() < 0.6
        self.fixed_dec = c if c03 else rng.choice([c, c, 2, 3, 4])
        taxid = {"ES": "B98602642", "EL": "728089281", "PT": "545259045"}[cc]
        doc = {"$schema": "https://gobl.org/draft-0/bill/invoice", "uuid": "3aea7b56-59d8-4beb-90bd-f8f280d852a0",
               "currency": curc, "issue_date": "2022-02-01", "code": "S-1",
               "supplier": {"tax_id": {"country": cc, "code": taxid}, "name": "P"},
               "customer": {"tax_id": {"country": "ES", "code": "54387763P"}, "name": "C"}}
        rule = force_rule or rng.choice([PRECISE, CURRENCY, None])
        doc["tax"] = {}
        if rule:
            doc["tax"]["rounding"] = rule
        pit_ok = cc in ("ES", "EL", "PT")
        if pit_ok and rng.random() < 0.3:
            doc["tax"]["prices_include"] = "VAT"
        if not doc["tax"]:
            del doc["tax"]
        doc["lines"] = []
        nl = rng.randint(1, max_lines) if not big else rng.randint(8, 40)
        for _ in range(nl):
            q = rng.choice(TIE_Q) if tie and rng.random() < 0.5 else self.amt(3000, 3, True)
            l = {"quantity": q, "item": {"name": "x", "price": self.amt(200000, rng.choice(getattr(self, "price_decimals", None) or [0, 1, 2, 2, 3, 4, 6]), tie=tie)},
                 "taxes": self.taxes(cc)}
            d = self.ldc(False, tie)
            ch = self.ldc(True, tie)
            if d:
                l["discounts"] = d
            if ch:
                l["charges"] = ch
            r = rng.random()
            other = "USD" if curc != "USD" else "GBP"
            if r < 0.12:
                l["item"]["currency"] = other
                doc["exchange_rates"] = [{"from": other, "to": curc, "amount": rng.choice(["0.875967", "149.31", "0.31", "1.1", "0.5", "1.25", "0.305"])}]
            elif r < 0.2:
                l["item"]["currency"] = other
                l["item"]["alt_prices"] = [{"currency": curc, "value": self.amt(90000, rng.choice([0, 1, 2, 3, 4]))}]
            elif r < 0.32:
                l["breakdown"] = []
                for _ in range(rng.randint(1, 3)):
                    l["breakdown"].append(self.subline(tie))
            if getattr(self, "sub_currency", False):
                # sub-lines are priced like lines: their items may be in another currency (converted through the document's
                # exchange rates or replaced by an alternative price), with fewer / as many / more decimals than the
                # document's currency; calculation REWRITES such an item (price, currency, alt_prices), so what it derives
                # from the sub-line items (the line's price and its precision) must not depend on whether it reads them
                # before or after that rewriting. The same for `substituted` sub-lines (calculated, not summed).
                if "breakdown" not in l and rng.random() < 0.06:
                    l["breakdown"] = [self.subline(tie) for _ in range(rng.randint(1, 3))]
                if rng.random() < 0.1:
                    l["substituted"] = [self.subline(tie) for _ in range(rng.randint(1, 2))]
                for sl in l.get("breakdown", []) + l.get("substituted", []):
                    k = rng.random()
                    if k < 0.3:
                        sl["item"]["currency"] = other
                        rate = rng.choice(["0.875967", "149.31", "0.31", "1.1", "0.5", "1.25", "0.305", "1", "0.01"])
                        doc.setdefault("exchange_rates", [{"from": other, "to": curc, "amount": rate}])
                    elif k < 0.5:
                        sl["item"]["currency"] = other
                        sl["item"]["alt_prices"] = [{"currency": curc, "value": self.amt(90000, rng.choice([0, 1, 2, 3, 4]))}]
                    elif k < 0.56:
                        sl["item"]["currency"] = curc          # the document's own currency, spelled out
                    if "currency" in sl["item"] and rng.random() < 0.5:
                        sl["item"]["price"] = self.amt(20000, rng.choice([c + 1, c + 2, 6, 3]), tie=tie)
            if not l["taxes"]:
                del l["taxes"]
            doc["lines"].append(l)

        def ddc():
            rows = []
            for _ in range(rng.choice([0, 0, 1, 2])):
                k = rng.randrange(3)
                r = {"reason": "d"}
                t = self.taxes(cc)
                if t:
                    r["taxes"] = t
                if k == 0:
                    r["percent"] = rng.choice(PCT)
                elif k == 1:
                    r["amount"] = self.amt(9000, self.fixed_dec, tie=tie)
                else:
                    r["percent"] = rng.choice(PCT)
                    r["base"] = self.amt(90000, rng.choice([2, 2, 3, 4]) if not c03 else c)
                self.both_given_row(r, 9000, self.fixed_dec)
                rows.append(r)
            return rows
        d, ch = ddc(), ddc()
        if d:
            doc["discounts"] = d
        if ch:
            doc["charges"] = ch
        if rng.random() < 0.12:
            # an externally supplied rounding adjustment (EN 16931 BT-114): at the currency's precision, with MORE
            # decimals than the currency (ties included: 0.005 is presented 0.01 and that is what payable adds -
            # findings/C03.json C03-supplied-rounding-extra-decimals), or with fewer ("1" is presented "1.00")
            k = rng.random()
            if k < 0.45:
                ra = A(rng.choice([1, -1, 2, 5, -3]), c)
            elif k < 0.9:
                ra = A(rng.choice([5, -5, 4, -4, 15, -25, 149, 995, -995, 1, 50, -49]), c + rng.choice([1, 1, 2]))
            else:
                ra = A(rng.choice([1, -1, 2]), max(c - rng.choice([1, 2]), 0))
            doc["totals"] = {"rounding": fmt(ra)}
        if rng.random() < 0.2:
            dd_rows = []
            for i in range(rng.randint(1, 3)):
                if rng.random() < 0.5:
                    dd_rows.append({"date": "2022-0%d-01" % (3 + i), "percent": rng.choice(PCT[:9])})
                    self.both_given_row(dd_rows[-1], 3000, c)
                else:
                    dd_rows.append({"date": "2022-0%d-01" % (3 + i), "amount": self.amt(3000, c if c03 else 3)})
            doc.setdefault("payment", {})["terms"] = {"key": "due-date", "due_dates": dd_rows}
        if rng.random() < 0.35:
            # 1-4 advance rows, fixed and percentage in any order (a fixed first row followed by percentage rows
            # exercises the precision of the running sum)
            rows = []
            for i in range(rng.randint(1, 4)):
                if rng.random() < 0.5:
                    rows.append({"description": "p%d" % i, "percent": rng.choice(PCT[:9] + ["2.5%", "12.5%", "0.5%"])})
                    self.both_given_row(rows[-1], 3000, c)
                else:
                    rows.append({"description": "f%d" % i, "amount": self.amt(3000, c if c03 else rng.choice([c, c, 2, 3]))})
            doc.setdefault("payment", {})["advances"] = rows
        if getattr(self, "doc_types", False):
            # orders and deliveries go through the same calculator behind their own accessors
            r = rng.random()
            if r < 0.12:
                doc["$schema"] = "https://gobl.org/draft-0/bill/order"
            elif r < 0.2:
                doc["$schema"] = "https://gobl.org/draft-0/bill/delivery"
                doc.pop("payment", None)          # a delivery has no payment details
        return doc


def in_domain(doc):
    """C05's magnitude guard: run the exact reading and look at the largest intermediate."""
    A.big = 0
    try:
        r = pcalc(doc)
    except ZeroDivisionError:
        return False, None
    return A.big < T52, r


# ---------------------------------------------------------------------------------------------
# shrinking and running
# ---------------------------------------------------------------------------------------------
def shrink_doc(doc, fails, budget=150):
    """Greedy delta-debugging over the document structure; `fails(doc) -> bool`."""
    import copy
    cur = copy.deepcopy(doc)
    n = 0

    def candidates(d):
        for i in range(len(d.get("lines", []))):
            if len(d["lines"]) > 1:
                yield ("del-line", i)
        for k in ("discounts", "charges", "payment", "exchange_rates"):
            if k in d:
                yield ("del", k)
        for i, l in enumerate(d.get("lines", [])):
            for k in ("discounts", "charges", "breakdown", "taxes"):
                if k in l:
                    yield ("del-l", i, k)
            if "currency" in l["item"] and not d.get("exchange_rates") is None:
                yield ("plain-item", i)
        if "tax" in d:
            for k in list(d["tax"].keys()):
                yield ("del-tax", k)

    def apply(d, c):
        d = copy.deepcopy(d)
        if c[0] == "del-line":
            del d["lines"][c[1]]
        elif c[0] == "del":
            del d[c[1]]
        elif c[0] == "del-l":
            del d["lines"][c[1]][c[2]]
        elif c[0] == "plain-item":
            it = d["lines"][c[1]]["item"]
            it.pop("currency", None)
            it.pop("alt_prices", None)
        elif c[0] == "del-tax":
            del d["tax"][c[1]]
            if not d["tax"]:
                del d["tax"]
        return d
    progress = True
    while progress and n < budget:
        progress = False
        for c in list(candidates(cur)):
            n += 1
            if n >= budget:
                break
            try:
                t = apply(cur, c)
                if fails(t):
                    cur = t
                    progress = True
                    break
            except Exception:
                continue
    return cur


def run3(docs, prefix="c01", op_="calc", go_lines=None):
    """Go, model and python oracle on the same documents. Returns list of dicts.
    go_lines: the requests to the implementation when they are not `op_` of the document itself (another entry
    point reaching the same state, e.g. a second in-memory calculation of the document's source)."""
    from vlib import run_go, run_oracle, parse_wire
    jl, wl, pr = [], [], []
    for d in docs:
        clear_resolved(d)
        jl.append(json_line(op_, d, prefix))
    go = run_go(jl if go_lines is None else go_lines)
    gos = []
    for d, g in zip(docs, go):
        gv = parse_wire(g)
        # the last element of a successful projection lists the percentages the library resolved
        if gv and gv[0] in (b"ok", b"nototals") and isinstance(gv[-1], list) and len(gv) >= 3:
            annotate_resolved(d, gv[-1])
            gv = gv[:-1]
            g = " ".join(w(x) for x in gv)
        gos.append((gv, g))
    for d in docs:
        ok, r = in_domain(d)
        pr.append((ok, r))
        try:
            wl.append(wire_line(op_, d, prefix))
        except (ValueError, KeyError):
            wl.append("%s %s ( )" % (prefix, op_))
    mo = run_oracle(wl)
    out = []
    for d, (ok, r), (gv, g), m in zip(docs, pr, gos, mo):
        pv = [[b"err", b"calc"]] if r == "calc-error" else r
        out.append({"doc": d, "in_domain": ok, "go": gv, "model": parse_wire(m), "py": pv, "go_raw": g, "model_raw": m})
    return out


def excess_fixed(doc, pyres):
    """True when a fixed (non-percentage, non-rate) discount / charge / advance amount carries more
    decimals than the precision it is presented with (line rows: the stored item price's; document rows
    and advances: the currency's). Presentation rounding of such an input feeds back into the next calculation."""
    cc, cur, c, rr, date = doc_meta(doc)
    def fixed(x):
        p = x.get("percent")
        return "amount" in x and (p is None or parse_pct(p).iszero()) and "rate" not in x
    try:
        lines = pyres[1][0] if pyres[0] == b"ok" else pyres[1]
    except Exception:
        lines = []
    for i, l in enumerate(doc["lines"]):
        e = lines[i][0][1] if i < len(lines) else c
        for k in ("discounts", "charges"):
            for x in l.get(k, []):
                if fixed(x) and parse(x["amount"]).e > e:
                    return True
    for k in ("discounts", "charges"):
        for x in doc.get(k, []):
            if fixed(x) and parse(x["amount"]).e > (c if "base" not in x else parse(x["base"]).e):
                return True
    for a in (doc.get("payment") or {}).get("advances", []):
        if "amount" in a and a.get("percent") is None and parse(a["amount"]).e > c:
            return True
    return False


def boundary_pair_docs(rng, n):
    """Documents built to sit just under a rounding boundary of a CATEGORY accumulation (EUR, 'precise' rule):
    two rows of one category with different rates, one priced with 2 decimals (its figures carry the working
    precision of 4), the other with 6; the exact sum of the two rate amounts (or of the two surcharges) ends in
    .xx496-.xx499 at the fifth and sixth decimal, and the six-decimal addend would round UP at four decimals.
    Accumulating at the coarser precision therefore presents one minor unit more than the exact sum.
    Each construction is returned in both row orders, as two lines and as a line plus a document charge."""
    from fractions import Fraction
    out = []
    tries = 0
    while len(out) < n and tries < n * 200:
        tries += 1
        kind = rng.choice(["amount", "surcharge", "surcharge"])
        if kind == "surcharge":
            (k1, p1), (k2, p2) = rng.sample([("standard+eqs", Fraction(52, 1000)), ("reduced+eqs", Fraction(14, 1000)), ("super-reduced+eqs", Fraction(5, 1000))], 2)
        else:
            (k1, p1), (k2, p2) = rng.sample([("standard", Fraction(21, 100)), ("reduced", Fraction(10, 100)), ("super-reduced", Fraction(4, 100))], 2)
        a = rng.randrange(100, 90000)                       # price of the coarse row, 2 decimals
        x1 = p1 * Fraction(a, 100)
        s1 = Fraction(rha((x1 * 10 ** 4).numerator, (x1 * 10 ** 4).denominator), 10 ** 4)
        tail = Fraction(rng.randrange(4960, 5000), 10 ** 6)   # wanted (s1 + s2) mod 0.01
        s2 = Fraction(rng.randrange(1, 3000), 100) + (tail - s1) % Fraction(1, 100)
        b = s2 / p2
        bv = rha((b * 10 ** 6).numerator, (b * 10 ** 6).denominator)
        x2 = p2 * Fraction(bv, 10 ** 6)
        if Fraction(rha((x2 * 10 ** 6).numerator, (x2 * 10 ** 6).denominator), 10 ** 6) != s2 or bv <= 0:
            continue
        rows = [({"quantity": "1", "item": {"name": "coarse", "price": fmt(A(a, 2))}, "taxes": [{"cat": "VAT", "rate": k1}]}),
                ({"quantity": "1", "item": {"name": "fine", "price": fmt(A(bv, 6))}, "taxes": [{"cat": "VAT", "rate": k2}]})]
        for order in (rows, rows[::-1]):
            out.append({"$schema": "https://gobl.org/draft-0/bill/invoice", "uuid": "3aea7b56-59d8-4beb-90bd-f8f280d852a0",
                        "currency": "EUR", "issue_date": "2022-02-01", "code": "S-1", "tax": {"rounding": PRECISE},
                        "supplier": {"tax_id": {"country": "ES", "code": "B98602642"}, "name": "P"},
                        "customer": {"tax_id": {"country": "ES", "code": "54387763P"}, "name": "C"},
                        "lines": [json.loads(json.dumps(r)) for r in order]})
    return out
