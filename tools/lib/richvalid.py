"""Repairs a rich synthetic document (harness/c14rich.go: every member of every registered type populated by reflection)
into one the library accepts, by member-name rules: formats (e-mail, E.164, what3words, mime), exclusive alternatives
(identity key XOR type, inbox code XOR url XOR email, attachment url XOR data), value sets (unit, note / payment keys),
and list-level rules (one combo per category, no tags of unknown addons, stamps only on signed envelopes).
The result is an ordinary input document: whether it IS valid is decided by the library, never assumed."""
import copy
import re


def _fix(x, name, parent_name):
    if isinstance(x, list):
        out = [_fix(v, name, parent_name) for v in x]
        if name == "taxes":
            seen, keep = set(), []
            for t in out:
                if isinstance(t, dict) and t.get("cat") not in seen:
                    seen.add(t.get("cat"))
                    keep.append(t)
            out = keep
        return out
    if not isinstance(x, dict):
        return x
    d = {k: _fix(v, k, name) for k, v in x.items()}
    if "w3w" in d:
        d["w3w"] = "filled.count.soap"
    if "addr" in d and name in ("emails",):
        d["addr"] = "billing@example.com"
    if name in ("identities", "identifier", "identity") and "key" in d and "type" in d:
        d.pop("type")
    if name in ("inboxes", "inbox"):
        for k in ("email", "url", "scheme"):
            d.pop(k, None)
        d.setdefault("code", "CODE1")
        if "key" in d:
            d["key"] = "peppol"
    if name in ("logos", "avatars", "images", "image", "logo"):
        d.update({"height": 64, "width": 64})
        if "url" in d:
            d.pop("data", None)
        if "mime" in d:
            d["mime"] = "image/png"
    if name in ("attachments",):
        d.pop("data", None)
        if "mime" in d:
            d["mime"] = "application/pdf"
    if name == "telephones" and "num" in d:
        d["num"] = "+34600000000"
    if "unit" in d and isinstance(d["unit"], str):
        d["unit"] = "h"
    if name == "notes" and "key" in d:
        d["key"] = "general"
    if name in ("instructions", "advances") and "key" in d:
        d["key"] = "credit-transfer"
    if name == "terms" and "key" in d:
        d["key"] = "due-date"
        if "due_dates" in d:
            for r in d["due_dates"]:
                r.pop("percent", None)
    if name == "taxes":
        for k in ("surcharge", "ext", "key", "country"):
            d.pop(k, None)
        if d.get("rate"):
            d.pop("percent", None)
    if name in ("charges", "discounts") and ("percent" in d or "base" in d):
        for k in ("quantity", "rate", "unit"):
            d.pop(k, None)
    if name == "tax_id" or (parent_name is None and set(d) >= {"country", "code"} and "zone" in d):
        d["code"] = "B98602642"
        d.pop("zone", None)
    if name == "head":
        d.pop("stamps", None)
    d.pop("$tags", None)
    if "$addons" in d:
        d["$addons"] = [a for a in d["$addons"] if not a.startswith("key-")]
    for k in ("ext",):
        if k in d and isinstance(d[k], dict) and name not in ("tax",):
            d.pop(k)
    return d


ROOT_AS = {"org/email": "emails", "org/identity": "identities", "org/image": "logos", "org/inbox": "inboxes", "org/note": "notes",
           "org/telephone": "telephones", "pay/advance": "advances", "pay/instructions": "instructions", "pay/terms": "terms",
           "org/attachment": "attachments", "head/header": "head"}


def make_valid(doc):
    sch = doc.get("$schema", "")
    short = sch.replace("https://gobl.org/draft-0/", "")
    d = _fix(copy.deepcopy(doc), ROOT_AS.get(short), None)
    if short in ("bill/order", "bill/delivery", "bill/payment"):
        d.pop("type", None)                 # the library's default type
    if short == "bill/payment" and isinstance(d.get("method"), dict):
        d["method"]["key"] = "credit-transfer"
    if short in ("bill/charge", "bill/discount", "bill/line"):
        for t in d.get("taxes", []):
            t.pop("rate", None)             # no regime around a bare row: percentages only
            t.setdefault("percent", "21.0%")
    if sch.endswith("bill/invoice") or sch.endswith("bill/order") or sch.endswith("bill/delivery") or sch.endswith("bill/payment"):
        d.pop("totals", None)
        d.pop("complements", None)
        if isinstance(d.get("tax"), dict):
            d["tax"].pop("ext", None)
            d["tax"].pop("prices_include", None)
    return d
