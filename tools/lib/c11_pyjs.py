#!/usr/bin/env python3-vt
"""Independent reading for C11: python jsonschema (draft 2020-12, FormatChecker enabled) over the
schema FILES of the repository, with a registry resolving the https://gobl.org/... ids to the files.
Run with python3-vt (the tooling venv has jsonschema 4.26 + referencing).

  c11_pyjs.py <repo> meta          -> one JSON line: {path: null | "metaschema error ..."} for every file
  c11_pyjs.py <repo> validate      -> stdin: JSON lines {"id": schema id, "doc": ...}
                                      stdout: JSON lines {"v": "valid"|"invalid"|"undetermined", "errors": [...]}
An error whose own keyword value is ill-typed (e.g. "enum": "advice") is marked malformed; a pair
whose only errors are of that kind is "undetermined" (the schema has no defined verdict)."""
import json
import os
import sys
import warnings

warnings.simplefilter("ignore")
from jsonschema import Draft202012Validator  # noqa: E402
from jsonschema.exceptions import SchemaError  # noqa: E402
from referencing import Registry, Resource  # noqa: E402
from referencing.jsonschema import DRAFT202012  # noqa: E402

SHAPE = {
    "enum": list, "required": list, "type": (str, list), "properties": dict, "patternProperties": dict,
    "items": (dict, bool), "additionalProperties": (dict, bool), "oneOf": list, "anyOf": list, "allOf": list,
    "pattern": str, "format": str, "minLength": int, "maxLength": int, "$ref": str,
}


def load(repo):
    root = os.path.join(repo, "data", "schemas")
    files = {}
    for dp, _, fs in os.walk(root):
        for f in fs:
            p = os.path.join(dp, f)
            files[os.path.relpath(p, root).replace(os.sep, "/")] = json.load(open(p))
    return files


def main():
    repo, mode = sys.argv[1], sys.argv[2]
    files = load(repo)
    if mode == "meta":
        res = {}
        for path, s in sorted(files.items()):
            try:
                Draft202012Validator.check_schema(s)
                res[path] = None
            except SchemaError as e:
                res[path] = {"message": e.message[:200], "path": [str(x) for x in e.absolute_path]}
        print(json.dumps(res))
        return
    reg = Registry().with_resources(
        [(s["$id"], Resource(contents=s, specification=DRAFT202012)) for s in files.values() if isinstance(s.get("$id"), str)])
    by_id = {s["$id"]: s for s in files.values() if isinstance(s.get("$id"), str)}
    cache = {}
    out = sys.stdout
    for line in sys.stdin:
        if not line.strip():
            continue
        req = json.loads(line)
        sid = req["id"]
        if sid not in by_id:
            out.write(json.dumps({"v": "unknown-schema", "errors": []}) + "\n")
            continue
        v = cache.get(sid)
        if v is None:
            v = cache[sid] = Draft202012Validator(by_id[sid], registry=reg, format_checker=Draft202012Validator.FORMAT_CHECKER)
        errs = []
        crashed = None
        try:
            for e in v.iter_errors(req["doc"]):
                want = SHAPE.get(e.validator)
                bad = want is not None and (not isinstance(e.validator_value, want) or isinstance(e.validator_value, bool) and want is int)
                d = {"kw": e.validator, "malformed": bad, "at": [str(x) for x in e.absolute_path],
                     "schema_path": [str(x) for x in e.absolute_schema_path][-6:], "msg": e.message[:160]}
                if e.instance is None or isinstance(e.instance, (str, bool, int, float)):
                    d["value"] = e.instance
                if isinstance(e.schema, dict) and isinstance(e.schema.get("pattern"), str):
                    d["leaf_pattern"] = e.schema["pattern"]
                if isinstance(e.validator_value, (str, int)) and not isinstance(e.validator_value, bool):
                    d["kw_value"] = e.validator_value
                errs.append(d)
                if len(errs) >= 40:
                    break
        except Exception as ex:  # an ill-typed keyword can make the library itself fail
            crashed = "%s: %s" % (type(ex).__name__, str(ex)[:160])
        real = [e for e in errs if not e["malformed"]]
        if real:
            verdict = "invalid"
        elif errs or crashed:
            verdict = "undetermined"
        else:
            verdict = "valid"
        r = {"v": verdict, "errors": errs}
        if crashed:
            r["crashed"] = crashed
        out.write(json.dumps(r) + "\n")
    out.flush()


if __name__ == "__main__":
    main()
