"""C10 - envelope lifecycle outcomes follow its abstract state over any history.

Tie: every history is run on the real library (harness/c10.go) and on the extracted model
(Env/Lifecycle.v, variant "repaired" = the code after fixes/*.diff); per step the outcome class
(ok / error key / panic) and len(sigs) must be equal.  Independently of the model, oracle P judges
the implementation's outputs against the clauses of the property statement with its own
bookkeeping (a dozen lines of Python below, class Track).

Streams: corpus (witnesses of the recorded defects, always run), exhaustive (all histories over
the 16-operation alphabet: length <= 4 on the valid-with-code document, <= 3 on the three other
documents and on the empty envelope; thorough: <= 6 / <= 4), random (length 7..30, all 32
operations including JSON surgery and direct edits), entry-points (the envelope a history ends in is
serialised and handed to every envelope-processing entry point of the program - build, sign,
validate over the binary, POST /bulk and POST /build of a loopback `gobl serve`, harness/c10ep.go;
the outcome must be that of the same steps done on the library, which is itself tied to the model,
and an envelope that comes back must obey the clauses of the statement)."""
import glob
import itertools
from vlib import *
from envops import *

TRUSTED = [
    "symbolic signatures: ES256 unforgeability and go-jose correctness are the shape of Env/Sig.v (Sig k h), not proved",
    "the document is abstract (calculates / validates / has a code / digest): the correspondence uses four fixed invoices",
    "outside the model: per-element validation of stamps and links, uuid version rules, link title/description/mime",
    "sha256 is treated as collision-free by the correspondence (the theorems assume nothing about the hash)",
]

FX_REPAIRED = 3      # bit 0 = fix9, bit 1 = fix10
F10 = "C10-10-empty-signature"
SURG10 = {EMPTYSIG, NULLSIG}
SURG11 = {NILHEAD, NILDIG, NULLLINK, NULLSTAMP}
TRACKABLE = {CALC, EDIT, SIGN, UNSIGN, STAMP, LINK, TAG, META, NOTES, VALIDATE, VERIFY, REPARSE, CODE, INSERT}
BASE_VALID = {0: True, 1: True, 2: False, 3: False, 4: True, 5: True, 6: True, 7: True}
BASE_CALC = {0: True, 1: True, 2: True, 3: False, 4: True, 5: True, 6: True, 7: True}
BASE_CODE = {0: True, 1: False, 2: True, 3: True, 4: True, 5: False, 6: True, 7: False}
BASE_DOC = {0: 0, 1: 0, 2: 2, 3: 3, 4: 4, 5: 4, 6: 6, 7: 6}     # 1 is 0 without its code; 4 / 5 an order, 6 / 7 a delivery


class Track:
    """P's own reading of a history: only what the property statement talks about."""

    def __init__(self, base):
        self.known = True          # False once an operation outside TRACKABLE was applied
        self.doc = None            # (base, edits, code) of the document in the envelope
        self.head = None           # the content whose digest the header carries
        self.stamps, self.links, self.meta, self.notes = {}, {}, {}, ""
        self.sigs = []             # (key, head content, stamps, links, meta, notes) per live signature
        self.nullsig = False       # "sigs":[null] was parsed at some point
        self.nilhead = False
        if base >= 0:
            self.insert(base)

    def insert(self, b):
        self.base = b
        self.doc = (BASE_DOC[b], 0, BASE_CODE[b])
        if BASE_CALC[b]:
            self.head = self.doc

    def valid_for_signing(self):
        return self.doc is not None and BASE_VALID[self.base] and self.doc[2]

    def digest_matches(self):
        return self.doc is not None and self.head == self.doc


def judge(base, ops, steps):
    """Clauses of the statement checked on the implementation's outputs.  Returns a list of
    (clause, step index, finding id or None)."""
    bad = []
    t = Track(base)
    seen10 = False
    prev_n = 0
    for i, (op, (out, n, real)) in enumerate(zip(ops, steps)):
        code = op[0]
        if code in SURG10 and out == "ok":
            seen10 = True
        if code == NULLSIG and out == "ok":
            t.nullsig = True
        if code == NILHEAD and out == "ok":
            t.nilhead = True
        if code not in TRACKABLE:
            t.known = False
        # ---- clauses that need no bookkeeping
        if out == "panic" and code in (VERIFY, VALIDATE, SIGN):
            bad.append(("%s never panics" % NAMES[code], i, None))
        if code == SIGN and out not in ("ok", "panic") and n != 0 and not t.nilhead:
            bad.append(("a failed signing leaves the envelope unsigned", i, None))
        if code == SIGN and out == "ok":
            if n != prev_n + 1:
                bad.append(("a successful Sign appends exactly one signature", i, None))
            if i + 1 < len(ops) and ops[i + 1][0] == VALIDATE and steps[i + 1][0] != "ok":
                bad.append(("an envelope that was just signed validates", i + 1, None))
        if real != n and not t.nullsig:
            bad.append(("every entry in the signature list is a real signature", i, F10 if seen10 else None))
        if code == VALIDATE and out == "ok" and real != n:
            bad.append(("a validated envelope holds only real signatures", i, F10 if seen10 else None))
        if code in (VALIDATE, VERIFY) and i > 0 and n != prev_n:
            bad.append(("Validate and Verify do not change the envelope", i, None))
        # ---- clauses over P's bookkeeping (histories of API operations only)
        if t.known:
            if code == SIGN and out == "ok" and not (t.valid_for_signing() and t.digest_matches()):
                bad.append(("only valid envelopes with a matching digest can be signed", i, None))
            if code == SIGN and out != "ok" and t.valid_for_signing() and t.digest_matches() and not t.nilhead:
                bad.append(("a valid envelope with a matching digest can be signed", i, None))
            if code == VALIDATE and out == "ok":
                if not t.digest_matches():
                    bad.append(("Validate succeeds only when the digest matches the document", i, None))
                if t.stamps and n == 0:
                    bad.append(("stamps are accepted only on signed envelopes", i, None))
            if code == VERIFY:
                should = bool(t.sigs) and all(
                    (len(op) == 1 or k in op[1:]) and h == t.head and all(t.stamps.get(p) == v for p, v in st.items())
                    and all(t.links.get(p) == v for p, v in ln.items()) and all(t.meta.get(p) == v for p, v in mt.items())
                    and (nt == "" or nt == t.notes) for (k, h, st, ln, mt, nt) in t.sigs)
                if out == "ok" and not should:
                    bad.append(("Verify succeeds only when every signed header is still contained and the key matches", i, None))
                if out != "ok" and should:
                    bad.append(("Verify succeeds when every signed header is still contained and the key matches", i, None))
        # ---- advance P's bookkeeping
        if code == INSERT and out in ("ok", "calculation") and not t.nilhead:
            t.insert(op[1])
        elif code == CALC and out == "ok":
            t.head = t.doc
            t.nilhead = False
        elif code == EDIT and out == "ok":
            t.doc = (t.doc[0], t.doc[1] + 1, t.doc[2])
        elif code == CODE and out == "ok":
            t.doc = (t.doc[0], t.doc[1], not t.doc[2])
        elif code == SIGN:
            if out == "ok":
                t.sigs.append((op[1], t.head, dict(t.stamps), dict(t.links), dict(t.meta), t.notes))
            elif out != "panic" and not t.nilhead:
                t.sigs = []
        elif code == UNSIGN:
            t.sigs = []
        elif code == STAMP and out == "ok":
            t.stamps[op[1]] = op[2]
        elif code == LINK and out == "ok":
            t.links[op[1]] = op[2]
        elif code == META and out == "ok":
            t.meta[op[1]] = op[2]
        elif code == NOTES and out == "ok":
            t.notes = op[1]
        prev_n = n
    return bad


# ----------------------------------------------------------------------------------------------

def rand_op(rng):
    r = rng.random()
    if r < 0.55:
        return rng.choice(ALPHA16)
    if r < 0.63:
        return rng.choice(SURGERY)
    c = rng.choice([INSERT, STAMP, LINK, TAG, META, NOTES, VERIFY, SETUUID, SETDIG, RMSTAMP, RAWSTAMP, RMLINK, RAWLINK,
                    RMTAG, RMMETA, RAWSIGN, SWAPSIGS, DUPSIG, DROPSIG, SIGN, CALC, VALIDATE])
    p, v, k, t, mk = (rng.choice(x) for x in (["p1", "p2"], ["v1", "v2"], ["l1", "l2"], ["t1", "t2"], ["m1", "m2"]))
    if c == INSERT:
        return (c, rng.choice([0, 1, 2, 3, 0, 1, 4, 5, 6, 7]))
    if c in (STAMP, RAWSTAMP):
        return (c, p, v)
    if c in (LINK, RAWLINK):
        return (c, k, rng.choice(["a", "b"]))
    if c in (TAG, RMTAG):
        return (c, t)
    if c == META:
        return (c, mk, v)
    if c == RMMETA:
        return (c, mk)
    if c == NOTES:
        return (c, rng.choice(["", "n1", "n2"]))
    if c == VERIFY:
        return (c,) + tuple(rng.sample([0, 1, 2], rng.randint(0, 2)))
    if c == SETUUID:
        return (c, rng.choice(["", "u0", "u1"]))
    if c == SETDIG:
        return (c, rng.choice(["sha256", "md5", ""]), rng.choice(["bogus", ""]))
    if c == RMSTAMP:
        return (c, p)
    if c == RMLINK:
        return (c, k)
    if c in (RAWSIGN, SIGN):
        return (c, rng.randint(0, 2))
    return (c,)


def rand_history(rng, api_only):
    n = rng.randint(7, 30)
    if api_only:
        pool = ALPHA16 + [(INSERT, b) for b in range(4)] + [(STAMP, "p2", "v1"), (META, "m1", "v1"), (NOTES, "n1"), (VERIFY, 0, 1), (VERIFY, 2)]
        return [rng.choice(pool) for _ in range(n)]
    return [rand_op(rng) for _ in range(n)]


def parse_case_line(l):
    """c10 wire line -> (fx, base, ops as tuples)"""
    vs = parse_wire(l)
    ops = []
    for o in vs[3]:
        if isinstance(o, list):
            ops.append(tuple(x.decode() if isinstance(x, bytes) else x for x in o))
        else:
            ops.append((o,))
    return vs[1], vs[2], ops


def load_corpus(cid):
    cases = []
    for f in sorted(glob.glob(os.path.join(VERIF, "corpus", cid, "*.case"))):
        for l in open(f):
            l = l.strip()
            if l.startswith(cid.lower() + " "):
                cases.append((os.path.basename(f), l))
    return cases


def classify(c, base, ops, g, alt):
    """The implementation differs from the repaired model on this history: is it the recorded
    defect (the as-shipped variant of exactly that function - fix10 switched off - reproduces the
    output and the history contains the surgery that reaches it)?"""
    codes = {o[0] for o in ops}
    if alt == g and codes & SURG10:
        return F10
    return None


def check_lines(c, stream, items, note_samples=True, count_distinct=True):
    """items: [(base, ops)].  Runs implementation and model, compares, judges."""
    if not items:
        return []
    lines = [c10_line(FX_REPAIRED, b, ops) for b, ops in items]
    go = run_go(lines, shards=16)
    mo = run_oracle(lines, shards=16)
    reported = 0
    # the as-shipped variant, in one batch, for the histories on which implementation and repaired model differ
    diff = [i for i in range(len(lines)) if go[i] != mo[i]]
    alt = {}
    if diff:
        outs = run_oracle([c10_line(FX_REPAIRED & ~2, *items[i]) for i in diff], shards=16)
        alt = {i: outs[j] for j, i in enumerate(diff)}
    for idx, ((base, ops), l, g, m) in enumerate(zip(items, lines, go, mo)):
        steps = parse_steps(g)
        if steps is None or len(steps) != len(ops):
            c.count(stream, 1)
            c.report("harness could not run the history: %s -> %s" % (l, g), {"case": l, "implementation": g}, no_input=True)
            continue
        nontrivial = any(s[0] != "skip" for s in steps)
        c.count(stream, 1, (base, tuple(ops)) if (nontrivial and count_distinct) else None)
        c.cov["steps"] = c.cov.get("steps", 0) + len(ops)
        viol = judge(base, ops, steps)
        for clause, i, fid in viol:
            what = "%s: violated at step %d (%s -> %s, %d signatures) of history [%s] on base document %d" % (
                clause, i + 1, show_op(ops[i]), steps[i][0], steps[i][1], show(ops[:i + 1]), base)
            if fid is None and reported >= 30:
                continue
            reported += 0 if fid else 1
            c.report(what, {"case": c10_line(FX_REPAIRED, base, ops[:i + 1]), "clause": clause, "step": i + 1,
                            "implementation": [list(s) for s in steps[:i + 1]],
                            "history": [show_op(o) for o in ops[:i + 1]],
                            "rerun": "tools/check C10 --replay <this file>"}, finding_id=fid)
        if g != m:
            msteps = parse_steps(m) or []
            i = next((j for j in range(min(len(steps), len(msteps))) if steps[j] != msteps[j]), 0)
            fid = classify(c, base, ops, g, alt[idx])
            what = "implementation and model differ at step %d (%s): implementation %s, model %s; history [%s] on base document %d" % (
                i + 1, show_op(ops[i]), steps[i], msteps[i] if i < len(msteps) else None, show(ops[:i + 1]), base)
            if fid is None and reported >= 30:
                continue
            reported += 0 if fid else 1
            c.report(what, {"case": c10_line(FX_REPAIRED, base, ops[:i + 1]), "implementation": g, "model": m,
                            "history": [show_op(o) for o in ops[:i + 1]],
                            "rerun": "tools/check C10 --replay <this file>"}, finding_id=fid)
    if note_samples:
        b, ops = items[len(items) // 2]
        c.sample({"stream": stream, "base": b, "history": show(ops), "implementation": [list(s) for s in parse_steps(go[len(items) // 2])]})
    return go

# ----------------------------------------------------------------------------------------------
# entry points: what the program does with the envelope a history ends in
# ----------------------------------------------------------------------------------------------

# what each entry point of internal/cli does, said with operations of the envelope API (and of the model)
def ep_tail(entry, key):
    return {"build": [(REPARSE,), (UNSIGN,), (CALC,), (VALIDATE,)],
            "sign": [(REPARSE,), (CALC,), (SIGN, key)],
            "validate": [(REPARSE,), (VALIDATE,)]}[entry]


EP_ENTRIES = ("build", "sign", "validate")
EP_SAYS = {"build": "parse ; unsign ; calculate ; validate", "sign": "parse ; calculate ; sign", "validate": "parse ; validate"}
# operations of ALPHA16 that change the envelope (validate, verify and reparse only look at it)
MUT11 = [o for o in ALPHA16 if o[0] not in (VALIDATE, VERIFY, REPARSE)]


def c10ep_line(fx, base, ops, key, paths):
    return "c10ep %d %d %s %d %d" % (fx, base, wops(ops), key, paths)


def parse_ep(line):
    """output of c10ep -> (steps, marshal outcome, gobl.Parse outcome, [(entry, path, outcome, nsigs, nreal, nstamps, revalidate)])"""
    vs = parse_wire(line)
    if len(vs) != 4 or not isinstance(vs[0], list) or not isinstance(vs[3], list):
        return None
    d = lambda x: x.decode() if isinstance(x, bytes) else x
    return [(d(x[0]), x[1], x[2]) for x in vs[0]], d(vs[1]), d(vs[2]), [tuple(d(y) for y in r) for r in vs[3]]


def ep_reference(tail_steps, parsed="ok"):
    """the sequential reading: first outcome of the tail that is not ok (else ok), len(sigs) at the end.  The reading step
    of the entry points is gobl.Parse, which refuses some JSON that json.Unmarshal into an Envelope (reparse) takes:
    its outcome on the library (parsed) comes first."""
    out = next((s[0] for s in tail_steps if s[0] != "ok"), "ok") if parsed == "ok" else parsed
    return out, tail_steps[-1][1]


def judge_ep(results, refs):
    """Clauses of the statement on what the entry points answered.  refs: entry -> (outcome, nsigs) of the same steps
    on the library.  Returns [(clause, result)]."""
    bad = []
    for r in results:
        entry, path, out, n, real, stamps, reval = r
        if out == "skip":
            continue
        if out == "panic":
            bad.append(("%s never panics" % entry, r))
            continue
        if out == "ok" and entry != "validate":
            if n < 0:
                bad.append(("a successful %s hands back an envelope" % entry, r))
                continue
            if stamps > 0 and n == 0:
                bad.append(("stamps are accepted only on signed envelopes", r))
            if real != n:
                bad.append(("every entry in the signature list is a real signature", r))
            if reval != "ok":
                bad.append(("the outcome is determined by the state of the envelope: what a successful %s hands back validates" % entry, r))
        ref_out, ref_n = refs[entry]
        if ref_out in ("panic", "skip", "marshal"):
            continue
        same = (out == ref_out) if path != "http" else ((out == "ok") == (ref_out == "ok"))
        if same and out == "ok" and entry != "validate":
            same = n == ref_n
        if not same:
            bad.append(("the outcome of each step is determined by the state of the envelope: %s answers as the same steps "
                        "on the library (%s -> %s, %d signatures)" % (entry, EP_SAYS[entry], ref_out, ref_n), r))
    return bad


def par_go(lines, n=16):
    """these lines are expensive (HTTP requests, process spawns): n harness processes, each with its own loopback server"""
    from concurrent.futures import ThreadPoolExecutor
    if len(lines) < 2 * n:
        return run_go(lines, shards=1)
    chunks = [lines[i::n] for i in range(n)]
    with ThreadPoolExecutor(len(chunks)) as ex:
        res = list(ex.map(lambda ch: run_go(ch, shards=1), chunks))
    out = [None] * len(lines)
    for i, r in enumerate(res):
        out[i::n] = r
    return out


def check_entry_points(c, stream, items, cli_every):
    """items: [(base, ops)].  Every envelope goes to bulk and HTTP; every cli_every-th one also to the binary."""
    if not items:
        return
    keys = [i % 3 for i in range(len(items))]
    paths = [7 if (cli_every and i % cli_every == 0) else 6 for i in range(len(items))]
    lines = [c10ep_line(FX_REPAIRED, b, ops, k, p) for (b, ops), k, p in zip(items, keys, paths)]
    go = par_go(lines)
    # the same steps on the library and on the model (ordinary histories: compared and judged as such)
    tails = [(b, list(ops) + ep_tail(e, k)) for (b, ops), k in zip(items, keys) for e in EP_ENTRIES]
    tgo = check_lines(c, stream + "-reference", tails, note_samples=False)
    verd = c.cov.setdefault("entry_point_verdicts", {})
    reported = 0
    for idx, ((base, ops), k, l, g) in enumerate(zip(items, keys, lines, go)):
        pr = parse_ep(g)
        if pr is None or len(pr[0]) != len(ops):
            c.count(stream, 1)
            c.report("harness could not run the case: %s -> %s" % (l, g), {"case": l, "implementation": g}, no_input=True)
            continue
        steps, merr, perr, results = pr
        c.count(stream, 1, (base, tuple(ops)) if results else None)
        if merr != "ok":
            continue        # the envelope does not serialise: nothing to hand over
        refs = {}
        for j, e in enumerate(EP_ENTRIES):
            ts = parse_steps(tgo[3 * idx + j]) or []
            nt = len(ep_tail(e, k))
            refs[e] = ep_reference(ts[-nt:], perr) if len(ts) == len(ops) + nt else ("skip", 0)
        for r in results:
            key = "%s/%s" % (r[0], r[1])
            verd[key] = verd.get(key, 0) + (r[2] != "skip")
        for clause, r in judge_ep(results, refs):
            if reported >= 20:
                break
            reported += 1
            entry, path, out, n, real, stamps, reval = r
            what = ("%s: violated by %s over %s (-> %s%s) of the envelope that history [%s] on base document %d ends in (%d signatures)" % (
                clause, entry, path, out,
                "" if n < 0 else ", envelope handed back: %d signatures, %d real, %d stamps, Validate -> %s" % (n, real, stamps, reval),
                show(ops), base, steps[-1][1] if steps else 0))
            c.report(what, {"case": c10ep_line(FX_REPAIRED, base, ops, k, 7 if path == "cli" else 6), "clause": clause,
                            "entry_point": entry, "path": path, "implementation": list(r),
                            "library_reference": {e: list(v) for e, v in refs.items()},
                            "history": [show_op(o) for o in ops],
                            "rerun": "tools/check C10 --replay <this file>"})
    if items:
        i = len(items) // 2
        pr = parse_ep(go[i])
        c.sample({"stream": stream, "base": items[i][0], "history": show(items[i][1]), "entry_points": [list(r) for r in (pr[3] if pr else [])]}, limit=8)


def run_entry_points(c, quick, corpus, random_items):
    import vlib
    tmp = os.path.join(WORK, "c10tmp.%d" % os.getpid())
    os.makedirs(tmp, exist_ok=True)
    vlib.GOENV["TMPDIR"] = tmp
    vlib.GOENV["VERIF_GOBL_BIN"] = os.path.join(BIN, "gobl")
    try:
        info = parse_wire(run_go(["c09info"], shards=1)[0])[0]
        have_cli, have_serve = bool(info[0]), bool(info[1])
        c.cov["entry_points"] = {"cli_binary": have_cli, "loopback_serve(bulk,http)": have_serve,
                                 "note": "" if have_serve else "gobl serve could not bind a loopback port (%s): command line only" % info[2].decode()}
        if not have_cli:
            c.report("bin/gobl is missing: the entry points of the program cannot be observed", {"machinery": "bin/gobl"}, no_input=True)
            return
        # corpus histories and all their prefixes, every one also over the binary
        seen, cases = set(), []
        for _, l in corpus:
            _, base, ops = parse_case_line(l)
            for i in range(len(ops) + 1):
                if (base, tuple(ops[:i])) not in seen:
                    seen.add((base, tuple(ops[:i])))
                    cases.append((base, ops[:i]))
        check_entry_points(c, "entry-points-corpus", cases, cli_every=1)
        # every envelope reachable by at most d operations that change it (11 of the 16-operation alphabet)
        d0, d1 = (3, 2) if quick else (4, 3)
        cases = []
        for base, depth in ((0, d0), (1, d0), (2, d1), (3, d1), (-1, d1), (4, d1), (5, d1), (6, d1), (7, d1)):
            for n in range(depth + 1):
                cases += [(base, list(seq)) for seq in itertools.product(MUT11, repeat=n)]
        check_entry_points(c, "entry-points-exhaustive", cases, cli_every=(23 if quick else 11))
        c.cov["entry_points_scope"] = ("every envelope reached by <= %d (valid invoice with and without code) / <= %d (other documents, empty envelope) operations "
                                       "out of the 11 of the 16-operation alphabet that change the envelope, handed to build / sign / validate over "
                                       "POST /bulk and POST /build (all) and over the binary (a fixed fraction); plus the ends of random histories" % (d0, d1))
        rn = 600 if quick else 20000
        check_entry_points(c, "entry-points-random", random_items[:rn], cli_every=(12 if quick else 6))
    finally:
        sh("rm -rf " + tmp)


def run(c):
    quick = c.tier == "quick"
    if not std_builds(c, cli=True):
        return
    proved = c.prove()
    ok, out = build_oracle()
    if not ok:
        c.report("extraction/oracle build failed: " + out[-800:], {"machinery": "oracle"}, no_input=True)
        return
    # 0. direct probe (implementation only; the operation is outside the modelled alphabet): an empty signature OBJECT
    # appended through the Go API must not validate ("every entry in the signature list is a real signature")
    EMPTYOBJ = 38
    for base in range(4):
        for pre in ([(CALC,)], [(CALC,), (SIGN, 0)], []):
            ops = pre + [(EMPTYOBJ,), (VALIDATE,)]
            l = c10_line(FX_REPAIRED, base, ops)
            steps = parse_steps(run_go([l], shards=1)[0]) or []
            c.count("empty-signature-object", 1, l)
            if steps and steps[-1][0] == "ok":
                c.report("an envelope whose signature list holds an empty signature object validates (history %s on base document %d)" % (show(ops), base),
                         {"case": l, "clause": "every entry in the signature list is a real signature", "implementation": steps})
                break
    # 1. corpus
    corpus = load_corpus("C10")
    check_lines(c, "corpus", [(parse_case_line(l)[1], parse_case_line(l)[2]) for _, l in corpus])
    # 2. exhaustive enumeration; a history of length n contains all its prefixes
    d0, d1 = (4, 3) if quick else (5, 4)
    for base, depth in ((0, d0), (1, d1), (2, d1), (3, d1), (-1, d1), (4, d1), (5, d1), (6, d1), (7, d1)):
        for pre in itertools.product(ALPHA16, repeat=max(0, depth - 4)):
            check_lines(c, "exhaustive", [(base, list(pre + seq)) for seq in itertools.product(ALPHA16, repeat=min(4, depth))],
                        note_samples=(pre in ((), (ALPHA16[2],))))
    c.cov["exhaustive_stream_complete"] = True
    c.cov["exhaustive_scope"] = ("all histories over the 16-operation alphabet: length <= %d on the valid-with-code document, <= %d on the "
                                 "valid-without-code, invalid, non-calculable documents and on the empty envelope" % (d0, d1))
    if not quick:
        # length 6 on the main document: everything with VERIF_C10_FULL6=1 (16.7 M histories, about an hour on 16 cores),
        # otherwise the sixteenth that starts with a seed-chosen operation
        # (a first operation that is read-only or unsigns the fresh envelope adds nothing to the complete length-5 enumeration)
        firsts = ALPHA16 if os.environ.get("VERIF_C10_FULL6") else [c.rng.choice([o for o in ALPHA16 if o[0] not in (UNSIGN, VALIDATE, VERIFY)])]
        for f in firsts:
            for mid in ALPHA16:
                check_lines(c, "length-6", [(0, [f, mid] + list(seq)) for seq in itertools.product(ALPHA16, repeat=4)], note_samples=False,
                            count_distinct=not os.environ.get("VERIF_C10_FULL6"))   # 16.7 M keys would not fit: counted conservatively
        c.cov["length_6_scope"] = "histories of length 6 on the valid-with-code document starting with: " + ", ".join(show_op(f) for f in firsts)
    # 3. random histories
    n = 6000 if quick else 120000
    items = [(c.rng.choice([0, 0, 1, 2, 3, -1]), rand_history(c.rng, api_only=(i % 3 == 0))) for i in range(n)]
    check_lines(c, "random", items)
    # 3b. entry points of the program on the envelopes that histories end in
    run_entry_points(c, quick, corpus, items)
    c.cov["rule"] = ("one evaluation = one history run step by step on the real library and on the extracted model (outcome class and "
                     "len(sigs) per step compared) and judged by the property's clauses; exhaustive = every sequence over the "
                     "16-operation alphabet to the stated length (prefixes are contained in the longer histories); random = length "
                     "7..30 over 32 operations incl. JSON surgery; distinct = distinct (base document, history); non-trivial = at "
                     "least one step is not 'skip'; entry-points = one envelope (the end of a history) serialised and handed to build, sign and "
                     "validate over /bulk and /build of a loopback server, a fixed fraction also over the binary (entry_point_verdicts counts "
                     "the answers per entry point and path), each answer compared with the same steps on the library (the -reference streams, "
                     "themselves compared with the model) and judged by the clauses; distinct = distinct (base, history) that serialises")
    # 4. extraction cross-check inside Coq
    samp = [c10_line(FX_REPAIRED, b, ops) for b, ops in items[:: max(1, len(items) // 150)]][:150]
    samp += [l for _, l in corpus][:50]
    try:
        inq = coq_eval(samp)
        mo_s = run_oracle(samp, shards=1)
        bad = [(l, a, b) for l, a, b in zip(samp, inq, mo_s) if a != b]
        c.cov["vm_compute_crosscheck"] = {"cases": len(samp), "differences": len(bad)}
        if bad:
            c.report("extracted model disagrees with vm_compute: %r" % (bad[0],), {"machinery": bad[0]}, no_input=True)
    except Exception as e:
        c.report("vm_compute cross-check failed: %r" % e, {"machinery": repr(e)}, no_input=True)
    if not proved:
        pr = c.proof
        c.report("proof obligations of Props/C10.v no longer check: " + (pr.get("make_log") or pr.get("log", ""))[-600:],
                 {"theorem": "rocq/Props/C10.v", "failed_files": pr.get("failed_files"), "forbidden": pr.get("forbidden")},
                 no_input=True)


def replay(path):
    r = json.load(open(path))["replay"]
    l = r["case"]
    build_harness()
    if l.startswith("c10ep "):
        return replay_ep(l)
    fx, base, ops = parse_case_line(l)
    g = run_go([l], shards=1)[0]
    m = run_oracle([l], shards=1)[0]
    print("history on base document %d: %s" % (base, show(ops)))
    print("implementation:", parse_steps(g))
    print("model (repaired):", parse_steps(m))
    for clause, i, fid in judge(base, ops, parse_steps(g)):
        print("clause violated at step %d: %s%s" % (i + 1, clause, " [known: %s]" % fid if fid else ""))
    return 0



def replay_ep(l):
    import vlib
    build_cli()
    vlib.GOENV["VERIF_GOBL_BIN"] = os.path.join(BIN, "gobl")
    vs = parse_wire(l)
    key = vs[-2]
    _, base, ops = parse_case_line("c10 " + l.split(" ", 1)[1].rsplit(" ", 2)[0])
    steps, merr, perr, results = parse_ep(run_go([l], shards=1)[0])
    print("history on base document %d: %s" % (base, show(ops)))
    print("library, step by step:", steps, "serialises:", merr, "gobl.Parse of that:", perr)
    refs = {}
    for e in EP_ENTRIES:
        tl = c10_line(FX_REPAIRED, base, list(ops) + ep_tail(e, key))
        ts, ms = parse_steps(run_go([tl], shards=1)[0]), parse_steps(run_oracle([tl], shards=1)[0])
        nt = len(ep_tail(e, key))
        refs[e] = ep_reference(ts[-nt:], perr)
        print("%s = %s on the library: %s   model (repaired): %s" % (e, EP_SAYS[e], ts[-nt:], ms[-nt:] if ms else None))
    for r in results:
        print("entry point %s over %s -> %s; envelope handed back: sigs=%s real=%s stamps=%s Validate -> %s" % r)
    for clause, r in judge_ep(results, refs):
        print("clause violated by %s over %s: %s" % (r[0], r[1], clause))
    return 0
