"""C19 - published definition files are what the code defines, and are coherent.

proof   rocq/Props/C19.v over generated data: published_equals_in_code (decidable equality of the structural
        content by vm_compute + soundness), published_only_defined_partial, all_definitions_coherent,
        tags_defined_and_unique_partial (boolean checkers + soundness lemmas)
tie     translator (Gen/Regimes.v, Addons.v, Catalogues.v, Currencies.v from the linked code; Gen/Published.v
        from data/*.json by the same rendering routine); `vharness c19gen`: the repository's own generators run
        in a scratch copy and byte-compared with data/** ; RegimeDef.Validate / AddonDef.Validate /
        time.LoadLocation on every definition; `gobl serve` /bulk regime and schema answers compared with the files.
P       (python, independent of the model) deep JSON comparison of every registered definition (marshalled as
        the generators do) with its published file; orphan files; reference search (currency, extension keys
        and codes, tags, addon keys, invoice types, uniqueness) over the definitions.  The model's own report
        (`c19 report` on the extracted checkers) must name the same definitions.
"""
import glob
import json
import os
import shutil
import socket
import subprocess
import tempfile
import time
import urllib.request

from vlib import *

LEVEL = "proof"
TRUSTED = ["the structural projection of harness/gen_regimes.go (texts, sources, meta are compared by bytes only, by c19gen)",
           "time zone database of the machine (time.LoadLocation)"]
F_GR = "C19-stale-gr-json"
F_IN = "C19-in-scenario-tags-undefined"
F_SDI = "C19-it-sdi-duplicate-tag"
INVOICE_TYPES = {"standard", "proforma", "corrective", "credit-note", "debit-note", "other"}
KINDS = ("regimes", "addons", "catalogues")


def L(d, k):
    return (d.get(k) if isinstance(d, dict) else None) or []


def load_published(repo):
    out = {}
    for kind in KINDS:
        out[kind] = {}
        for f in sorted(glob.glob(os.path.join(repo, "data", kind, "*.json"))):
            out[kind][os.path.basename(f)[:-5]] = json.load(open(f))
    return out


def load_in_code():
    p = subprocess.run([os.path.join(BIN, "vharness"), "c19dump"], stdout=subprocess.PIPE, env=GOENV, timeout=120)
    if p.returncode != 0:
        raise RuntimeError("vharness c19dump failed")
    return json.loads(p.stdout)


def first_diff(a, b, path=""):
    """first differing JSON path between two values, or None"""
    if type(a) != type(b):
        return (path or "/", a, b)
    if isinstance(a, dict):
        for k in sorted(set(a) | set(b)):
            if k not in a:
                return (path + "/" + k, "<absent>", b[k])
            if k not in b:
                return (path + "/" + k, a[k], "<absent>")
            d = first_diff(a[k], b[k], path + "/" + k)
            if d:
                return d
        return None
    if isinstance(a, list):
        for i in range(max(len(a), len(b))):
            if i >= len(a):
                return ("%s/%d" % (path, i), "<absent>", b[i])
            if i >= len(b):
                return ("%s/%d" % (path, i), a[i], "<absent>")
            d = first_diff(a[i], b[i], "%s/%d" % (path, i))
            if d:
                return d
        return None
    return None if a == b else (path or "/", a, b)


def short(x, n=120):
    s = json.dumps(x, ensure_ascii=False) if not isinstance(x, str) else x
    return s if len(s) <= n else s[:n] + "..."


# ----------------------------------------------------------------------------------------------
# reference search over the definitions (P for the coherence half)
# ----------------------------------------------------------------------------------------------

def coherence_issues(code, currencies, c=None):
    """-> list of (kind, name, clause, text, finding_id). Also counts every reference looked at."""
    issues = []
    nrefs = [0]

    def ref(stream, key):
        nrefs[0] += 1
        if c is not None:
            c.count(stream, 1, key)

    ext_defs = {}
    ext_dups = []
    for kind in KINDS:
        for n, d in sorted(code[kind].items()):
            for e in L(d, "extensions"):
                if e.get("key") in ext_defs:
                    ext_dups.append((e.get("key"), n))
                ext_defs.setdefault(e.get("key"), e)
    for k, n in ext_dups:
        issues.append(("world", "world", "ext keys unique", "extension key %s defined twice (again in %s)" % (k, n), None))
    for kind, keyf in (("regimes", "country"), ("addons", "key"), ("catalogues", "key")):
        ks = [d.get(keyf) for d in code[kind].values()]
        for k in sorted(set(x for x in ks if ks.count(x) > 1)):
            issues.append(("world", "world", "unique", "%s %s registered twice" % (kind, k), None))
    for k, e in sorted(ext_defs.items()):
        vs = [(v.get("key", ""), v.get("code", "")) for v in L(e, "values")]
        for v in sorted(set(x for x in vs if vs.count(x) > 1)):
            issues.append(("world", "world", "ext values unique", "extension %s lists value %s twice" % (k, v), None))

    def pair_ok(k, code_):
        e = ext_defs.get(k)
        if e is None:
            return False
        vals = L(e, "values")
        return not vals or code_ in [v.get("code", "") for v in vals]

    def tags_for(d, schema):
        return [t.get("key") for ts in L(d, "tags") if ts.get("schema") == schema for t in L(ts, "list")]

    regime_tags = {}
    for n, d in code["regimes"].items():
        for ts in L(d, "tags"):
            regime_tags.setdefault(ts.get("schema"), set()).update(t.get("key") for t in L(ts, "list"))

    def common(kind, n, d, own_scenario_tags_only):
        schemas = [ts.get("schema") for ts in L(d, "tags")]
        for s in sorted(set(x for x in schemas if schemas.count(x) > 1)):
            issues.append((kind, n, 101, "tag set for schema %s listed twice" % s, None))
        for ts in L(d, "tags"):
            ks = [t.get("key") for t in L(ts, "list")]
            for k in ks:
                ref("tag-keys", (kind, n, ts.get("schema"), k))
            for k in sorted(set(x for x in ks if ks.count(x) > 1)):
                issues.append((kind, n, 101, "tag key %s listed %d times in the %s tag set" % (k, ks.count(k), ts.get("schema")),
                               F_SDI if (kind, n, k) == ("addons", "it-sdi-v1", "b2g") else None))
        for ss in L(d, "scenarios"):
            own = set(tags_for(d, ss.get("schema")))
            for i, sc in enumerate(L(ss, "list")):
                where = "scenario #%d of %s" % (i, ss.get("schema"))
                for t in L(sc, "tags"):
                    ref("scenario-tags", (kind, n, where, t))
                    ok = t in own or (not own_scenario_tags_only and t in regime_tags.get(ss.get("schema"), ()))
                    if not ok:
                        fid = F_IN if (kind, n) == ("regimes", "in") and t in ("reverse-charge", "simplified") and not L(d, "tags") else None
                        issues.append((kind, n, 100 if kind == "regimes" else 3,
                                       "%s filters on tag %s which %s" % (where, t, "the regime does not offer (its tag list: %s)" % sorted(own) if own_scenario_tags_only else "neither the addon nor any regime offers"), fid))
                for ty in L(sc, "type"):
                    ref("types", (kind, n, where, ty))
                    if ty not in INVOICE_TYPES:
                        issues.append((kind, n, 7 if kind == "regimes" else 4, "%s: type %s is not an invoice type" % (where, ty), None))
                pairs = list((sc.get("ext") or {}).items()) + list(((sc.get("note") or {}).get("ext") or {}).items())
                if sc.get("ext_key"):
                    ref("ext-keys", (kind, n, where, sc["ext_key"]))
                    if sc["ext_key"] not in ext_defs:
                        issues.append((kind, n, 2 if kind == "regimes" else 1, "%s: ext_key %s is not a defined extension" % (where, sc["ext_key"]), None))
                    if sc.get("ext_code"):
                        pairs.append((sc["ext_key"], sc["ext_code"]))
                for k, v in pairs:
                    ref("ext-pairs", (kind, n, where, k, v))
                    if k not in ext_defs:
                        issues.append((kind, n, 2 if kind == "regimes" else 1, "%s: extension %s is not defined" % (where, k), None))
                    elif not pair_ok(k, v):
                        issues.append((kind, n, 3 if kind == "regimes" else 2, "%s: %s is not a code of extension %s" % (where, v, k), None))
        for co in L(d, "corrections"):
            for ty in L(co, "types"):
                ref("types", (kind, n, "correction", ty))
                if ty not in INVOICE_TYPES:
                    issues.append((kind, n, 7 if kind == "regimes" else 4, "correction type %s is not an invoice type" % ty, None))
            for k in L(co, "extensions"):
                ref("ext-keys", (kind, n, "correction", k))
                if k not in ext_defs:
                    issues.append((kind, n, 2 if kind == "regimes" else 1, "correction extension %s is not defined" % k, None))
            for s in L(co, "stamps"):
                ref("stamps", (kind, n, s))
                if not s:
                    issues.append((kind, n, 8 if kind == "regimes" else 5, "empty stamp key in a correction definition", None))

    # identity / payment-means / inbox definitions: the keys given are pairwise distinct (clause 10 of a regime, 6 of an addon)
    for kind, members, idx in (("regimes", ("identities", "payment_means", "inboxes"), 10), ("addons", ("identities", "inboxes"), 6)):
        for n, d in sorted(code[kind].items()):
            for mem in members:
                ks = [x.get("key") for x in L(d, mem) if x.get("key")]
                for k in ks:
                    ref("definition-keys", (kind, n, mem, k))
                for k in sorted(set(x for x in ks if ks.count(x) > 1)):
                    issues.append((kind, n, idx, "%s key %s defined %d times" % (mem, k, ks.count(k)), None))
    for n, d in sorted(code["regimes"].items()):
        ref("currency", (n, d.get("currency")))
        if d.get("currency") not in currencies:
            issues.append(("regimes", n, 0, "currency %s is not a defined currency" % d.get("currency"), None))
        own_ext = {e.get("key") for e in L(d, "extensions")}
        all_tags = {t.get("key") for ts in L(d, "tags") for t in L(ts, "list")}
        cc = [x.get("code") for x in L(d, "categories")]
        for k in sorted(set(x for x in cc if cc.count(x) > 1)):
            issues.append(("regimes", n, 4, "category %s defined twice" % k, None))
        for cat in L(d, "categories"):
            for k in L(cat, "extensions"):
                ref("ext-keys", (n, cat.get("code"), "extensions", k))
                if k not in own_ext:
                    issues.append(("regimes", n, 1, "category %s lists extension %s which the regime does not define" % (cat.get("code"), k), None))
            rk = [r.get("key") for r in L(cat, "rates")]
            for k in rk:
                ref("rate-keys", (n, cat.get("code"), k))
            for k in sorted(set(x for x in rk if rk.count(x) > 1)):
                issues.append(("regimes", n, 5, "rate key %s defined twice in category %s" % (k, cat.get("code")), None))
            pairs = [("category %s ext" % cat.get("code"), k, v) for k, v in (cat.get("ext") or {}).items()]
            for r in L(cat, "rates"):
                if r.get("exempt") and L(r, "values"):
                    issues.append(("regimes", n, 9, "exempt rate %s %s carries values" % (cat.get("code"), r.get("key")), None))
                pairs += [("rate %s %s ext" % (cat.get("code"), r.get("key")), k, v) for k, v in (r.get("ext") or {}).items()]
                for v in L(r, "values"):
                    for k, cd in (v.get("ext") or {}).items():
                        ref("ext-keys", (n, cat.get("code"), r.get("key"), "value filter", k))
                        if k not in own_ext:
                            issues.append(("regimes", n, 1, "value of %s %s filters on extension %s which the regime does not define" % (cat.get("code"), r.get("key"), k), None))
                        pairs.append(("value filter of %s %s" % (cat.get("code"), r.get("key")), k, cd))
                    for t in L(v, "tags"):
                        ref("value-tags", (n, cat.get("code"), r.get("key"), t))
                        if t not in all_tags:
                            issues.append(("regimes", n, 6, "value of %s %s filters on tag %s which the regime does not offer" % (cat.get("code"), r.get("key"), t), None))
            for where, k, v in pairs:
                ref("ext-pairs", (n, where, k, v))
                if k not in ext_defs:
                    issues.append(("regimes", n, 2, "%s: extension %s is not defined" % (where, k), None))
                elif not pair_ok(k, v):
                    issues.append(("regimes", n, 3, "%s: %s is not a code of extension %s" % (where, v, k), None))
        common("regimes", n, d, True)
    for n, d in sorted(code["addons"].items()):
        for k in L(d, "requires"):
            ref("addon-keys", (n, k))
            if k not in [a.get("key") for a in code["addons"].values()]:
                issues.append(("addons", n, 0, "requires addon %s which is not registered" % k, None))
        common("addons", n, d, False)
    return issues, nrefs[0]


# ----------------------------------------------------------------------------------------------
# served output
# ----------------------------------------------------------------------------------------------

def served(requests):
    """POSTs the bulk requests to a freshly started `gobl serve`; returns {req_id: response}. Cleans up after itself."""
    tmp = tempfile.mkdtemp(prefix="c19serve-")
    proc = None
    try:
        key = os.path.join(tmp, "key.jwk")
        subprocess.run([os.path.join(BIN, "gobl"), "keygen", key], stdout=subprocess.DEVNULL, stderr=subprocess.DEVNULL, timeout=60, env=GOENV)
        s = socket.socket()
        s.bind(("127.0.0.1", 0))
        port = s.getsockname()[1]
        s.close()
        proc = subprocess.Popen([os.path.join(BIN, "gobl"), "serve", "-p", str(port), "-k", key],
                                stdout=subprocess.DEVNULL, stderr=subprocess.DEVNULL, env=GOENV)
        base = "http://127.0.0.1:%d" % port
        for _ in range(100):
            try:
                urllib.request.urlopen(base + "/", timeout=1).read()
                break
            except Exception:
                time.sleep(0.1)
        body = "\n".join(json.dumps(r) for r in requests).encode() + b"\n"
        req = urllib.request.Request(base + "/bulk", data=body, method="POST")
        out = urllib.request.urlopen(req, timeout=120).read().decode()
        res = {}
        for line in out.splitlines():
            if line.strip():
                r = json.loads(line)
                if "req_id" in r:
                    res[r["req_id"]] = r
        return res
    finally:
        if proc is not None:
            proc.terminate()
            try:
                proc.wait(timeout=10)
            except Exception:
                proc.kill()
        shutil.rmtree(tmp, ignore_errors=True)


# ----------------------------------------------------------------------------------------------


def proof_error(pr):
    """the first coqc error of the build log (file, position, message)"""
    import re
    log = pr.get("make_log") or pr.get("log", "")
    m = re.search(r'File "[^"]+", line \d+, characters [\d-]+:\nError:.*?(?=\n\n|\nmake|\Z)', log, re.S)
    if m:
        return m.group(0)[:700]
    if pr.get("forbidden"):
        return "forbidden vernacular: %s" % pr["forbidden"][:3]
    return log[-400:]

def definitions_unchanged_by_use(c):
    """What the generators would write must not depend on what the process handled before: the in-code definitions are dumped in a
    fresh process and in a process that first put every example envelope through calculate / validate / correction options / correct /
    replicate; both dumps must be the same (and so both equal the published files, which the rest of the check compares with the first)."""
    def dump(*args):
        p = subprocess.run([os.path.join(BIN, "vharness"), "c19dump"] + list(args), stdout=subprocess.PIPE, stderr=subprocess.PIPE, env=GOENV, timeout=300)
        return p.returncode, p.stdout
    rc0, fresh = dump()
    rc1, used = dump("afteruse", REPO)
    if rc0 != 0 or rc1 != 0:
        c.report("definitions could not be dumped (fresh rc %s, after use rc %s)" % (rc0, rc1), {"machinery": "vharness c19dump"}, no_input=True)
        return
    a, b = json.loads(fresh), json.loads(used)
    n = 0
    for kind in a:
        for name in a[kind]:
            n += 1
            c.count("definitions-unchanged-by-use", 1, (kind, name))
            if a[kind][name] != b.get(kind, {}).get(name):
                def flat(x, p=""):
                    if isinstance(x, dict):
                        for k, v in x.items():
                            yield from flat(v, p + "/" + k)
                    elif isinstance(x, list):
                        for i, v in enumerate(x):
                            yield from flat(v, p + "/%d" % i)
                    else:
                        yield p, x
                fa, fb = dict(flat(a[kind][name])), dict(flat(b[kind][name]))
                diff = sorted(k for k in set(fa) | set(fb) if fa.get(k) != fb.get(k))[:3]
                c.report("the in-code definition of %s %s changes while the process handles documents (first differences: %s): a generator run after use no longer reproduces data/%s/%s.json"
                         % (kind[:-1], name, ", ".join("%s: %r -> %r" % (k, fa.get(k), fb.get(k)) for k in diff), kind, name),
                         {"definition": "%s/%s" % (kind, name), "differences": diff, "rerun": "bin/vharness c19dump afteruse <repo>  vs  bin/vharness c19dump",
                          "clause": "the shipped files are exactly what the in-code definitions and generators produce"})
    if n == 0:
        c.report("no definitions dumped", {"machinery": "vharness c19dump"}, no_input=True)


def tag_constants_defined(c):
    """A tag key a regime or add-on package declares as a constant AND uses in its code (HasTags, scenario filters ...) must be a tag
    some published definition offers - otherwise the behaviour it switches is unreachable: validation refuses the tag as undefined."""
    import glob as _g
    import re as _re
    defined = set()
    for f in _g.glob(os.path.join(REPO, "data", "regimes", "*.json")) + _g.glob(os.path.join(REPO, "data", "addons", "*.json")):
        try:
            d = json.load(open(f))
        except Exception:
            continue
        for ts in d.get("tags") or []:
            for t in ts.get("list") or []:
                defined.add(t.get("key"))
    for pkg in sorted(set(os.path.dirname(f) for f in _g.glob(os.path.join(REPO, "addons", "*", "*", "*.go")) + _g.glob(os.path.join(REPO, "regimes", "*", "*.go")))):
        texts = {f: open(f).read() for f in _g.glob(os.path.join(pkg, "*.go")) if not f.endswith("_test.go")}
        for f, tx in texts.items():
            for m in _re.finditer(r'\b(Tag\w+)\s+cbc\.Key\s*=\s*"([^"]+)"', tx):
                name, key = m.group(1), m.group(2)
                uses = sum(len(_re.findall(r"\b%s\b" % name, t)) for t in texts.values()) - 1
                c.count("tag-constants-defined", 1, (os.path.relpath(pkg, REPO), key))
                if uses > 0 and key not in defined:
                    c.report("package %s uses the tag `%s` (constant %s, %d uses) but no published regime or add-on definition offers it: a document carrying it is refused as undefined"
                             % (os.path.relpath(pkg, REPO), key, name, uses),
                             {"package": os.path.relpath(pkg, REPO), "tag": key, "constant": name,
                              "clause": "every shipped regime and addon definition only refers to tags that are themselves defined"})


def definitions_conform(c):
    """Every shipped definition file (data/regimes, data/addons, data/catalogues) must be accepted by the published schema of its
    own `$schema` (a non-Go consumer reads these files with the schemas in hand). Independent reading: python jsonschema."""
    import glob as _g
    import subprocess as _sp
    pyjs = os.path.join(VERIF, "tools", "lib", "c11_pyjs.py")
    files, lines = [], []
    for kind in ("regimes", "addons", "catalogues"):
        for f in sorted(_g.glob(os.path.join(REPO, "data", kind, "*.json"))):
            try:
                d = json.load(open(f))
            except Exception as e:
                c.report("shipped definition file %s is not JSON: %s" % (os.path.relpath(f, REPO), e), {"file": os.path.relpath(f, REPO)})
                continue
            if isinstance(d, dict) and isinstance(d.get("$schema"), str):
                files.append(os.path.relpath(f, REPO))
                lines.append(json.dumps({"id": d["$schema"], "doc": d}))
    if not lines:
        c.report("no shipped definition files found", {"machinery": "data/"}, no_input=True)
        return
    p = _sp.run(["python3-vt", pyjs, REPO, "validate"], input="\n".join(lines) + "\n", stdout=_sp.PIPE, stderr=_sp.PIPE, text=True, timeout=600)
    outs = [l for l in p.stdout.splitlines() if l.startswith("{")]
    if p.returncode != 0 or len(outs) != len(lines):
        c.report("definition files could not be validated (python jsonschema): %s" % p.stderr[-300:], {"machinery": "tools/lib/c11_pyjs.py"}, no_input=True)
        return
    shown = 0
    for f, o in zip(files, outs):
        r = json.loads(o)
        c.count("definition-conforms-to-its-schema", 1, f)
        if r.get("v") == "invalid" and shown < 4:
            shown += 1
            c.report("shipped definition file %s is refused by the published schema of its own $schema: %s" % (f, json.dumps(r.get("errors"))[:300]),
                     {"file": f, "errors": r.get("errors"), "clause": "non-Go consumers see the same definitions the library enforces (the file must be readable with the published schema)",
                      "rerun": "python3-vt tools/lib/c11_pyjs.py <repo> validate  < {id: $schema, doc: file}"})


def run(c):
    if not std_builds(c, cli=True):
        return
    ok, out = translate()
    if not ok:
        c.report("translator failed: " + out[-800:], {"correspondence": "vharness translate", "log": out[-2000:]}, no_input=True)
        return
    proved = c.prove()
    ok, out = build_oracle()
    if not ok:
        c.report("extraction/oracle build failed: " + out[-800:], {"machinery": "oracle"}, no_input=True)
        return
    pub = load_published(REPO)
    definitions_conform(c)
    tag_constants_defined(c)
    definitions_unchanged_by_use(c)
    code = load_in_code()
    currencies = set()
    for f in glob.glob(os.path.join(REPO, "data", "currency", "*.json")):
        for d in json.load(open(f)):
            currencies.add(d.get("iso_code"))
    concrete = 0

    # ---- published = in code: deep JSON comparison (P), file by file ----
    differing, orphan = set(), set()
    for kind in KINDS:
        for n, d in sorted(code[kind].items()):
            c.count("definition-vs-file", 1, (kind, n))
            p = pub[kind].get(n)
            if p is None:
                differing.add((kind, n))
                concrete += 1
                c.report("%s %s is registered in the code but data/%s/%s.json is not shipped" % (kind, n, kind, n),
                         {"file": "data/%s/%s.json" % (kind, n), "clause": "published files are exactly what the in-code definitions produce"})
                continue
            df = first_diff(d, p)
            if df:
                differing.add((kind, n))
                concrete += 1
                c.report("data/%s/%s.json differs from the in-code definition at %s: code %s, file %s" % (kind, n, df[0], short(df[1]), short(df[2])),
                         {"file": "data/%s/%s.json" % (kind, n), "json_path": df[0], "in_code": df[1], "published": df[2],
                          "clause": "published files are exactly what the in-code definitions produce",
                          "rerun": "bin/vharness c19dump | python3 -c 'import json,sys; print(json.dumps(json.load(sys.stdin)[\"%s\"][\"%s\"], indent=2))' | diff - %s/data/%s/%s.json" % (kind, n, REPO, kind, n)})
        for n in sorted(pub[kind]):
            if n not in code[kind]:
                orphan.add((kind, n))
                c.count("definition-vs-file", 1, (kind, n, "orphan"))
                concrete += 1
                fid = F_GR if (kind, n) == ("regimes", "gr") else None
                c.report("data/%s/%s.json is shipped (and served) but no registered definition produces it (country %s; registered: %s)" % (
                         kind, n, pub[kind][n].get("country", pub[kind][n].get("key")), " ".join(sorted(code[kind]))),
                         {"file": "data/%s/%s.json" % (kind, n), "clause": "published files are exactly what the generators produce"}, finding_id=fid)

    # ---- coherence: reference search (P) ----
    issues, nrefs = coherence_issues(code, currencies, c)
    for kind, n, clause, text, fid in issues:
        concrete += 1
        c.report("%s %s: %s" % (kind, n, text), {"definition": "%s/%s" % (kind, n), "clause_index": clause, "what": text,
                                                 "clause": "definitions only refer to tags, extensions, categories and correction types that are themselves defined; keys are unique"},
                 finding_id=fid)

    # ---- the model's own report must name the same definitions ----
    rep = parse_wire(run_oracle(["c19 report"], shards=1)[0])
    m_diff = {(x[0].decode(), x[1].decode()) for x in rep[0]}
    m_orph = {(x[0].decode(), x[1].decode()) for x in rep[1]}
    m_inco = {(x[0].decode(), x[1].decode()) for x in rep[2]}
    p_inco = {(k, n) for k, n, _, _, _ in issues}
    c.cov["model_report"] = {"differing": sorted(m_diff), "orphans": sorted(m_orph),
                             "incoherent_clauses": sorted((x[0].decode(), x[1].decode(), x[2]) for x in rep[2])}
    # the structural projection may miss a textual difference, never the other way round
    if not m_diff <= differing:
        c.report("the model finds published != in code for %s but the JSON comparison does not" % sorted(m_diff - differing),
                 {"theorem": "published_equals_in_code (rocq/Props/C19.v)", "model": sorted(m_diff), "json": sorted(differing)}, no_input=True)
    if m_orph != orphan:
        c.report("orphan files: model %s, JSON search %s" % (sorted(m_orph), sorted(orphan)),
                 {"theorem": "published_only_defined_partial (rocq/Props/C19.v)"}, no_input=True)
    if m_inco != p_inco:
        c.report("coherence: the model's failing clauses %s and the reference search %s disagree" % (sorted(m_inco - p_inco), sorted(p_inco - m_inco)),
                 {"theorem": "all_definitions_coherent / tags_defined_and_unique_partial (rocq/Props/C19.v)"}, no_input=True)

    # ---- the repository's own generators, byte comparison; Validate(); time zones ----
    p = subprocess.run([os.path.join(BIN, "vharness"), "c19gen", REPO], stdout=subprocess.PIPE, stderr=subprocess.PIPE, env=GOENV, timeout=900, text=True)
    if p.returncode != 0:
        c.report("vharness c19gen failed: " + p.stderr[-600:], {"correspondence": "c19gen"}, no_input=True)
    else:
        g = json.loads(p.stdout)
        c.cov["generators"] = {"ran": g["generators"], "files_byte_compared": g["compared"], "definitions_validated": g["validated"],
                               "generator_inputs_not_generated": g.get("source_inputs"), "scratch_removed": g["scratch_removed"]}
        c.count("regenerated-files", g["compared"])
        c.count("validate", g["validated"])
        for gen, st in g["generators"].items():
            if st != "ok":
                c.report("generator %s does not run: %s" % (gen, st), {"correspondence": gen}, no_input=True)
        for f in g.get("differing") or []:
            concrete += 1
            c.report("%s differs byte-wise from what the repository's generator produces now" % f,
                     {"file": f, "clause": "published files are exactly what the generators produce",
                      "rerun": "bin/vharness c19gen %s" % REPO})
        for f in g.get("not_shipped") or []:
            concrete += 1
            c.report("the generators produce %s which is not shipped" % f, {"file": f, "rerun": "bin/vharness c19gen %s" % REPO})
        for f in g.get("not_generated") or []:
            concrete += 1
            c.report("%s is shipped but produced by no generator" % f, {"file": f, "rerun": "bin/vharness c19gen %s" % REPO},
                     finding_id=F_GR if f == "data/regimes/gr.json" else None)
        for v in g.get("validate") or []:
            concrete += 1
            c.report("%s %s: %s fails: %s" % (v["kind"], v["name"], v["what"], v["error"][:300]),
                     {"definition": "%s/%s" % (v["kind"], v["name"]), "call": v["what"], "error": v["error"]})
        if not g["scratch_removed"]:
            c.report("c19gen left its scratch copy behind", {"machinery": "c19gen cleanup"}, no_input=True)

    # ---- what the CLI serves ----
    reqs, want = [], {}
    for n in sorted(pub["regimes"]):
        rid = "regime:" + n
        reqs.append({"action": "regime", "req_id": rid, "payload": {"code": n}})
        want[rid] = os.path.join(REPO, "data", "regimes", n + ".json")
    schemas = sorted(glob.glob(os.path.join(REPO, "data", "schemas", "**", "*.json"), recursive=True))
    for f in schemas:
        rel = os.path.relpath(f, os.path.join(REPO, "data", "schemas"))[:-5]
        rid = "schema:" + rel
        reqs.append({"action": "schema", "req_id": rid, "payload": {"path": rel}})
        want[rid] = f
    try:
        got = served(reqs)
        bad = []
        for rid, f in want.items():
            c.count("served", 1, rid)
            r = got.get(rid)
            if r is None or r.get("error") or r.get("payload") != json.load(open(f)):
                bad.append((rid, f, None if r is None else r.get("error")))
        c.cov["served"] = {"requests": len(reqs), "different": len(bad)}
        for rid, f, err in bad[:5]:
            concrete += 1
            c.report("`gobl serve` /bulk %s does not answer with the content of %s (%s)" % (rid, os.path.relpath(f, REPO), err or "payload differs"),
                     {"request": rid, "file": os.path.relpath(f, REPO)})
        if ("regimes", "gr") in orphan and "regime:gr" in got and not got["regime:gr"].get("error"):
            c.report("`gobl serve` /bulk regime gr serves the stale data/regimes/gr.json", {"request": "regime:gr"}, finding_id=F_GR)
    except Exception as e:
        c.report("could not query `gobl serve`: %r" % e, {"machinery": "gobl serve"}, no_input=True)

    # ---- corpus: recorded witnesses, re-examined on every run ----
    cf = os.path.join(VERIF, "corpus", "C19", "witnesses.json")
    if os.path.exists(cf):
        st = {}
        for wt in json.load(open(cf))["witnesses"]:
            if wt["kind"] == "orphan":
                st[wt["id"]] = os.path.exists(os.path.join(REPO, wt["file"]))
            elif wt["kind"] == "issue":
                st[wt["id"]] = any((k, n) == tuple(wt["definition"]) and wt["contains"] in text for k, n, _, text, _ in issues)
        c.cov["corpus_witnesses_still_present"] = st

    # ---- bookkeeping ----
    ndefs = sum(len(code[k]) for k in KINDS)
    c.cov["exhaustive"] = True
    c.cov["rule"] = ("exhaustive: every registered regime, addon and catalogue (deep JSON comparison with its published file, "
                     "structural equality inside Coq), every published file (orphans), every reference a definition makes "
                     "(currency, extension keys and (key, code) pairs, tags of values and scenarios, addon requirements, document "
                     "types, stamps, uniqueness of keys), every file under data/ byte-compared with the regenerated one, every "
                     "definition validated, every regime and schema file requested from `gobl serve`. distinct non-trivial = "
                     "distinct (definition | reference | served file) items")
    c.cov["counts"] = {"definitions": ndefs, "published_files": sum(len(pub[k]) for k in KINDS), "references_checked": nrefs,
                       "schemas": len(schemas), "concrete_findings": concrete}
    c.sample({"definition": "regimes/es", "published": "data/regimes/es.json", "compared": "deep JSON + structural record in Coq"})
    if issues:
        c.sample({"reference_issue": issues[0][:4]})
    c.sample({"served": reqs[0]})

    if not proved:
        pr = c.proof
        c.report("proof obligations of rocq/Props/C19.v no longer check (%s): %s" % (
                 ", ".join(pr.get("failed_files") or ["Props/C19.v"]), proof_error(pr)),
                 {"theorem": "rocq/Props/C19.v", "failed_files": pr.get("failed_files"), "forbidden": pr.get("forbidden")},
                 no_input=(len(c.violations) == 0))


def replay(path):
    r = json.load(open(path))["replay"]
    print(json.dumps(r, indent=1, ensure_ascii=False))
    if "rerun" in r:
        print("rerun:", r["rerun"])
    return 0
