"""C04, non-numeric half: correspondence streams between the implementation (harness/c04norm.go) and the
models of rocq/Fix (code normalisers, TrimSpace, scenario notes, map marshalling, date text), and the
direct judgement of the implementation's outputs against the property (idempotence, fixpoint, order
independence, print-parse identity)."""
import itertools
import json
from vlib import *

ALNUM = "ABZaz09XyQ7"
SEPS = ".-/ _:"
PUNCT = "#$%&'()*+,;<=>?@[\\]^`{|}~!\""
CTRL = "\t\n\x0b\x0c\r\x00\x1c\x1f\x7f"
USPACE = ["\u0085", "\u00a0", "\u1680", "\u2000", "\u2003", "\u200a", "\u2028", "\u2029", "\u202f", "\u205f", "\u3000"]
UOTHER = ["\u200b", "\ufeff", "\u180e", "\u00e9", "\u00df", "\u0131", "\u017f", "\u212a", "\u00b5", "\u0660", "\uff21", "\U0001f600", "\ufffd", "\u2027", "\u200b"]
BADBYTES = [b"\xff", b"\xc2", b"\xe2\x80", b"\x80", b"\xa0", b"\x85", b"\xe2", b"\xc0\xa0", b"\xed\xa0\x80", b"\xf0\x9f\x98", b"\xe1\x9a", b"\xe3\x80", b"\xc2\xc2\xa0", b"\xe2\x80\x80\x80", b"\xf4\x90\x80\x80"]


def gen_strings(rng, n, exhaustive=True):
    """byte strings: exhaustive small cases first, then random mixtures (punctuation-heavy, Unicode white
    space and letters, malformed UTF-8, long runs)"""
    out = [b""]
    if exhaustive:
        out += [bytes([b]) for b in range(256)]
        small = "A- #"
        for k in range(2, 6):
            out += ["".join(t).encode() for t in itertools.product(small, repeat=k)]
        two = ["a", "Z", "5", "-", ".", " ", "_", ":", "/", "#", "\t", "\u00a0", "\u2003"]
        out += [(x + y + z).encode() for x in two for y in two for z in two]
    n += len(out)
    pieces = ([c.encode() for c in ALNUM] * 3 + [c.encode() for c in SEPS] * 4 + [c.encode() for c in PUNCT] + [c.encode() for c in CTRL]
              + [c.encode() for c in USPACE] + [c.encode() for c in UOTHER] + BADBYTES)
    ascii_pieces = [c.encode() for c in ALNUM] * 2 + [c.encode() for c in SEPS] * 3 + [c.encode() for c in PUNCT[:8]]
    while len(out) < n:
        r = rng.random()
        if r < 0.45:
            s = b"".join(rng.choice(ascii_pieces) for _ in range(rng.randint(1, 12)))
        elif r < 0.85:
            s = b"".join(rng.choice(pieces) for _ in range(rng.randint(1, 14)))
        elif r < 0.93:
            # long runs
            s = b"".join(rng.choice(pieces) * rng.randint(1, 40) for _ in range(rng.randint(1, 5)))
        else:
            # a valid code, possibly too long, possibly wrapped in white space
            body = rng.choice(ALNUM) + "".join(rng.choice(["", rng.choice(SEPS)]) + rng.choice(ALNUM) for _ in range(rng.randint(0, 24)))
            s = (rng.choice(["", " ", "\u00a0", "\t"]) + body + rng.choice(["", " ", "\u3000\n"])).encode()
        out.append(s)
    return out


def is_alnum(b):
    return 48 <= b <= 57 or 65 <= b <= 90 or 97 <= b <= 122


def norm_ok(s):
    """what the property asks of a normalised code: allowed bytes only, a separator is followed by an
    alphanumerical or ends the text, no space at either end"""
    seps = set(SEPS.encode())
    for i, b in enumerate(s):
        if not (is_alnum(b) or b in seps):
            return False
        if b in seps and i + 1 < len(s) and not is_alnum(s[i + 1]):
            return False
    return not (s[:1] == b" " or s[-1:] == b" ")


def compare(c, stream, lines, keyf=None, limit=3):
    """runs the lines on both sides, counts them, reports mismatches (no_input: the correspondence is
    broken, not the property); returns the implementation's parsed outputs"""
    go = run_go(lines)
    mo = run_oracle(lines)
    bad = 0
    for l, g, m in zip(lines, go, mo):
        c.count(stream, 1, keyf(l) if keyf else l)
        if g != m:
            bad += 1
            if bad <= limit:
                c.report("correspondence broken (%s): the implementation and the model disagree" % stream,
                         {"correspondence": stream, "line": l[:3000], "implementation": g[:3000], "model": m[:3000]}, no_input=True)
    return [parse_wire(g) for g in go]


def normalisers(c, quick):
    strs = gen_strings(c.rng, 7000 if quick else 200000)
    ops = ["norm_code", "norm_alnum", "norm_num"]
    lines = ["c04 %s %s" % (op, w(s)) for s in strs for op in ops]
    res = compare(c, "corr:C04:normalisers", lines)
    outs = {}
    for i, s in enumerate(strs):
        for j, op in enumerate(ops):
            v = res[i * 3 + j]
            outs[(op, s)] = v[0] if v and isinstance(v[0], bytes) else None
    # second application by the implementation: idempotence judged on the implementation itself
    again = sorted({(op, o) for (op, _), o in outs.items() if o is not None})
    res2 = run_go(["c04 %s %s" % (op, w(o)) for op, o in again])
    twice = {k: (parse_wire(r) or [None])[0] for k, r in zip(again, res2)}
    valid = run_go(["c04 code_valid " + w(s) for s in strs])
    shown = 0
    for s, vl in zip(strs, valid):
        isvalid = parse_wire(vl) == [1]
        for op in ops:
            o = outs[(op, s)]
            c.count("normaliser-idempotence", 1, op + ":" + s.hex())
            what = None
            if o is None:
                what = "%s fails on %r" % (op, s)
            elif twice[(op, o)] != o:
                what = "%s is not idempotent: %r -> %r -> %r" % (op, s, o, twice[(op, o)])
            elif op == "norm_code" and not norm_ok(o):
                what = "NormalizeCode(%r) = %r still holds a forbidden character, a separator followed by a non-alphanumerical, or a space at an end" % (s, o)
            elif op == "norm_code" and isvalid and o != s:
                what = "NormalizeCode changes the valid code %r to %r" % (s, o)
            elif op == "norm_alnum" and any(not (48 <= b <= 57 or 65 <= b <= 90) for b in o):
                what = "NormalizeAlphanumericalCode(%r) = %r is not upper-case alphanumerical" % (s, o)
            elif op == "norm_num" and any(not (48 <= b <= 57) for b in o):
                what = "NormalizeNumericalCode(%r) = %r is not numerical" % (s, o)
            if what and shown < 4:
                shown += 1
                c.report(what, {"normaliser": op, "input_hex": s.hex(), "clause": "code normalisers are idempotent and produce clean codes"})
    # validity patterns and Address.Normalize
    keys = [b"", b"a", b"a-b", b"a+b", b"-a", b"a-", b"a--b", b"A", b"a_b", b"9", b"a9+", b"\xc3\xa9"]
    kal = "abz09-+_A. "
    keys += ["".join(c.rng.choice(kal) for _ in range(c.rng.randint(1, 6))).encode() for _ in range(1500 if quick else 40000)]
    compare(c, "corr:C04:validity-patterns", ["c04 code_valid " + w(s) for s in strs] + ["c04 key_valid " + w(k) for k in keys + strs[:1500]])
    res = compare(c, "corr:C04:address-trim", ["c04 addr_trim " + w(s) for s in strs[:3000 if quick else 10 ** 6]])
    again = run_go(["c04 addr_trim " + w(v[0][0]) for v in res if v and isinstance(v[0], list) and len(v[0]) == 3 and v[0][0] != b"err"])
    k = 0
    for s, v in zip(strs, res):
        if not (v and isinstance(v[0], list) and len(v[0]) == 3 and v[0][0] != b"err"):
            continue
        v2 = parse_wire(again[k])
        k += 1
        if (not v2 or not isinstance(v2[0], list) or v2[0][0] != v[0][0]) and shown < 6:
            shown += 1
            c.report("Address.Normalize is not idempotent on a free-text field: %r" % s, {"address_field_hex": s.hex(),
                     "clause": "normalisers are idempotent"})
    for s in strs[300:303]:
        c.sample({"normaliser_input_hex": s.hex()}, limit=2)


# ---- scenario notes ----
KEYS = [b"legal", b"general", b""]
CODES = [b"", b"M01", b"M02"]
SRCS = [b"reverse-charge", b"ext", b""]
TEXTS = [b"t1", b"t2", b"t3", b""]


def gen_notes_case(rng):
    ns = rng.choice([1, 2, 2, 3, 3, 4, 6])
    scen = []
    for _ in range(ns):
        has = rng.random() < 0.85
        r = rng.random()
        code = rng.choice(CODES)
        ext = code if r < 0.45 else rng.choice(CODES)
        scen.append([int(rng.random() < 0.6), ext, int(has), rng.choice(KEYS[:2]), code, rng.choice(SRCS), rng.choice(TEXTS), rng.choice([b"", b"e"])])
    notes = []
    for _ in range(rng.choice([0, 0, 1, 2, 3, 5])):
        if rng.random() < 0.08:
            notes.append([0])
        else:
            notes.append([1, rng.choice(KEYS), rng.choice(CODES), rng.choice(SRCS), rng.choice(TEXTS), rng.choice([b"", b"m"]), rng.choice([b"", b"e"])])
    return scen, notes


def reorder_finding(scen):
    """the narrow matcher of C04-scenario-notes-reorder: some matching scenario adds its note under a
    key/code/source (code = ExtCode) that no scenario DECLARES, so removePreviousScenarioNotes never
    removes it while notes added before it are removed and re-appended behind it"""
    declared = {(s[3], s[4], s[5]) for s in scen if s[2]}
    return any(s[0] and s[2] and (s[3], s[1], s[5]) not in declared for s in scen)


ES_SAFT_DOC = {"$schema": "https://gobl.org/draft-0/bill/invoice", "$addons": ["pt-saft-v1"], "$tags": ["reverse-charge"],
               "uuid": "3aea7b56-59d8-4beb-90bd-f8f280d852a0", "type": "standard", "currency": "EUR", "issue_date": "2023-01-30", "series": "A", "code": "1",
               "supplier": {"tax_id": {"country": "ES", "code": "B98602642"}, "name": "S"}, "customer": {"name": "C"},
               "lines": [{"quantity": "1", "item": {"name": "x", "price": "100.00"},
                          "taxes": [{"cat": "VAT", "rate": "exempt", "ext": {"pt-saft-exemption": "M01"}}]}]}


def scenario_notes(c, quick):
    cases = [gen_notes_case(c.rng) for _ in range(5000 if quick else 150000)]
    # the witness of Fix/ScenarioNotes.v first
    cases.insert(0, ([[1, b"", 1, b"legal", b"", b"reverse-charge", b"Reverse Charge", b""], [1, b"M01", 1, b"legal", b"", b"pt-saft-exemption", b"Artigo 16", b""]], []))
    lines = ["c04 notes %s %s" % (w(s), w(n)) for s, n in cases]
    res = compare(c, "corr:C04:scenario-notes", lines)
    fixed = run_oracle(["c04 notes %s %s" % (w(s), w(n)) for s, n in cases])
    shown = known = 0
    for (scen, notes), v, f, l in zip(cases, res, fixed, lines):
        c.count("scenario-notes-fixpoint", 1, l)
        if not (v and isinstance(v[0], list) and v[0] and v[0][0] == b"ok"):
            if shown < 3:
                shown += 1
                c.report("calculating an invoice with these scenario notes fails", {"notes_case": l, "clause": "scenario notes removed then re-added"})
            continue
        fv = parse_wire(f)
        if fv and fv[0][1] != fv[0][2] and shown < 3:
            shown += 1
            c.report("the repaired note mechanism of the model is not a fixpoint", {"theorem": "rocq/Fix/ScenarioNotesProofs.v", "notes_case": l}, no_input=True)
        if v[0][1] != v[0][2] and shown < 3:
            shown += 1
            c.report("calculating twice changes the notes of an invoice", {"notes_case": l, "first": w(v[0][1]), "second": w(v[0][2]),
                     "clause": "serialising the result, parsing it back and calculating again yields byte-identical JSON (scenario notes removed then re-added)"})
    # the same on shipped definitions: regime es (tag note, no ExtCode) with add-on pt-saft-v1 (extension note, ExtCode M01)
    r = run_go(["c04 fix " + w(json.dumps(ES_SAFT_DOC))], shards=1)[0]
    c.count("scenario-notes-fixpoint", 1, "es+pt-saft")
    v = parse_wire(r)
    if v and isinstance(v[0], list) and v[0] and v[0][0] == b"diff":
        c.report("recalculating a Spanish reverse-charge invoice with the pt-saft-v1 add-on and exemption M01 swaps its two scenario notes (%s)" % v[0][2].decode(),
                 {"document": ES_SAFT_DOC, "result": r, "clause": "serialising the result, parsing it back and calculating again yields byte-identical JSON"})
    c.sample({"notes_case": lines[1]}, limit=2)
    return known


# ---- maps ----
def gen_map(rng, strs):
    n = rng.choice([0, 1, 2, 3, 5, 8])
    ks = []
    kal = ["a", "b", "ab", "a-b", "B", "_", "", "\u00e9", "\u2028", "<", "\"", "\\", "z" * 3, "a\x00", "\x7f"]
    while len(ks) < n:
        k = rng.choice(kal).encode() if rng.random() < 0.6 else rng.choice(strs)[:6]
        if k not in ks:
            ks.append(k)
    return [(k, rng.choice(strs)[:20] if rng.random() < 0.7 else rng.choice([b"", b"v", b"<&>", b"\xe2\x80\xa8", b"\\\"/"])) for k in ks]


def valid_utf8(b):
    try:
        b.decode("utf-8")
        return True
    except UnicodeDecodeError:
        return False


def maps(c, quick):
    strs = gen_strings(c.rng, 3000, exhaustive=False)
    ms = [gen_map(c.rng, strs) for _ in range(2500 if quick else 80000)]
    lines, lines2 = [], []
    for m in ms:
        m2 = list(m)
        c.rng.shuffle(m2)
        lines.append("c04 marshal_map " + w([[k, v] for k, v in m]))
        lines2.append("c04 marshal_map " + w([[k, v] for k, v in m2]))
    res = compare(c, "corr:C04:map-marshal", lines)
    res2 = compare(c, "corr:C04:map-marshal", lines2)
    texts = []
    shown = 0
    for m, a, b, l in zip(ms, res, res2, lines):
        c.count("map-order-independence", 1, l)
        if a != b and shown < 3:
            shown += 1
            c.report("the same map filled in two different orders serialises differently", {"map_case": l, "clause": "regardless of ... map iteration order"})
        if a and isinstance(a[0], bytes):
            texts.append((m, a[0]))
    # reading: what was written, and variations of it (white space, escapes spelled differently, duplicates)
    ptexts = [t for _, t in texts]
    for m, t in texts[: len(texts) // 2]:
        s = t.decode("latin-1")
        r = c.rng.random()
        if r < 0.3:
            s = s.replace(",", " ,\n").replace(":", " :\t").replace("{", " { ").replace("}", "} ")
        elif r < 0.5:
            s = s.replace("a", "\\u0061").replace("/", "\\/")
        elif r < 0.6:
            s = s[:-1] + (',"a":"dup"}' if len(s) > 2 else '"a":"dup","a":"d2"}')
        elif r < 0.7:
            s = s[:-1] + (',' if len(s) > 2 else '') + '"s":"\\ud83d\\ude00 \\ud83d x \\ude00 \\u00e9"}'
        elif r < 0.8:
            s = s[: c.rng.randint(0, len(s))]
        elif r < 0.9:
            i = c.rng.randint(0, len(s))
            s = s[:i] + c.rng.choice(["\\", "\"", ",", "}", "\\x", "\\u12", "\x01", " ", "[", "1", "tru"]) + s[i:]
        else:
            s = s + c.rng.choice([" ", "\n", "x", "{}", ","])
        ptexts.append(s.encode("latin-1"))
    ptexts += [b"{}", b" { } ", b"", b"{", b"[]", b"\"a\"", b"{\"a\":\"b\",}", b"{,}", b"{\"a\" \"b\"}", b"{\"a\":\"b\" \"c\":\"d\"}"]
    res = compare(c, "corr:C04:map-parse", ["c04 parse_map " + w(t) for t in ptexts])
    for (m, t), v in zip(texts, res):
        c.count("map-read-back", 1, t.hex())
        if all(valid_utf8(k) and valid_utf8(x) for k, x in m):
            want = [b"ok"] + [[k, x] for k, x in sorted(m)]
            if (not v or v[0] != want) and shown < 6:
                shown += 1
                c.report("a serialised map does not read back as the same map", {"map_text_hex": t.hex(), "clause": "parsing any serialised ... document and serialising it again is the identity"})
    c.sample({"map_case": lines[3]}, limit=2)


# ---- dates ----
def dates(c, quick):
    rng = c.rng
    trip = [(0, 0, 0), (0, 1, 1), (0, 2, 29), (1900, 2, 29), (2000, 2, 29), (2023, 2, 29), (2024, 2, 29), (9999, 12, 31), (2023, 4, 31), (2023, 13, 1), (2023, 0, 1),
            (2023, 1, 0), (2023, 1, 32), (10000, 1, 1), (123, 4, 5)]
    for _ in range(1500 if quick else 60000):
        trip.append((rng.choice([0, 4, 100, 400, 1582, 1900, 1999, 2000, 2023, 2024, 2100, 9999, rng.randint(0, 9999)]), rng.randint(0, 13), rng.randint(0, 32)))
    plines = ["c04 date_print %d %d %d" % t for t in trip]
    res = compare(c, "corr:C04:date-text", plines)
    texts = [v[0] for v in res if v and isinstance(v[0], bytes)]
    extra = [b"", b"2023-1-30", b"2023-01-3", b"23-01-30", b"2023/01/30", b"2023-01-30 ", b" 2023-01-30", b"2023-01-30T00:00:00Z", b"+023-01-30", b"-023-01-30",
             b"2023-01-3x", b"2023-0x-30", b"20x3-01-30", b"0000-00-00", b"0000-00-01", b"0000-01-00", b"0001-00-00", b"2023-02-30", b"\xef\xbc\x92023-01-30", b"2023-01-30\x00"]
    for t in list(texts[:400]):
        i = rng.randint(0, max(len(t) - 1, 0))
        extra.append(t[:i] + bytes([rng.choice(b"0123456789-/ x9")]) + t[i + 1:])
        extra.append(t[:i] + t[i + 1:])
    tl = texts + extra
    res = compare(c, "corr:C04:date-text", ["c04 date_parse " + w(t) for t in tl])
    back = []
    for t, v in zip(tl, res):
        if v and isinstance(v[0], list) and v[0] and v[0][0] == b"ok":
            back.append((t, tuple(v[0][1:4])))
    res2 = run_go(["c04 date_print %d %d %d" % d for _, d in back])
    shown = 0
    for (t, d), r in zip(back, res2):
        c.count("date-print-parse", 1, t.hex())
        v = parse_wire(r)
        if (not v or v[0] != t) and shown < 3:
            shown += 1
            c.report("the date text %r is accepted but written back as %r" % (t, v[0] if v else None), {"date_text_hex": t.hex(),
                     "clause": "parsing any serialised envelope or document and serialising it again is the identity"})


def run_all(c, quick):
    normalisers(c, quick)
    scenario_notes(c, quick)
    maps(c, quick)
    dates(c, quick)
