"""C15 - concurrent use is race-free, result-equivalent, and bulk replies pair up.

Proof part: rocq/Props/C15.v (bulk transition system: every complete execution of every request
list yields one reply per request + one final marker; acceptance predicate = "some schedule";
slice heap model: registry never written - refuted as shipped for TagSet.Merge, proved repaired).
Tie: (a) deterministic deep snapshot of every registry structure (slices read up to capacity)
before/after each workload, compared with the model's prediction; (b) generated request streams
POSTed to `gobl serve` /bulk, the observed output judged by the extracted acceptance predicate,
payloads compared with the standalone CLI; (c) support only: stress under the race detector."""
import base64
import http.client
import re
import socket
import subprocess
import threading
from vlib import *

LEVEL = "proof"
TRUSTED = ["partial: the theorems cover the modelled cores (cli.Bulk's reader/worker/wait-group protocol; the tag/scenario/"
           "correction set builders over a slice heap). Go's memory model, scheduler, channel/WaitGroup semantics and every "
           "function outside the modelled helpers are covered by the snapshot sweep and the race-detector stress, which are "
           "SEARCH, not proof (the race detector is sampling)",
           "payload equality uses SHA-1 digests of canonical JSON as the bodies handed to the acceptance predicate",
           "snapshot walker harness/c15.go (reflection up to slice capacity), stress program harness/c15race",
           "signature verifier harness/c15verify.go (gobl.Envelope.Verify with the public half of the request's key); "
           "full-document generator harness/c15docs"]
FID = "C15-tagset-merge-shared-append"


# ----------------------------------------------------------------------------------------------
# (a) snapshot sweep
# ----------------------------------------------------------------------------------------------

def snapshot_sweep(c, quick):
    nrand = 40 if quick else 600
    p = subprocess.run([os.path.join(BIN, "vharness"), "c15snap", REPO, str(c.seed), str(nrand)], stdout=subprocess.PIPE,
                       stderr=subprocess.PIPE, text=True, timeout=1800, env=GOENV)
    if p.returncode != 0:
        c.report("snapshot sweep failed: " + p.stderr[-600:], {"machinery": "c15snap"}, no_input=True)
        return
    recs = [json.loads(l) for l in p.stdout.splitlines() if l.startswith("{")]
    tags = {r["owner"]: r for r in recs if r["type"] == "tags"}
    spare = [r for r in recs if r["type"] == "spare"]
    allslices = [r for r in recs if r["type"] in ("spare", "slice")]
    totals = next((r for r in recs if r["type"] == "totals"), {})
    c.cov["registry"] = {"cells": totals.get("cells"), "slices": totals.get("slices"), "workloads": totals.get("workloads"),
                         "snapshots": totals.get("snapshots"), "regimes": totals.get("regimes"), "addons": totals.get("addons"),
                         "slices_with_spare_capacity": [{"path": r["path"], "len": r["len"], "cap": r["cap"], "elem": r["elem"]}
                                                        for r in spare],
                         "every_registry_slice_path_len_cap": [[r["path"], r["len"], r["cap"]] for r in allslices]}
    # model predictions: for every workload that reached validation, the regime's tag array after
    # supportedTags(regime, addons) in the shipped model (copying = 0)
    keyid = {}

    def kid(k):
        return keyid.setdefault(k, len(keyid) + 1)

    ran = [r for r in recs if r["type"] == "ran"]
    lines = []
    for r in ran:
        wl = r["workload"]
        rt = tags.get("regime:" + (wl.get("regime") or ""))
        if not rt or not any(s.startswith("validate:") for s in r["stages"]):
            lines.append(None)
            continue
        ads = [[kid(k) for k in tags["addon:" + a]["keys"]] for a in (wl.get("addons") or []) if "addon:" + a in tags]
        lines.append("c15 tags 0 %s %d %s" % (wire_list([kid(k) for k in rt["keys"]]), rt["cap"],
                                             wire_list([wire_list(a) for a in ads], raw=True)))
    idx = [i for i, l in enumerate(lines) if l]
    outs = run_oracle([lines[i] for i in idx], shards=1) if idx else []
    pred = {}
    rev = {v: k for k, v in keyid.items()}
    for i, o in zip(idx, outs):
        vs = parse_wire(o)
        pred[i] = [rev.get(z, "") for z in vs[0]] if vs and isinstance(vs[0], list) else None
    changes_by_w = {}
    for r in recs:
        if r["type"] == "change":
            changes_by_w.setdefault(r["workload"]["name"], []).append(r)
    explained, unexplained, predicted_writes, observed_pred = 0, [], 0, 0
    for i, r in enumerate(ran):
        wl = r["workload"]
        c.count("snapshot-workloads", 1, wl["name"])
        chs = changes_by_w.get(wl["name"], [])
        pr = pred.get(i)
        rt = tags.get("regime:" + (wl.get("regime") or ""))
        written = {}
        if pr and rt:
            for j in range(rt["len"], min(len(pr), rt["cap"])):
                if pr[j]:
                    written[j] = pr[j]
            predicted_writes += len(written)
        for ch in chs:
            m = re.fullmatch(r"regimes->\.list\{([A-Z]+)\}->\.Tags\[\d+\]->\.List\[(\d+)\+spare\]", ch["path"])
            km = re.search(r"key=(\S+)", ch["after"])
            if m and m.group(1) == wl.get("regime") and int(m.group(2)) in written and km and km.group(1) == written[int(m.group(2))]:
                explained += 1
                observed_pred += 1
                c.report("registry cell %s written by %s (regime %s, addons %s): %s -> %s; the shipped model (TagSet.Merge appends "
                         "into the regime's spare capacity) predicts exactly this write" %
                         (ch["path"], wl["name"], wl.get("regime"), wl.get("addons"), ch["before"], ch["after"]),
                         {"workload": wl, "cell": ch["path"], "before": ch["before"], "after": ch["after"]}, finding_id=FID)
            else:
                unexplained.append(ch)
    c.cov["registry"]["cells_changed_explained_by_shipped_model"] = explained
    c.cov["registry"]["cells_changed_unexplained"] = len(unexplained)
    c.cov["registry"]["writes_predicted_by_shipped_model"] = predicted_writes
    for ch in unexplained[:5]:
        wl = ch["workload"]
        c.report("shared registry cell changed by a document operation: %s: %s -> %s while processing %s (regime %s, addons %s, "
                 "stages %s); the model predicts no cell of a shared definition ever changes" %
                 (ch["path"], ch["before"], ch["after"], wl["name"], wl.get("regime"), wl.get("addons"), ch["stages"]),
                 {"workload": wl, "cell": ch["path"], "before": ch["before"], "after": ch["after"], "stages": ch["stages"],
                  "rerun": "bin/vharness c15snap %s %d %d | grep '\"change\"'" % (REPO, c.seed, nrand)})
    if explained and not c.known(FID):
        pass  # reported above as violations (no known finding recorded)
    if explained == 0 and not unexplained:
        c.cov["registry"]["verdict"] = "no registry cell changed (matches the repaired model)"
    c.sample({"registry_spare_slices": [(r["path"], r["len"], r["cap"]) for r in spare[:4]]})


def equiv_sweep(c, quick):
    """result equivalence under history and concurrency: the same workload list (examples, synthetic invoices per regime,
    per regime+addon, every ordered pair of addons on its home regimes, random combinations; FULL invoices / orders / payments /
    deliveries - payment instructions and advances for every payment means key, terms, delivery, ordering, identities, charges,
    no hand-made extension - for every add-on and every ordered add-on pair, harness/c15docs) calculated in a seeded order,
    in the reverse order and on 16 goroutines, each in a FRESH process; a workload's result must be the same in all three."""
    nrand = 40 if quick else 3000
    outs = {}
    for mode in ("fwd", "rev", "par"):
        p = subprocess.run([os.path.join(BIN, "vharness"), "c15equiv", REPO, str(c.seed), str(nrand), mode], stdout=subprocess.PIPE,
                           stderr=subprocess.PIPE, text=True, timeout=1800, env=GOENV)
        if p.returncode != 0:
            # (a crash of the concurrent run - e.g. "concurrent map writes" - must not hide what the two sequential orders show)
            c.report("result-equivalence sweep failed (%s): %s" % (mode, p.stderr[-600:]), {"machinery": "c15equiv"}, no_input=True)
            continue
        outs[mode] = dict(l.split("\t", 1) for l in p.stdout.splitlines() if "\t" in l)
    if len(outs) < 2:
        return
    names = sorted(next(iter(outs.values())))
    shown = 0
    for n in names:
        c.count("result-equivalence", len(outs), n)
        r = {m: outs[m].get(n) for m in outs}
        if len(set(r.values())) > 1:
            shown += 1
            if shown <= 3:
                d = subprocess.run([os.path.join(BIN, "vharness"), "c15equiv", REPO, str(c.seed), str(nrand), "doc:" + n],
                                   stdout=subprocess.PIPE, stderr=subprocess.PIPE, text=True, timeout=600, env=GOENV)
                where = equiv_where(c, nrand, n, r)
                c.report("the calculated result of %s depends on what the process handled before or at the same time: %s%s" %
                         (n, r, "; first difference " + where if where else ""),
                         {"workload": n, "document": d.stdout.strip()[:20000], "results": r, "first_difference": where,
                          "clause": "concurrent and repeated use gives the same result as a fresh sequential run",
                          "rerun": "for m in fwd rev par; do bin/vharness c15equiv %s %d %d $m | grep -F '%s'; done" % (REPO, c.seed, nrand, n)})
    full = [n for n in names if n.startswith("full:")]
    c.cov["result_equivalence"] = {"workloads": len(names), "orders": ["seeded shuffle", "its reverse", "16 goroutines"], "differing": shown,
                                   "full_documents": {"workloads": len(full),
                                                      "kinds": sorted({n.split(":")[1] for n in full}),
                                                      "payment_means_keys": sorted({n.rsplit("means=", 1)[1] for n in full}),
                                                      "calculated": sum(1 for n in full if not str(outs[next(iter(outs))][n]).startswith(("calc-error", "parse-error", "panic")))},
                                   "panics": sum(1 for v in next(iter(outs.values())).values() if v == "panic")}


def equiv_where(c, nrand, name, r):
    """Re-runs two orders that disagree with a dump of the workload's calculated document and names the first differing member."""
    modes = sorted(r, key=lambda m: m == "par")     # the sequential orders first
    a = next((m for m in modes), None)
    b = next((m for m in modes if r[m] != r[a]), None)
    if b is None:
        return None
    docs = {}
    for m in (a, b):
        p = subprocess.run([os.path.join(BIN, "vharness"), "c15equiv", REPO, str(c.seed), str(nrand), "dump:%s:%s" % (m, name)],
                           stdout=subprocess.PIPE, stderr=subprocess.PIPE, text=True, timeout=1800, env=GOENV)
        try:
            docs[m] = json.loads(p.stdout.strip().splitlines()[-1])
        except Exception:  # noqa
            return None

    def diff(x, y, path):
        if isinstance(x, dict) and isinstance(y, dict):
            for k in sorted(set(x) | set(y)):
                if x.get(k) != y.get(k):
                    if k in x and k in y and isinstance(x[k], (dict, list)) and type(x[k]) is type(y[k]):
                        return diff(x[k], y[k], path + "." + k)
                    return "%s.%s: %s in order %s, %s in order %s" % (path, k, json.dumps(x.get(k))[:200], a, json.dumps(y.get(k))[:200], b)
        if isinstance(x, list) and isinstance(y, list):
            for i in range(max(len(x), len(y))):
                xi, yi = (x[i] if i < len(x) else None), (y[i] if i < len(y) else None)
                if xi != yi:
                    return diff(xi, yi, "%s[%d]" % (path, i))
        return "%s: %s in order %s, %s in order %s" % (path, json.dumps(x)[:200], a, json.dumps(y)[:200], b)
    if docs[a] == docs[b]:
        return None     # (did not reproduce in the re-run: concurrency dependent)
    return diff(docs[a], docs[b], "doc")


def wire_list(xs, raw=False):
    if not xs:
        return "( )"
    return "( " + " ".join(x if raw else str(x) for x in xs) + " )"


def wire_raw(xs):
    return wire_list(xs)


# ----------------------------------------------------------------------------------------------
# (b) bulk streams
# ----------------------------------------------------------------------------------------------

def free_port():
    s = socket.socket()
    s.bind(("127.0.0.1", 0))
    p = s.getsockname()[1]
    s.close()
    return p


class Server:
    def __init__(self, keyfile):
        self.keyfile = keyfile
        self.proc = None
        self.port = None

    def start(self):
        for _ in range(5):
            try:
                self.port = free_port()
            except OSError as e:
                self.err = "cannot bind a loopback port: %r" % e
                return False
            self.proc = subprocess.Popen([os.path.join(BIN, "gobl"), "serve", "-p", str(self.port), "-k", self.keyfile],
                                         stdout=subprocess.DEVNULL, stderr=subprocess.DEVNULL)
            for _ in range(100):
                time.sleep(0.05)
                if self.proc.poll() is not None:
                    break
                try:
                    c = http.client.HTTPConnection("127.0.0.1", self.port, timeout=2)
                    c.request("GET", "/")
                    if c.getresponse().status == 200:
                        return True
                except OSError:
                    pass
            self.stop()
        self.err = "gobl serve did not come up"
        return False

    def stop(self):
        if self.proc and self.proc.poll() is None:
            self.proc.terminate()
            try:
                self.proc.wait(5)
            except subprocess.TimeoutExpired:
                self.proc.kill()

    def alive(self):
        return self.proc is not None and self.proc.poll() is None

    def bulk(self, body, timeout=120, keepalive=False):
        """POSTs the stream (sending in a thread so that a server streaming replies early cannot deadlock us).
        keepalive: without `Connection: close`, as ordinary HTTP clients do - an HTTP/1.x server then has to be in
        full-duplex mode to go on reading the request stream once it has begun to reply."""
        s = socket.create_connection(("127.0.0.1", self.port), timeout=timeout)
        head = ("POST /bulk HTTP/1.1\r\nHost: 127.0.0.1\r\nContent-Type: application/json\r\nContent-Length: %d\r\n"
                "%s\r\n" % (len(body), "" if keepalive else "Connection: close\r\n")).encode()
        th = threading.Thread(target=lambda: _sendall(s, head + body))
        th.start()
        resp = http.client.HTTPResponse(s)
        resp.begin()
        data = resp.read()
        th.join()
        s.close()
        return resp.status, data.decode("utf-8", "replace")


def _sendall(s, b):
    try:
        s.sendall(b)
    except OSError:
        pass


def parse_stream(text):
    dec = json.JSONDecoder()
    i, out = 0, []
    while i < len(text):
        while i < len(text) and text[i].isspace():
            i += 1
        if i >= len(text):
            break
        o, i = dec.raw_decode(text, i)
        out.append(o)
    return out


def canon(o):
    return json.dumps(o, sort_keys=True, separators=(",", ":"), ensure_ascii=False)


VOLATILE = ("correct", "replicate")


def project(action, payload):
    """Removes what is freshly generated per call (signature bytes; for correct/replicate the new uuids and the
    digest over them)."""
    if not isinstance(payload, dict):
        return payload
    p = json.loads(json.dumps(payload))
    if "sigs" in p:
        p["sigs"] = len(p["sigs"]) if isinstance(p["sigs"], list) else p["sigs"]
    if action in VOLATILE:
        if isinstance(p.get("head"), dict):
            p["head"].pop("uuid", None)
            p["head"].pop("dig", None)
        if isinstance(p.get("doc"), dict):
            p["doc"].pop("uuid", None)
    return p


def body_of(action, payload, error):
    if error is not None:
        e = {k: error.get(k) for k in ("key", "fields", "message") if k in error} if isinstance(error, dict) else error
        return canon({"error": e})
    return canon({"payload": project(action, payload)})


class Standalone:
    """The standalone CLI operation for each request kind (cached per distinct input)."""
    def __init__(self, keyfile, pubfile, tmp):
        self.keyfile, self.pubfile, self.tmp, self.cache = keyfile, pubfile, tmp, {}
        self.n = 0
        self.defaultkey = json.load(open(keyfile))
        self.keyfiles = {canon(self.defaultkey): keyfile}     # private JWK -> file holding it
        self.sigchecks = {"ok": 0}

    def keyfile_of(self, jwk):
        """The key a sign request is to be signed with: its own "privatekey", else the stream's default key."""
        if jwk is None:
            return self.keyfile
        k = canon(jwk)
        if k not in self.keyfiles:
            f = os.path.join(self.tmp, "own%d.jwk" % len(self.keyfiles))
            with open(f, "w") as fh:
                json.dump(jwk, fh)
            self.keyfiles[k] = f
        return self.keyfiles[k]

    def cli(self, args, data):
        p = subprocess.run([os.path.join(BIN, "gobl")] + args + ["-"], input=data, stdout=subprocess.PIPE,
                           stderr=subprocess.PIPE, timeout=120)
        self.n += 1
        err = "\n".join(l for l in p.stderr.decode("utf-8", "replace").splitlines() if not l.startswith("WARNING conda"))
        return p.returncode, p.stdout.decode("utf-8", "replace"), err

    def expected(self, req):
        """(payload, error) the standalone operation yields for this request."""
        a = req["action"]
        pl = req.get("payload")
        if a == "ping":
            return {"pong": True}, None
        if a == "sleep":
            return {"sleep": "done"}, None
        key = (a, canon(pl))
        if key in self.cache:
            return self.cache[key]
        data = base64.b64decode(pl["data"])
        if a == "validate":
            rc, out, err = self.cli(["validate"], data)
            res = ({"ok": True}, None) if rc == 0 else (None, json.loads(err))
        elif a == "verify":
            rc, out, err = self.cli(["verify", "-k", self.pubfile], data)
            res = ({"ok": True}, None) if rc == 0 else (None, json.loads(err))
        elif a == "build":
            rc, out, err = self.cli(["build"], data)
            res = (json.loads(out), None) if rc == 0 else (None, json.loads(err))
        elif a == "sign":
            rc, out, err = self.cli(["sign", "-k", self.keyfile_of(pl.get("privatekey"))], data)
            res = (json.loads(out), None) if rc == 0 else (None, json.loads(err))
        elif a == "correct":
            opts = base64.b64decode(pl.get("options", "")).decode() if pl.get("options") else ""
            rc, out, err = self.cli(["correct"] + (["-d", opts] if opts else []), data)
            res = (json.loads(out), None) if rc == 0 else (None, json.loads(err))
        elif a == "replicate":
            rc, out, err = self.cli(["replicate"], data)
            res = (json.loads(out), None) if rc == 0 else (None, json.loads(err))
        else:
            raise KeyError(a)
        self.cache[key] = res
        return res


def gen_stream(rng, docs, signed_docs, pubkey, n, privkey=None, ownkeys=()):
    """A request stream of mixed actions and latencies, plus the ending. Returns (requests, tail, ending).
    Sign requests: about half rely on the stream's default key, the others bring their own "privatekey" (one of `ownkeys`,
    all different from the default) - the request goroutines of one stream, and of later streams of the same server, share
    the default key object."""
    reqs = []
    sleeps = ["0ms", "1ms", "3ms", "10ms", "25ms", "60ms", "150ms"]
    for i in range(n):
        x = rng.random()
        rid = "r%d-%04x" % (i, rng.getrandbits(16))
        if x < 0.04:
            rid = ""
        elif x < 0.08 and reqs:
            rid = reqs[rng.randrange(len(reqs))]["req_id"]
        y = rng.random()
        if y < 0.30:
            r = {"action": "sleep", "payload": rng.choice(sleeps)}
        elif y < 0.42:
            r = {"action": "ping"}
        elif y < 0.52:
            r = {"action": "build", "payload": {"data": rng.choice(docs)}}
        elif y < 0.62:
            r = {"action": "validate", "payload": {"data": rng.choice(docs)}}
        elif y < 0.70:
            r = {"action": "verify", "payload": {"data": rng.choice(signed_docs + docs[:1]), "publickey": pubkey}}
        elif y < 0.78:
            r = {"action": "sign", "payload": {"data": rng.choice(docs)}}
            if privkey is not None:   # `gobl bulk` has no default key: the request carries it
                r["payload"]["privatekey"] = rng.choice([privkey] + list(ownkeys))
            elif ownkeys and rng.random() < 0.5:
                r["payload"]["privatekey"] = rng.choice(list(ownkeys))
        elif y < 0.86:
            r = {"action": "correct", "payload": {"data": rng.choice(docs),
                                                  "options": base64.b64encode(rng.choice([b'{"type":"credit-note"}', b'{"type":"corrective","reason":"x"}', b'{}'])).decode()}}
        elif y < 0.94:
            r = {"action": "replicate", "payload": {"data": rng.choice(docs)}}
        elif y < 0.97:
            r = {"action": "frobnicate", "payload": {"x": 1}}
        else:
            r = {"action": "sleep", "payload": "not-a-duration"}
        r["req_id"] = rid
        if rng.random() < 0.1:
            r["indent"] = True
        reqs.append(r)
    z = rng.random()
    if z < 0.7:
        return reqs, "", None
    bad = rng.choice([('{"req_id":"zz","action":5}', "zz"), ('{bad', ""), ('[1,2]', ""), ('{"action":"ping","req_id":7}', ""),
                      ('{"req_id":"q","payload":{"a":1},"action":"ping"} }', None)])
    line, pid = bad
    after = "\n" + canon({"action": "ping", "req_id": "after-the-error"}) + "\n"
    if pid is None:
        # a complete request followed by garbage: the request is served, the garbage ends the stream
        reqs.append({"action": "ping", "req_id": "q", "payload": {"a": 1}})
        return reqs, "}" + after, ""
    return reqs, line + after, pid


def stream_text(reqs, tail):
    return ("\n".join(json.dumps(r) for r in reqs) + "\n" + tail).encode()


def sha(s):
    return hashlib.sha1(s.encode()).digest()


SIGNED_OK = "the key the request was to be signed with (its own privatekey, else the default key)"


def sigcheck(sa, reqs, observed):
    """The signature bytes are fresh on every call and are projected away; what must be equal to the standalone operation
    is WHO signed: every successful sign result (bulk reply and standalone output alike) is verified against the public half
    of the request's key by harness/c15verify.go and labelled `_signed_by`."""
    items = []

    def want(r, payload):
        if isinstance(payload, dict) and isinstance(payload.get("sigs"), list) and "_signed_by" not in payload:
            items.append((payload, r["payload"].get("privatekey") or sa.defaultkey))

    for r in reqs:
        if r["action"] == "sign" and isinstance(r.get("payload"), dict):
            want(r, sa.expected(r)[0])
    for o in observed:
        j = o.get("seq_id") - 1 if isinstance(o.get("seq_id"), int) else -1
        if not o.get("is_final") and 0 <= j < len(reqs) and reqs[j]["action"] == "sign" and isinstance(reqs[j].get("payload"), dict):
            want(reqs[j], o.get("payload"))
    if not items:
        return
    inp = "".join(json.dumps({"env": pl, "key": key}) + "\n" for pl, key in items)
    p = subprocess.run([os.path.join(BIN, "vharness"), "c15verify"], input=inp, stdout=subprocess.PIPE, stderr=subprocess.PIPE,
                       text=True, timeout=300, env=GOENV)
    outs = [l for l in p.stdout.splitlines() if not l.startswith("WARNING conda")]
    for i, (pl, key) in enumerate(items):
        v = outs[i] if i < len(outs) else "verifier-failed"
        sa.sigchecks[v] = sa.sigchecks.get(v, 0) + 1
        pl["_signed_by"] = SIGNED_OK if v == "ok" else "NOT the request's key: the signature does not verify with its public half (%s)" % v


def judge_stream(c, sa, reqs, pid, observed):
    """Builds the oracle line for one observed output and a readable diagnosis."""
    sigcheck(sa, reqs, observed)
    exp = []
    for r in reqs:
        a = r["action"]
        if a == "frobnicate":
            e = (None, {"message": "unrecognized action: 'frobnicate'"})
        elif a == "sleep" and r.get("payload") == "not-a-duration":
            e = (None, {"message": None})
        else:
            e = sa.expected(r)
        exp.append(e)
    exp_bodies = []
    for r, (pl, er) in zip(reqs, exp):
        if er is not None and er.get("message", "") is None:
            exp_bodies.append("<any-error>")
        else:
            exp_bodies.append(body_of(r["action"], pl, er))
    by_seq = {}
    obs = []
    for o in observed:
        fin = bool(o.get("is_final"))
        seq = o.get("seq_id")
        if fin:
            b = "<decode-error>" if o.get("error") is not None else ""
            if o.get("payload") is not None:
                b = "<final-with-payload>"
        else:
            j = seq - 1 if isinstance(seq, int) else -1
            act = reqs[j]["action"] if 0 <= j < len(reqs) else ""
            b = body_of(act, o.get("payload"), o.get("error"))
            if 0 <= j < len(reqs) and exp_bodies[j] == "<any-error>" and o.get("error") is not None:
                b = "<any-error>"
        obs.append((o.get("req_id", ""), seq if isinstance(seq, int) and seq >= 0 else 0, b, fin))
    ending = "( )" if pid is None else "( %s %s )" % (w(pid), w(sha("<decode-error>")))
    line = "c15 accepts %s %s %s" % (
        wire_list(["( %s %s )" % (w(r["req_id"]), w(sha(b))) for r, b in zip(reqs, exp_bodies)], raw=True),
        ending,
        wire_list(["( %s %d %s %d )" % (w(rid), seq, w(sha(b) if b else b""), 1 if fin else 0) for rid, seq, b, fin in obs], raw=True))
    return line, exp_bodies, obs


def diagnose(reqs, pid, exp_bodies, obs):
    n = len(reqs)
    finals = [i for i, o in enumerate(obs) if o[3]]
    if len(finals) != 1:
        return "%d final markers in the output (exactly one expected)" % len(finals)
    if finals[0] != len(obs) - 1:
        return "the final marker is at output position %d of %d, before %d replies" % (finals[0] + 1, len(obs), len(obs) - 1 - finals[0])
    if obs[-1][1] != n + 1:
        return "final marker carries seq_id %s, expected %d (= number of requests + 1)" % (obs[-1][1], n + 1)
    if len(obs) != n + 1:
        return "%d replies for %d requests" % (len(obs) - 1, n)
    seqs = sorted(o[1] for o in obs[:-1])
    if seqs != list(range(1, n + 1)):
        return "reply seq_ids %s are not exactly 1..%d" % (seqs[:12], n)
    for rid, seq, b, fin in obs[:-1]:
        r = reqs[seq - 1]
        if rid != r["req_id"]:
            return "reply with seq_id %d carries req_id %r but request number %d has req_id %r" % (seq, rid, seq, r["req_id"])
        if b != exp_bodies[seq - 1]:
            return "reply seq_id %d (%s) differs from the standalone operation: bulk %s ... standalone %s" % (
                seq, r["action"], b[:300], exp_bodies[seq - 1][:300])
    exp_final = "" if pid is None else "<decode-error>"
    if obs[-1][2] != exp_final or obs[-1][0] != (pid or ""):
        return "final marker (req_id %r, body %r) differs from the expected (req_id %r, %r)" % (obs[-1][0], obs[-1][2], pid or "", exp_final)
    return "rejected by the acceptance predicate"


def bulk_streams(c, quick):
    tmp = os.path.join(WORK, "c15.%d" % os.getpid())
    os.makedirs(tmp, exist_ok=True)
    keyfile = os.path.join(tmp, "key.jwk")
    rc, out = sh([os.path.join(BIN, "gobl"), "keygen", "-f", keyfile], timeout=60)
    pubfile = os.path.join(tmp, "key.pub.jwk")
    if rc != 0 or not os.path.exists(pubfile):
        c.report("gobl keygen failed: " + out[-300:], {"machinery": "keygen"}, no_input=True)
        return
    pubkey = json.load(open(pubfile))
    srv = Server(keyfile)
    if os.environ.get("C15_NO_HTTP") == "1":
        srv.err = "C15_NO_HTTP=1 (forced)"
    if os.environ.get("C15_NO_HTTP") == "1" or not srv.start():
        why = getattr(srv, "err", "server did not start")
        srv = None
        # fall back to a `gobl bulk` command on stdin/stdout if cmd/gobl registers one
        p = subprocess.run([os.path.join(BIN, "gobl"), "bulk"], input=b'{"action":"ping","req_id":"probe"}\n',
                           stdout=subprocess.PIPE, stderr=subprocess.PIPE, timeout=60)
        try:
            probe = parse_stream(p.stdout.decode("utf-8", "replace"))
        except ValueError:
            probe = []
        if not (len(probe) == 2 and probe[-1].get("is_final")):
            c.assumptions.append("bulk streams NOT run: " + why + "; and cmd/gobl registers no `bulk` command to fall back to "
                                 "(cmd/gobl/bulk.go defines bulkOpts.runE but root.go does not add it)")
            c.cov["bulk"] = {"streams": 0, "transport": "none"}
            sh("rm -rf " + tmp)
            return
        c.assumptions.append("bulk streams over HTTP NOT run: " + why + "; falling back to `gobl bulk` on stdin/stdout")
    try:
        _bulk_streams(c, quick, srv, keyfile, pubfile, pubkey, tmp)
    finally:
        if srv:
            srv.stop()
        sh("rm -rf " + tmp)


def run_bulk(srv, body, keepalive=False):
    if srv is not None:
        if not srv.alive():
            srv.start()
        st, text = srv.bulk(body, keepalive=keepalive)
        return text
    p = subprocess.run([os.path.join(BIN, "gobl"), "bulk"], input=body, stdout=subprocess.PIPE, stderr=subprocess.PIPE, timeout=300)
    return p.stdout.decode("utf-8", "replace")


def _bulk_streams(c, quick, srv, keyfile, pubfile, pubkey, tmp):
    rng = c.rng
    sa = Standalone(keyfile, pubfile, tmp)
    files = []
    for pat in ("examples/*/out/*.json", "regimes/*/examples/out/*.json", "note/examples/out/*.json"):
        files += sorted(glob_repo(pat))
    pick = rng.sample(files, min(len(files), 8 if quick else 30))
    docs = [base64.b64encode(open(f, "rb").read()).decode() for f in pick]
    # one invalid document (validation error through every path) and signed ones for verify
    bad = json.loads(open(pick[0]).read())
    if isinstance(bad.get("doc"), dict):
        bad["doc"].pop("supplier", None)
    docs.append(base64.b64encode(json.dumps(bad).encode()).decode())
    signed = []
    for d in docs[:3]:
        rc, out, err = sa.cli(["sign", "-k", keyfile], base64.b64decode(d))
        if rc == 0:
            signed.append(base64.b64encode(out.encode()).decode())
    # keys of their own for sign requests (never the default key: whose key signed a reply is then decidable)
    ownkeys = []
    for k in range(3):
        f = os.path.join(tmp, "req%d.jwk" % k)
        rc, out = sh([os.path.join(BIN, "gobl"), "keygen", "-f", f], timeout=60)
        if rc == 0 and os.path.exists(f):
            ownkeys.append(json.load(open(f)))
    nstreams = 40 if quick else 600
    cases = []
    for k in range(nstreams):
        n = rng.randint(5, 60) if quick or rng.random() < 0.9 else rng.randint(100, 400)
        if k < 2:
            n = 1600 if k == 0 else 700     # long streams (several MiB in total): limits that accumulate over a stream show only here
        reqs, tail, pid = gen_stream(rng, docs, signed, pubkey, n, None if srv else json.load(open(keyfile)), ownkeys)
        cases.append((reqs, tail, pid))
    lines, metas = [], []
    reordered = 0
    t0 = time.time()
    results = [None] * len(cases)

    def post(i):
        reqs, tail, pid = cases[i]
        try:
            results[i] = parse_stream(run_bulk(srv, stream_text(reqs, tail), keepalive=(i % 2 == 1)))   # every other stream as a keep-alive client
        except Exception as e:  # noqa
            results[i] = e

    # a few streams at a time: concurrent bulk requests share the server process
    par = 4
    for s in range(0, len(cases), par):
        ths = [threading.Thread(target=post, args=(i,)) for i in range(s, min(s + par, len(cases)))]
        [t.start() for t in ths]
        [t.join() for t in ths]
    for i, (reqs, tail, pid) in enumerate(cases):
        observed = results[i]
        if isinstance(observed, Exception):
            c.report("bulk stream could not be read back: %r" % observed, {"stream": stream_text(reqs, tail).decode()})
            continue
        line, exp_bodies, obs = judge_stream(c, sa, reqs, pid, observed)
        lines.append(line)
        metas.append((reqs, tail, pid, exp_bodies, obs, observed))
        seqs = [o[1] for o in obs if not o[3]]
        if seqs != sorted(seqs):
            reordered += 1
        c.count("bulk-streams", 1, i)
        c.count("bulk-requests", len(reqs))
    verdicts = run_oracle(lines, shards=1)
    rejected = 0
    for v, (reqs, tail, pid, exp_bodies, obs, observed) in zip(verdicts, metas):
        if v.strip() == "1":
            continue
        rejected += 1
        if rejected > 3:
            continue
        why = diagnose(reqs, pid, exp_bodies, obs)
        small = shrink_stream(c, srv, sa, reqs, tail, pid) if rejected == 1 else None
        rep = {"stream": stream_text(reqs, tail).decode(), "ending": "eof" if pid is None else "decode-error(req_id=%r)" % pid,
               "observed": [{"req_id": o[0], "seq_id": o[1], "is_final": o[3]} for o in obs], "why": why,
               "oracle_verdict": v, "rerun": "tools/check C15 --replay <this file>"}
        if small:
            rep["minimised_stream"] = small[0]
            rep["minimised_why"] = small[1]
        c.report("bulk output is produced by NO schedule of the model (%d requests): %s" % (len(reqs), small[1] if small else why), rep)
    c.cov["bulk"] = {"streams": len(metas), "requests": sum(len(m[0]) for m in metas), "streams_with_reordered_replies": reordered,
                     "streams_ending_in_decode_error": sum(1 for m in metas if m[2] is not None), "rejected": rejected,
                     "standalone_cli_invocations": sa.n,
                     "sign_requests": {"own_key": sum(1 for m in metas for r in m[0] if r["action"] == "sign" and "privatekey" in r["payload"]),
                                       "default_key": sum(1 for m in metas for r in m[0] if r["action"] == "sign" and "privatekey" not in r["payload"]),
                                       "streams_mixing_both": sum(1 for m in metas if len({"privatekey" in r["payload"] for r in m[0] if r["action"] == "sign"}) == 2),
                                       "signature_verifications": dict(sa.sigchecks)},
                     "transport": "HTTP POST /bulk on 127.0.0.1 (alternately Connection: close and keep-alive)" if srv else "gobl bulk (stdin)",
                     "largest_stream_bytes": max([len(stream_text(m[0], m[1])) for m in metas] or [0]), "wall_s": round(time.time() - t0, 1)}
    if metas:
        c.sample({"bulk_stream_requests": len(metas[0][0]), "observed_seq_order": [o[1] for o in metas[0][4]][:20]})
    if reordered == 0 and metas:
        c.assumptions.append("no stream showed reordered replies in this run (latencies did not force reordering)")


def glob_repo(pat):
    import glob
    return glob.glob(os.path.join(REPO, pat))


def shrink_stream(c, srv, sa, reqs, tail, pid):
    """Removes requests while the output keeps being rejected (a few reruns)."""
    cur = list(reqs)
    why = None
    tries = 0

    def fails(rs):
        nonlocal why, tries
        tries += 1
        if srv is not None:     # a fresh server per attempt: what an earlier stream did to the process must not count for this one
            srv.stop()
            srv.start()
        try:
            observed = parse_stream(run_bulk(srv, stream_text(rs, tail)))
        except Exception:  # noqa
            return False
        line, eb, obs = judge_stream(c, sa, rs, pid, observed)
        v = run_oracle([line], shards=1)[0].strip()
        if v != "1":
            why = diagnose(rs, pid, eb, obs)
            return True
        return False
    chunk = max(1, len(cur) // 2)
    while chunk >= 1 and tries < 24:
        i = 0
        progressed = False
        while i < len(cur) and tries < 24:
            cand = cur[:i] + cur[i + chunk:]
            if len(cand) >= 1 and fails(cand):
                cur = cand
                progressed = True
            else:
                i += chunk
        if not progressed:
            chunk //= 2
    if why is None:
        return None
    return stream_text(cur, tail).decode(), why


# ----------------------------------------------------------------------------------------------
# (c) race-detector stress (support, not proof)
# ----------------------------------------------------------------------------------------------

def race_stress(c, quick):
    env = dict(GOENV, CGO_ENABLED="1")
    exe = os.path.join(BIN, "c15race")
    with Lock("go"):
        rc, out = sh("go build -race -tags verif -o %s ./c15race" % exe, cwd=os.path.join(VERIF, "harness"), env=env, timeout=900)
    if rc != 0:
        c.assumptions.append("race-detector stress NOT run: go build -race failed (cgo/gcc needed): " + out[-300:])
        return
    budget = 12 if quick else 240
    t0 = time.time()
    p = subprocess.run([exe, REPO, str(c.seed), str(budget)], stdout=subprocess.PIPE, stderr=subprocess.PIPE, text=True,
                       timeout=budget * 6 + 300, env=dict(env, GORACE="halt_on_error=0 exitcode=66"))
    recs = [json.loads(l) for l in p.stdout.splitlines() if l.startswith("{")]
    tot = next((r for r in recs if r["type"] == "totals"), None)
    blocks = [b for b in p.stderr.split("==================") if "WARNING: DATA RACE" in b]
    if tot is None:
        c.report("race stress program did not finish (rc %s): %s" % (p.returncode, p.stderr[-600:]), {"machinery": "c15race"}, no_input=True)
        return
    c.count("race-stress-operations", tot["operations"])
    c.cov["race_stress"] = dict(tot, race_reports=len(blocks), wall_s=round(time.time() - t0, 1),
                                gomaxprocs=[1, 2, 4, 16], note="support only: the race detector is sampling")
    for b in blocks:
        tops = []
        for sec in re.split(r"\n\n", b):
            if re.match(r"\s*(Write|Read|Previous write|Previous read|Atomic|Previous atomic)", sec.strip()):
                fr = re.findall(r"^\s+(github\.com/invopop/gobl[^\s]*)\(\)", sec, re.M)
                tops.append(fr[0] if fr else "?")
        known = tops and all(t == "github.com/invopop/gobl/tax.(*TagSet).Merge" for t in tops)
        c.report("data race reported by the race detector between %s" % " and ".join(tops),
                 {"race_report": b.strip()[:6000], "seed": c.seed,
                  "rerun": "GORACE=halt_on_error=0 bin/c15race %s %d %d" % (REPO, c.seed, budget)},
                 finding_id=FID if known else None)
    for r in recs:
        if r["type"] == "diff":
            c.report("concurrent result differs from the sequential result for %s at GOMAXPROCS=%s" % (r["workload"], r["gomaxprocs"]),
                     {"workload": r["workload"], "document": r["data"], "sequential": r["sequential"][:3000],
                      "concurrent": r["concurrent"][:3000]})


# ----------------------------------------------------------------------------------------------

def run(c):
    quick = c.tier == "quick"
    if not std_builds(c, cli=True):
        return
    proved = c.prove()
    ok, out = build_oracle()
    if not ok:
        c.report("extraction/oracle build failed: " + out[-800:], {"machinery": "oracle"}, no_input=True)
        return
    # the extracted predicate agrees with vm_compute on a few fixed cases
    fixed = ["c15 accepts ( ( x61 x41 ) ( x62 x42 ) ) ( ) ( ( x62 2 x42 0 ) ( x61 1 x41 0 ) ( x 3 x 1 ) )",
             "c15 accepts ( ( x61 x41 ) ( x62 x42 ) ) ( ) ( ( x62 1 x42 0 ) ( x61 2 x41 0 ) ( x 3 x 1 ) )",
             "c15 accepts ( ( x61 x41 ) ) ( x7a x45 ) ( ( x61 1 x41 0 ) ( x7a 2 x45 1 ) )",
             "c15 schedule ( ( x61 x41 ) ( x62 x42 ) ) ( ) ( ( x62 2 x42 0 ) ( x61 1 x41 0 ) ( x 3 x 1 ) )",
             "c15 tags 0 ( 1 2 ) 4 ( ( 7 ) )", "c15 tags 1 ( 1 2 ) 4 ( ( 7 ) )"]
    try:
        a, b = coq_eval(fixed), run_oracle(fixed, shards=1)
        c.cov["vm_compute_crosscheck"] = {"cases": len(fixed), "differences": sum(1 for x, y in zip(a, b) if x != y)}
        if a != b or b[0] != "1" or b[1] != "0" or b[2] != "1":
            c.report("extracted acceptance predicate disagrees with vm_compute or with the fixed cases: %r vs %r" % (a, b),
                     {"machinery": "oracle"}, no_input=True)
    except Exception as e:  # noqa
        c.report("vm_compute cross-check failed: %r" % e, {"machinery": repr(e)}, no_input=True)
    snapshot_sweep(c, quick)
    equiv_sweep(c, quick)
    bulk_streams(c, quick)
    race_stress(c, quick)
    c.cov["rule"] = ("snapshot: one workload = one document (every example output + a synthetic invoice per regime x addon and seeded "
                     "addon pairs) run through parse/calculate/validate/correct/replicate/sign with a deep registry snapshot after "
                     "each; result equivalence: one workload = one document (examples, synthetic invoices, FULL invoices/orders/payments/"
                     "deliveries per add-on and ordered add-on pair x payment means key) calculated in three orders in fresh processes; "
                     "bulk: one stream = 5..60 (thorough: up to 400) requests of mixed actions and sleep latencies (sign requests: half "
                     "with their own private key, half with the server's default key; every signature verified against the key it was "
                     "to be made with), 30% ending in a decode error, judged by the extracted acceptance predicate; distinct = distinct workloads / streams; "
                     "race stress operations are counted but are support, not part of the correspondence")
    if not proved:
        pr = c.proof
        c.report("proof obligations of Props/C15.v no longer check: " + (pr.get("make_log") or pr.get("log", ""))[-600:],
                 {"theorem": "rocq/Props/C15.v", "failed_files": pr.get("failed_files"), "forbidden": pr.get("forbidden")},
                 no_input=True)


def replay(path):
    r = json.load(open(path))["replay"]
    if "stream" not in r:
        print(json.dumps(r, indent=1)[:3000])
        return 0
    build_cli()
    c = Check("C15", "quick", 0)
    tmp = os.path.join(WORK, "c15r.%d" % os.getpid())
    os.makedirs(tmp, exist_ok=True)
    keyfile = os.path.join(tmp, "key.jwk")
    sh([os.path.join(BIN, "gobl"), "keygen", "-f", keyfile])
    srv = Server(keyfile)
    srv.start()
    try:
        text = (r.get("minimised_stream") or r["stream"]).encode()
        out = run_bulk(srv, text)
        print(out)
        try:   # who signed the sign replies
            reqs = [json.loads(l) for l in text.decode().splitlines() if l.startswith("{")]
            reqs = [q for q in reqs if isinstance(q, dict) and isinstance(q.get("action"), str)]
            obs = parse_stream(out)
            sigcheck(Standalone(keyfile, keyfile, tmp), reqs, obs)
            for o in obs:
                if isinstance(o.get("payload"), dict) and "_signed_by" in o["payload"]:
                    print("seq_id %s req_id %s signed by: %s" % (o.get("seq_id"), o.get("req_id"), o["payload"]["_signed_by"]))
        except Exception as e:  # noqa
            print("signature check not possible: %r" % e)
    finally:
        srv.stop()
        sh("rm -rf " + tmp)
    return 0
