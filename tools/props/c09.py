"""C09 - signature verification accepts exactly what was signed, on every path.

Every case = a signed envelope (three ways of signing), a post-signing modification of the header,
the document or the signature list, and a key; the resulting envelope is presented to
Envelope.Verify (library), `gobl verify -k` (the binary), POST /bulk {"action":"verify"} and
POST /verify of a loopback `gobl serve` (harness/c09.go).  The verdict classes must equal the
model's (Env/Lifecycle.v: verify, cli_verify, variant "repaired") and each other, and - oracle P,
independent of the model - success is allowed only if the generator KNOWS by construction that
everything the key holder signed is still in the header (and must happen then).

Stream "sequence": the verdict on a request must not depend on what the process answered before.  The
stages of ONE envelope's life (signed; then modified once, twice - every stage carries the original
signature) are presented as an ordered series of requests (stage, key) to the long-lived processes:
POST /bulk and POST /verify of one `gobl serve`, one request each, and afterwards all together as one
bulk stream in the body of a single POST /bulk ("bulk-batch"; harness op c09seq).  Every single answer is judged exactly like a one-shot presentation (same oracle P,
same model verdict, agreement with the fresh `gobl verify` process and the library)."""
import shutil
import time
from vlib import *
import vlib
from envops import *
from c10 import load_corpus, parse_case_line

TRUSTED = [
    "symbolic signatures: ES256 unforgeability and go-jose correctness are the shape of Env/Sig.v (Sig k h), not proved",
    "bulk and HTTP verification are the same Go function as the command line (internal/cli.Verify): the model has one verdict for the three, the check observes all three",
    "sha256 is treated as collision-free by the correspondence (verify_after_recalc_fails states the collision case)",
    "outside the model: per-element validation of stamps and links, uuid version rules, YAML input; a link's title/description/mime are part of the model's opaque link value (harness/c10.go envLink)",
]

FX_REPAIRED = 3      # bit 0 = fix9, bit 1 = fix10
F9 = "C09-9-cli-verify-ignores-signed-header"
F10 = "C09-10-empty-signature-entry-accepted"
KEYS = [0, 1, 2, -1]

# symbolic link values name the WHOLE link: "<url>~T<title>~D<description>~M<mime>" (harness/c10.go envLink)
def lv(url="e", title="t1", desc="d1", mime="application/pdf"):
    return "~".join([url] + [t + v for t, v in (("T", title), ("D", desc), ("M", mime)) if v])


L3 = lv()

# ---- three ways the envelope got signed (what the signature of key 0 covers) ----
PREFIX = {
    # everything coverable is covered: stamp p1, link l1, tag t1, meta m1, notes
    # (link l1 is a bare key+url, link l3 has title, description and mime)
    "full": [(STAMP, "p1", "v1"), (LINK, "l1", "a"), (LINK, "l3", L3), (TAG, "t1"), (META, "m1", "x"), (NOTES, "n1"), (SIGN, 0)],
    # only identifier and digest are covered
    "min": [(SIGN, 0)],
    # the key holder signed a header without digest (Contains then ignores the digest): not even the digest is covered
    "nodig": [(NILDIG,), (RAWSIGN, 0), (CALC,)],
}

# ---- post-signing modifications -------------------------------------------------------------
# (name, field, ops, breaks: set of prefixes under which a COVERED entry is altered or removed,
#  signers after it (None = unchanged), flags)
def M(name, field, ops, breaks=(), signers=None, garbage=False, nil=False, single=False, first_garbage=False):
    return dict(name=name, field=field, ops=ops, breaks=set(breaks), signers=signers, garbage=garbage, nil=nil, single=single,
                first_garbage=first_garbage)


ALLP = ("full", "min", "nodig")
MODS = [
    M("none", "none", []),
    # uuid: always covered
    M("uuid-alter", "uuid", [(SETUUID, "u1")], ALLP),
    M("uuid-remove", "uuid", [(SETUUID, "")], ALLP),
    # digest: covered unless the signed header had none
    M("dig-alter-value", "dig", [(SETDIG, "sha256", "bogus")], ("full", "min")),
    M("dig-alter-alg", "dig", [(SETDIG, "md5", "bogus")], ("full", "min")),
    M("dig-remove", "dig", [(NILDIG,)], ("full", "min"), nil=True),
    # stamps
    M("stamp-add-uncovered", "stamps", [(STAMP, "p2", "w1")]),
    M("stamp-alter-covered", "stamps", [(STAMP, "p1", "v2")], ("full",)),
    M("stamp-remove-covered", "stamps", [(RMSTAMP, "p1")], ("full",)),
    M("stamp-alter-uncovered", "stamps", [(STAMP, "p2", "w1"), (STAMP, "p2", "w2")]),
    M("stamp-remove-uncovered", "stamps", [(STAMP, "p2", "w1"), (RMSTAMP, "p2")]),
    M("stamp-null-entry", "stamps", [(NULLSTAMP,)], nil=True),
    # links
    M("link-add-uncovered", "links", [(LINK, "l2", "c")]),
    M("link-alter-covered", "links", [(LINK, "l1", "b")], ("full",)),
    M("link-remove-covered", "links", [(RMLINK, "l1")], ("full",)),
    M("link-alter-uncovered", "links", [(LINK, "l2", "c"), (LINK, "l2", "d")]),
    M("link-remove-uncovered", "links", [(LINK, "l2", "c"), (RMLINK, "l2")]),
    M("link-null-entry", "links", [(NULLLINK,)], nil=True),
    # every detail of a covered link is part of the signed header: url, title, description, mime
    M("link-url-alter-covered-detailed", "links", [(LINK, "l3", lv(url="f"))], ("full",)),
    M("link-title-alter-covered", "links", [(LINK, "l3", lv(title="t2"))], ("full",)),
    M("link-title-remove-covered", "links", [(LINK, "l3", lv(title=""))], ("full",)),
    M("link-description-alter-covered", "links", [(LINK, "l3", lv(desc="d2"))], ("full",)),
    M("link-description-remove-covered", "links", [(LINK, "l3", lv(desc=""))], ("full",)),
    M("link-mime-alter-covered", "links", [(LINK, "l3", lv(mime="text/html"))], ("full",)),
    M("link-mime-remove-covered", "links", [(LINK, "l3", lv(mime=""))], ("full",)),
    M("link-title-add-covered", "links", [(LINK, "l1", "a~Tt9")], ("full",)),
    M("link-description-add-covered", "links", [(LINK, "l1", "a~Dd9")], ("full",)),
    M("link-mime-add-covered", "links", [(LINK, "l1", "a~Mtext/html")], ("full",)),
    M("link-same-value-again-covered", "links", [(LINK, "l3", L3)]),
    M("link-title-alter-then-restore-covered", "links", [(LINK, "l3", lv(title="t2")), (LINK, "l3", L3)]),
    M("link-details-swapped-covered", "links", [(LINK, "l3", lv(title="d1", desc="t1"))], ("full",)),
    M("link-raw-duplicate-with-other-title", "links", [(RMLINK, "l3"), (RAWLINK, "l3", lv(title="t2"))], ("full",)),
    M("link-title-alter-uncovered", "links", [(LINK, "l2", lv(url="c")), (LINK, "l2", lv(url="c", title="t2"))]),
    # tags
    M("tag-add-uncovered", "tags", [(TAG, "t2")]),
    M("tag-alter-covered", "tags", [(RMTAG, "t1"), (TAG, "t9")], ("full",)),
    M("tag-remove-covered", "tags", [(RMTAG, "t1")], ("full",)),
    M("tag-remove-uncovered", "tags", [(TAG, "t2"), (RMTAG, "t2")]),
    # meta
    M("meta-add-uncovered", "meta", [(META, "m2", "y")]),
    M("meta-alter-covered", "meta", [(META, "m1", "z")], ("full",)),
    M("meta-remove-covered", "meta", [(RMMETA, "m1")], ("full",)),
    M("meta-alter-uncovered", "meta", [(META, "m2", "y"), (META, "m2", "z")]),
    M("meta-remove-uncovered", "meta", [(META, "m2", "y"), (RMMETA, "m2")]),
    # notes: covered when they were not empty at signing time
    M("notes-alter", "notes", [(NOTES, "n2")], ("full",)),
    M("notes-remove", "notes", [(NOTES, "")], ("full",)),
    M("notes-set-then-alter", "notes", [(NOTES, "n3"), (NOTES, "n4")], ("full",)),
    # document
    M("doc-edit-no-recalc", "doc", [(EDIT,)]),                                   # header untouched: Validate refuses
    M("doc-edit-recalc", "doc", [(EDIT,), (CALC,)], ("full", "min")),
    M("doc-code-toggle-recalc", "doc", [(CODE,), (CALC,)], ("full", "min")),
    M("doc-code-twice-recalc", "doc", [(CODE,), (CALC,), (CODE,), (CALC,)]),      # same document again
    M("doc-replaced", "doc", [(INSERT, 1)], ("full", "min")),
    M("doc-reparse", "doc", [(REPARSE,)]),
    # signature list
    M("sigs-second-signer", "sigs", [(SIGN, 1)], signers=[0, 1]),
    M("sigs-second-signer-swapped", "sigs", [(SIGN, 1), (SWAPSIGS,)], signers=[1, 0]),
    M("sigs-duplicate", "sigs", [(DUPSIG,)], signers=[0, 0]),
    M("sigs-foreign-appended", "sigs", [(RAWSIGN, 1)], signers=[0, 1]),
    M("sigs-foreign-instead", "sigs", [(DROPSIG,), (RAWSIGN, 1)], signers=[1]),
    M("sigs-removed", "sigs", [(DROPSIG,)], signers=[]),
    M("sigs-unsign", "sigs", [(UNSIGN,)], signers=[]),
    M("sigs-empty-string-appended", "sigs", [(EMPTYSIG,)], garbage=True),
    M("sigs-empty-string-first", "sigs", [(EMPTYSIG,), (SWAPSIGS,)], garbage=True, first_garbage=True),
    M("sigs-null-appended", "sigs", [(NULLSIG,)], garbage=True),
    # the key holder also signed a header with a stamp that is gone now; the original signature was dropped
    M("sigs-other-header-signed", "sigs", [(STAMP, "p3", "q"), (RAWSIGN, 0), (RMSTAMP, "p3"), (DROPSIG,)], ALLP, signers=[0], single=True),
    # header
    M("head-removed", "head", [(NILHEAD,)], ALLP, nil=True),
]


def par_go(lines, n=12):
    """run_go shards only above 2000 lines; these lines are expensive (process spawns, HTTP), so
    split them over n harness processes (each starts its own loopback server)."""
    from concurrent.futures import ThreadPoolExecutor
    if len(lines) < 2 * n:
        return run_go(lines, shards=1)
    k = (len(lines) + n - 1) // n
    chunks = [lines[i:i + k] for i in range(0, len(lines), k)]
    with ThreadPoolExecutor(len(chunks)) as ex:
        res = list(ex.map(lambda ch: run_go(ch, shards=1), chunks))
    return [x for r in res for x in r]


def klass(v):
    return v if v in ("ok", "panic", "skip", "marshal") else "reject"


def make_case(prefix, mods):
    ops = list(PREFIX[prefix])
    signers, broken, garbage, nil, fg = [0], False, False, False, False
    for m in mods:
        fg = fg or m["first_garbage"]
        ops += m["ops"]
        broken = broken or prefix in m["breaks"]
        garbage = garbage or m["garbage"]
        nil = nil or m["nil"]
        if m["signers"] is not None:
            signers = m["signers"]
    return dict(prefix=prefix, names=[m["name"] for m in mods], ops=ops, signers=signers, broken=broken, garbage=garbage, nil=nil,
                first_garbage=fg)


def expected_accept(case, k):
    """By construction: is everything every signature covers still in the header, and is every
    signature by the presented key (no key: contents only)?"""
    if case["broken"] or case["garbage"] or not case["signers"]:
        return False
    return k < 0 or all(s == k for s in case["signers"])


RANK = {"doc": 0, "dig": 2, "sigs": 3}


def ordered(mods):
    return sorted(mods, key=lambda m: RANK.get(m["field"], 1))


def gen(c, quick):
    cases = []
    singles = [m for m in MODS]
    for p in PREFIX:
        for m in singles:
            cases.append(("single", make_case(p, [m])))
    pairs = [(a, b) for a in MODS for b in MODS
             if a["field"] != b["field"] and "none" not in (a["field"], b["field"]) and not a["single"] and not b["single"]
             and not (a["field"] == "head" or b["field"] == "head")
             and not (a["field"] == "sigs" and b["field"] == "sigs")]
    # order inside a case: document edits first (a recalculation rewrites the digest), digest edits after them,
    # signature-list edits last (they read the header as it is then)
    pairs = [tuple(ordered([a, b])) for a, b in pairs]
    # a signature made AFTER a modification covers the modified header: keep those out of P's simple rule
    pairs = [(a, b) for a, b in pairs if not (b["field"] == "sigs" and any(o[0] in (RAWSIGN, SIGN) for o in b["ops"]))]
    seen, uniq = set(), []
    for a, b in pairs:
        key = (a["name"], b["name"])
        if key not in seen:
            seen.add(key)
            uniq.append((a, b))
    c.rng.shuffle(uniq)
    n = 450 if quick else len(uniq)
    for i, (a, b) in enumerate(uniq[:n]):
        for p in (PREFIX if not quick else [list(PREFIX)[i % 3]]):
            cases.append(("pair", make_case(p, [a, b])))
    if not quick:
        trip = [(a, b, d) for (a, b) in uniq[:400] for d in MODS
                if d["field"] not in (a["field"], b["field"], "none", "head", "sigs") and not d["single"]]
        c.rng.shuffle(trip)
        for a, b, d in trip[:3000]:
            cases.append(("triple", make_case(c.rng.choice(list(PREFIX)), ordered([a, b, d]))))
    return cases, gen_seq(c, quick, uniq)


NONE = MODS[0]


def gen_seq(c, quick, uniq):
    """Series of requests about ONE envelope's stages: (prefix, [mods of stage 1, 2, ...], [(stage, key) ...]).
    Stage 0 is the envelope as signed; stage i carries the signatures of stage 0 and the first i modifications.
    Two-stage series for every way of signing x every modification of MODS: the modified envelope before and
    after the genuine one was accepted, the genuine one with another key (or none) after it was accepted with the
    right one, and both once more at the end.  Three-stage series for seed-chosen pairs in a seed-chosen order."""
    seqs = []
    for p in PREFIX:
        for m in MODS[1:]:
            k2 = c.rng.choice([1, 2, -1])
            seqs.append((p, [m], [(1, 0), (0, 0), (1, 0), (0, k2), (1, k2), (0, 0), (1, 0)]))
    n = 45 if quick else 400
    for i, (a, b) in enumerate(uniq[:n]):
        p = list(PREFIX)[i % 3]
        reqs = [(c.rng.randrange(3), c.rng.choice([0, 0, 0, 1, 2, -1])) for _ in range(8)]
        reqs.insert(c.rng.randrange(3), (0, 0))
        seqs.append((p, [a, b], reqs))
    return seqs


def c09seq_line(fx, base, stage_ops, reqs):
    return "c09seq %d %d ( %s ) ( %s )" % (fx, base, " ".join(wops(o) for o in stage_ops), " ".join(w([s, k]) for s, k in reqs))


def run_sequences(c, seqs):
    """Every answer of a series is judged like a one-shot presentation of that stage with that key."""
    lines, metas, mlines = [], [], []
    for p, mods, reqs in seqs:
        stage_ops = [list(PREFIX[p])] + [list(m["ops"]) for m in mods]
        lines.append(c09seq_line(FX_REPAIRED, 0, stage_ops, reqs))
        stage_cases = [make_case(p, [NONE] + mods[:i]) if i == 0 else make_case(p, mods[:i]) for i in range(len(mods) + 1)]
        metas.append((p, mods, reqs, stage_cases))
        for cs in stage_cases:
            mlines.append(c09_line(FX_REPAIRED, 0, cs["ops"], KEYS))
    t = time.time()
    go = par_go(lines)
    mo = run_oracle(mlines, shards=16, min_shard=64)
    c.cov["sequence_go_seconds"] = round(time.time() - t, 1)
    mi = 0
    for (p, mods, reqs, stage_cases), l, g in zip(metas, lines, go):
        vs = parse_wire(g)
        ok = len(vs) == 2 and len(vs[0]) == len(reqs) and len(vs[1]) == len(stage_cases) and all(isinstance(r, list) and len(r) == 6 for r in vs[0])
        mrows = [parse_out(mo[mi + i], len(KEYS)) for i in range(len(stage_cases))]
        mops = [op_outcomes(mo[mi + i]) for i in range(len(stage_cases))]
        mi += len(stage_cases)
        if not ok or any(r is None for r in mrows):
            c.count("sequence", 1)
            c.report("harness or model could not run the series: %s -> %s" % (l, g), {"case": l}, no_input=True)
            continue
        rows = [[x.decode() for x in r] for r in vs[0]]
        deltas = [[x.decode() for x in st] for st in vs[1]]
        names = ["signed"] + ["+".join(m["name"] for m in mods[:i]) for i in range(1, len(mods) + 1)]
        order = ", ".join("%s with %s" % (names[s], "no key" if k < 0 else "key %d" % k) for s, k in reqs)
        # the same envelope with the same key: the same answer, whatever was asked before
        first = {}
        for i, ((s, k), r) in enumerate(zip(reqs, rows)):
            j, r0 = first.setdefault((s, k), (i, r))
            for name, col in (("bulk", 3), ("http", 4), ("bulk-batch", 5)):
                if klass(r[col]) != klass(r0[col]):
                    c.report("%s verification answers the same request differently inside one process: envelope [%s] (signed: %s; modification: %s) "
                             "with %s is request %d (%s) and request %d (%s) of the series [%s]"
                             % (name, show(stage_cases[s]["ops"]), p, names[s], "no key" if k < 0 else "key %d" % k, j + 1, r0[col], i + 1, r[col], order),
                             {"case": l, "series": order, "requests": [j + 1, i + 1], "answers": [r0[col], r[col]], "path": name,
                              "rerun": "tools/check C09 --replay <this file>"})
        for s, cs in enumerate(stage_cases):
            idx = [i for i, (st, _) in enumerate(reqs) if st == s]
            if not idx:
                continue
            ks = [reqs[i][1] for i in idx]
            go_ops = [x for d in deltas[:s + 1] for x in d]
            seq = dict(line=l, order=order, pos=idx,
                       distinct=[(p, tuple(m["name"] for m in mods), s, reqs[i][1], tuple(reqs[:i])) for i in idx])
            judge_and_compare(c, "sequence", cs, [rows[i] for i in idx], [mrows[s][KEYS.index(k)] for k in ks], l, go_ops, mops[s], keys=ks, seq=seq)
    if seqs:
        p, mods, reqs, _ = metas[0]
        c.sample({"stream": "sequence", "signed": p, "stages": ["signed"] + [m["name"] for m in mods], "requests (stage, key)": reqs,
                  "per request: validate, lib, cli, bulk, http, bulk-batch": [[x.decode() for x in r] for r in parse_wire(go[0])[0]]})
    c.cov["sequences"] = len(seqs)


def corpus_case(line):
    """corpus lines carry their own expectation: '# expect: signers=0 broken=1 garbage=0 nil=0'"""
    return line


def parse_out(line, n):
    vs = parse_wire(line)
    if len(vs) != 2 or len(vs[0]) != n or not all(isinstance(r, list) for r in vs[0]):
        return None
    return [[x.decode() for x in row] for row in vs[0]]


def op_outcomes(line):
    vs = parse_wire(line)
    return [x.decode() for x in vs[1]] if len(vs) == 2 else []


def judge_and_compare(c, stream, case, go_rows, mo_rows, line, go_ops, mo_ops, keys=KEYS, seq=None):
    """seq (stream "sequence"): the rows are requests of an ordered series presented to long-lived processes;
    seq = dict(line=<c09seq line>, order=<text>, pos=[index of each row in the series], distinct=[counting key per row])."""
    ops = case["ops"]
    # a surgery the implementation refuses to parse did not happen: the envelope is the one before it
    applied = [o[0] for o, r in zip(ops, go_ops) if r == "ok"]
    case = dict(case)
    if case["garbage"] and not ({EMPTYSIG, NULLSIG} & set(applied)):
        case["garbage"] = case["first_garbage"] = False
    if go_ops != mo_ops and not (seq and seq.get("ops_reported")):
        c.report("implementation and model differ on the outcomes of the operations building the envelope [%s]: %s vs %s"
                 % (show(ops), go_ops, mo_ops), {"case": c10_line(FX_REPAIRED, 0, ops), "implementation": go_ops, "model": mo_ops},
                 finding_id=(F10 if EMPTYSIG in {o[0] for o in ops} else None))
    hist = show(ops)
    codes = {o[0] for o in ops}
    for ri, (k, g, m) in enumerate(zip(keys, go_rows, mo_rows)):
        val, lib, cli, bulk, web = g[:5]
        batch = g[5] if len(g) > 5 else "skip"
        nontrivial = (case["prefix"], tuple(case["names"]), k) if not seq else seq["distinct"][ri]
        c.count(stream, 1, nontrivial)
        for name, v in (("lib", lib), ("cli", cli), ("bulk", bulk), ("http", web), ("bulk-batch", batch)):
            if v != "skip":
                c.cov["entry_point_verdicts"][name] = c.cov["entry_point_verdicts"].get(name, 0) + 1
        acc = expected_accept(case, k)
        kname = "no key" if k < 0 else "key %d" % k
        ctx = "envelope [%s] (signed: %s; modification: %s) presented with %s" % (hist, case["prefix"], "+".join(case["names"]), kname)
        if seq:
            ctx += "; request %d of the series [%s] answered by one `gobl serve` (bulk, http: one request each, in this order; bulk-batch: all in one POST /bulk body)" % (
                seq["pos"][ri] + 1, seq["order"])
        rep = {"case": c09_line(FX_REPAIRED, 0, ops, [k]) if not seq else seq["line"], "history": [show_op(o) for o in ops], "key": k,
               "implementation": dict(validate=val, library=lib, cli=cli, bulk=bulk, http=web, **({"bulk-batch": batch} if seq else {})),
               "model": dict(validate=m[0], library=m[1], cli=m[2]),
               "expected_by_construction": "accept" if acc else "reject",
               "rerun": "tools/check C09 --replay <this file>"}
        first_by_k = bool(case["signers"]) and case["signers"][0] == k and not case.get("first_garbage")
        cli_paths = [("cli", cli), ("bulk", bulk), ("http", web)] + ([("bulk-batch", batch)] if seq else [])
        if seq:
            rep["series"] = seq["order"]
            rep["request"] = seq["pos"][ri] + 1

        def fid_for_panic():
            return None     # the nil dereferences were repaired in the repository (commit 3e1b1c1): any panic is a violation
        # -- P: no path reports success for content the key holder did not sign
        if lib == "ok" and not acc:
            c.report("Envelope.Verify reports success although %s: %s" % (
                "a covered entry was modified" if case["broken"] else "not every signature is by the key", ctx), rep)
        if lib != "ok" and acc:
            c.report("Envelope.Verify fails (%s) although everything signed is still contained: %s" % (lib, ctx), rep,
                     finding_id=fid_for_panic() if lib == "panic" else None)
        for name, v in cli_paths:
            if v == "ok" and not (acc and val == "ok"):
                fid = F9 if (first_by_k and val == "ok" and lib != "ok") else None
                if val != "ok":
                    why = "the envelope does not validate (%s)" % val
                elif lib != "ok":
                    why = "Envelope.Verify refuses with the same key (%s)" % lib
                else:
                    why = "a covered entry was modified" if case["broken"] else "not every signature is by the key"
                c.report("%s verification reports success although %s: %s" % (name, why, ctx), rep, finding_id=fid)
            if v not in ("ok", "skip") and acc and val == "ok" and k >= 0:
                c.report("%s verification fails (%s) although the envelope validates and everything signed is contained: %s" % (name, v, ctx),
                         rep, finding_id=fid_for_panic() if v == "panic" else None)
        # -- P: verification never panics
        for name, v in [("library", lib), ("validate", val)] + cli_paths:
            if v == "panic":
                c.report("%s panics (nil dereference): %s" % (name, ctx), rep, finding_id=fid_for_panic())
        # -- the entry points agree with each other
        ks = [klass(v) for _, v in cli_paths if v != "skip"]
        if len(set(ks)) > 1 or (cli not in ("skip",) and bulk != "skip" and cli != bulk) or (batch != "skip" and bulk != "skip" and batch != bulk):
            c.report("command line, bulk and HTTP verification disagree (%s / %s / %s%s): %s" % (cli, bulk, web, " / bulk-batch %s" % batch if seq else "", ctx), rep)
        # -- implementation against model
        unm = lambda v: "other" if v == "unmarshal" else v   # unparseable input: a plain 400 on the command-line paths
        diffs = [n for n, a, b in (("validate", val, m[0]), ("library", lib, m[1]), ("cli", cli, unm(m[2])), ("bulk", bulk, unm(m[2])),
                                   ("bulk-batch", batch, unm(m[2])))
                 if a != "skip" and a != b]
        if klass(web) != klass(m[2]) and web != "skip":
            diffs.append("http")
        if diffs:
            fid = None
            for fx, cand in ((2, F9), (1, F10), (0, None)):
                alt = parse_out(run_oracle([c09_line(fx, 0, ops, [k])], shards=1)[0], 1)
                if alt and alt[0][0] == val and alt[0][1] == lib and all(v in ("skip", unm(alt[0][2])) for v in (cli, bulk, batch)) and klass(web) in ("skip", klass(alt[0][2])):
                    if cand == F9 and first_by_k:
                        fid = F9
                    elif cand == F10 and codes & {EMPTYSIG, NULLSIG}:
                        fid = F10
                    elif cand is None and first_by_k and codes & {EMPTYSIG, NULLSIG} and c.known(F9) and c.known(F10):
                        fid = F9    # both recorded defects at once
                    break
            c.report("implementation and model differ on %s (implementation validate/lib/cli/bulk/http = %s, model validate/lib/cli = %s): %s"
                     % (",".join(diffs), g, m, ctx), rep, finding_id=fid)


def run(c):
    quick = c.tier == "quick"
    if not std_builds(c, cli=True):
        return
    proved = c.prove()
    ok, out = build_oracle()
    if not ok:
        c.report("extraction/oracle build failed: " + out[-800:], {"machinery": "oracle"}, no_input=True)
        return
    tmp = os.path.join(WORK, "c09tmp.%d" % os.getpid())
    os.makedirs(tmp, exist_ok=True)
    vlib.GOENV["TMPDIR"] = tmp
    vlib.GOENV["VERIF_GOBL_BIN"] = os.path.join(BIN, "gobl")
    try:
        info = parse_wire(run_go(["c09info"], shards=1)[0])[0]
        have_cli, have_serve = bool(info[0]), bool(info[1])
        c.cov["entry_points"] = {"library": True, "cli_binary": have_cli, "loopback_serve(bulk,http)": have_serve,
                                 "note": "" if have_serve else "gobl serve could not bind a loopback port (%s): command line only" % info[2].decode()}
        if not have_cli:
            c.report("bin/gobl is missing: the command-line entry point cannot be observed", {"machinery": "bin/gobl"}, no_input=True)
            return
        c.cov["entry_point_verdicts"] = {}
        cases = []
        for fn, l in load_corpus("C09"):
            _, base, ops = parse_case_line(l)
            exp = dict(x.split("=") for x in l.split("#", 1)[1].split()) if "#" in l else {}
            cases.append(("corpus", dict(prefix="corpus:" + fn, names=[exp.get("name", fn)], ops=ops,
                                         signers=[int(x) for x in exp.get("signers", "0").split(",") if x != ""],
                                         broken=exp.get("broken") == "1", garbage=exp.get("garbage") == "1", nil=exp.get("nil") == "1",
                                         first_garbage=exp.get("first_garbage") == "1")))
        gcases, seqs = gen(c, quick)
        cases += gcases
        lines = [c09_line(FX_REPAIRED, 0, cs["ops"], KEYS) for _, cs in cases]
        go = par_go(lines)
        mo = run_oracle(lines, shards=16)
        for (stream, cs), l, g, m in zip(cases, lines, go, mo):
            gr, mr = parse_out(g, len(KEYS)), parse_out(m, len(KEYS))
            if gr is None or mr is None:
                c.count(stream, 1)
                c.report("harness or model could not run the case: %s -> %s / %s" % (l, g, m), {"case": l}, no_input=True)
                continue
            judge_and_compare(c, stream, cs, gr, mr, l, op_outcomes(g), op_outcomes(m))
        run_sequences(c, seqs)
        for i in (0, len(cases) // 3, 2 * len(cases) // 3, len(cases) - 1):
            stream, cs = cases[i]
            c.sample({"stream": stream, "signed": cs["prefix"], "modification": cs["names"], "history": show(cs["ops"]),
                      "per key %s: validate, lib, cli, bulk, http" % KEYS: parse_out(go[i], len(KEYS))})
        c.cov["cases"] = len(cases)
        c.cov["rule"] = ("one evaluation = one (envelope, key) pair presented to every entry point (library, binary, bulk, HTTP: see "
                         "entry_point_verdicts for the number of verdicts observed per path); envelopes = 3 ways of signing x "
                         "every single modification of the table MODS (7 header fields x add/alter/remove x covered/uncovered, document "
                         "edits with and without recalculation, signature-list edits, nil header / null entries), seed-chosen pairs "
                         "(thorough: all pairs, sampled triples), plus the corpus; keys 0,1 (signers), 2 (never signs), none; "
                         "distinct = distinct (way of signing, modification, key); all are non-trivial (each presents a signed or formerly signed envelope); "
                         "stream sequence: one evaluation = one request of an ordered series about one envelope's stages (signed, modified once, twice) "
                         "answered by one `gobl serve` (POST /bulk and POST /verify one request each in order, then all in one POST /bulk body): every way of signing x "
                         "every modification as a 7-request series (modified before and after the genuine one was accepted, other key / no key after the right key), "
                         "seed-chosen pairs as 9-request series in seed-chosen order; distinct = distinct (way of signing, modifications, stage, key, requests before it)")
        # cross-check of the extracted model inside Coq
        samp = lines[:: max(1, len(lines) // 200)][:200]
        try:
            inq = coq_eval(samp)
            mo_s = run_oracle(samp, shards=1)
            bad = [(l, a, b) for l, a, b in zip(samp, inq, mo_s) if a != b]
            c.cov["vm_compute_crosscheck"] = {"cases": len(samp), "differences": len(bad)}
            if bad:
                c.report("extracted model disagrees with vm_compute: %r" % (bad[0],), {"machinery": bad[0]}, no_input=True)
        except Exception as e:
            c.report("vm_compute cross-check failed: %r" % e, {"machinery": repr(e)}, no_input=True)
    finally:
        shutil.rmtree(tmp, ignore_errors=True)
    if not proved:
        pr = c.proof
        c.report("proof obligations of Props/C09.v no longer check: " + (pr.get("make_log") or pr.get("log", ""))[-600:],
                 {"theorem": "rocq/Props/C09.v", "failed_files": pr.get("failed_files"), "forbidden": pr.get("forbidden")},
                 no_input=True)


def replay(path):
    r = json.load(open(path))["replay"]
    l = r["case"]
    build_harness()
    build_cli()
    tmp = os.path.join(WORK, "c09tmp.%d" % os.getpid())
    os.makedirs(tmp, exist_ok=True)
    vlib.GOENV["TMPDIR"] = tmp
    vlib.GOENV["VERIF_GOBL_BIN"] = os.path.join(BIN, "gobl")
    try:
        if l.startswith("c09seq"):
            print("series:", r.get("series"))
            out = parse_wire(run_go([l], shards=1)[0])
            for i, row in enumerate(out[0]):
                print("request %d (validate, lib, cli, bulk, http, bulk-batch):" % (i + 1), [x.decode() for x in row])
            print("every answer must be the one a fresh process gives (cli column) and reject whatever the key holder did not sign;",
                  "reported request:", r.get("request", r.get("requests")))
            return 0
        print("history:", "; ".join(r.get("history", [])), "| key", r.get("key"))
        print("implementation (validate, lib, cli, bulk, http):", parse_out(run_go([l], shards=1)[0], 1))
        print("model repaired (validate, lib, cli):            ", parse_out(run_oracle([l], shards=1)[0], 1))
        print("expected by construction:", r.get("expected_by_construction"))
    finally:
        shutil.rmtree(tmp, ignore_errors=True)
    return 0
