"""C16 - correct / replicate yield a linked new document and leave the source intact.

Tie.  Every valid example invoice (every regime and addon that ships one) x every invoice type (and none)
as correction type x combinations of {reason, extensions, stamps (in the source header / passed by the
caller / both), series, issue date, copy-tax} x the three ways options are passed (functional options,
bill.WithData raw JSON, bill.WithOptions struct), through gobl.Envelope.Correct; Replicate for every
source; a subset again through the HTTP bulk endpoint of `gobl serve` and the `gobl correct` /
`gobl replicate` commands.
Sources also include addon COMBINATIONS no example ships (derived_sources: every example x every published addon that declares
corrections, kept when the recalculated envelope validates), so that what one addon's normaliser does to the preceding reference
is judged against the extensions another definition asks for.
Per case the harness serialises the source before and after the call (must be byte-identical), then
overwrites every settable leaf of the RESULT by reflection and serialises the source a third time
(deterministic aliasing test), and lists pointer targets shared by result and source.
Oracle P (here, from the published data/regimes/*.json, data/addons/*.json and the options only):
  accepted => new envelope and document identifiers, no code, requested type (one the merged
  definition allows), exactly one preceding reference with the source's uuid / type / series / code /
  issue date, the reason, the extensions, a stamp for every provider the definition requires, tax
  totals iff requested and present, no signatures, no header stamps, digest = sha256(canonical doc);
  refused  => one of: no type, no code, type not allowed, reason required and absent, required stamp absent;
  the source is never changed by the call.
Correspondence: Correct/Correct.v (extracted), given the merged definition as data, must return the same
verdict kind, the same projected result, the same source header stamps after the call and the same set
of shared stamp objects."""
import base64
import datetime
import glob
import hashlib
import socket
import subprocess
import urllib.request

from vlib import *
import c08 as jc

TRUSTED = ["premise of the shape theorems (not proved; observed by the sweep on normalised input): Invoice.Calculate keeps identifier, type, "
           "series, code, dates and the preceding reference (calc_keeps_header)",
           "schema.Object.Clone (JSON round trip) is modelled as the identity on values (whole-document marshal losslessness: C08's sweep)",
           "uuid.V7 and cal.Today are inputs of the model (fresh supply / the date the Go process reports)"]
TYPES = ["standard", "proforma", "corrective", "credit-note", "debit-note", "other", None]
FINDING_DATA_STAMPS = "C16-data-stamps-overwrite-source-header"


# ----------------------------------------------------------------------------------------------
# published definitions
# ----------------------------------------------------------------------------------------------
_defs = {}


def load_def(kind, key):
    p = os.path.join(REPO, "data", kind, key.lower() + ".json")
    if p not in _defs:
        _defs[p] = json.load(open(p)) if os.path.exists(p) else None
    return _defs[p]


def corr_defs(d):
    return [{"schema": c.get("schema", ""), "types": c.get("types") or [], "extensions": c.get("extensions") or [],
             "reason_required": bool(c.get("reason_required")), "stamps": c.get("stamps") or [], "copy_tax": bool(c.get("copy_tax"))}
            for c in (d or {}).get("corrections") or []]


def merged_def(regime_defs, addon_defs_list):
    """python reading of Invoice.correctionDef / CorrectionDefinition.Merge"""
    cd = {"schema": "bill/invoice", "types": [], "extensions": [], "reason_required": False, "stamps": [], "copy_tax": False}

    def pick(cs):
        for c in cs:
            if "bill/invoice".endswith(c["schema"]):
                return c
        return None

    def merge(cd, o):
        if o is None or cd["schema"] != o["schema"]:
            return cd
        return {"schema": cd["schema"], "types": cd["types"] + o["types"], "extensions": cd["extensions"] + o["extensions"],
                "reason_required": cd["reason_required"] or o["reason_required"], "stamps": cd["stamps"] + o["stamps"],
                "copy_tax": cd["copy_tax"] or o["copy_tax"]}
    if regime_defs is not None:
        cd = merge(cd, pick(regime_defs))
    for a in addon_defs_list:
        cd = merge(cd, pick(a))
    return cd


def ext_value(key, docs, rng):
    for d in docs:
        for e in (d or {}).get("extensions") or []:
            if e.get("key") == key:
                vals = [v["code"] for v in e.get("values") or [] if "code" in v]
                if vals:
                    return rng.choice(vals)
    return "1"


class Source:
    def __init__(self, name, text, path=None, derived=None):
        self.name, self.text = name, text
        self.path = path or os.path.join(REPO, name)      # where the envelope lies (command line entry points, replay)
        self.derived = derived                            # None, or {"base": example, "addon": key, "position": "first"|"last"}
        self.env = json.loads(text)
        d = self.doc = self.env["doc"]
        self.regime = d.get("$regime")
        self.addons = d.get("$addons") or []
        rd = load_def("regimes", self.regime) if self.regime else None
        ads = [load_def("addons", a) for a in self.addons]
        self.rdefs = corr_defs(rd) if rd is not None else None
        self.adefs = [corr_defs(a) for a in ads if a is not None]
        self.cd = merged_def(self.rdefs, self.adefs)
        self.defdocs = [rd] + ads
        # how many definitions (regime, each addon) contribute correction extensions of their own
        self.ext_origins = sum(1 for cs in [self.rdefs or []] + self.adefs if any(c["extensions"] for c in cs if "bill/invoice".endswith(c["schema"])))


# ----------------------------------------------------------------------------------------------
# cases
# ----------------------------------------------------------------------------------------------
def make_case(src, typ, rng, force=None):
    """one correction case: source preparation + call"""
    f = force or {}
    pick = lambda k, p=0.5: f[k] if k in f else rng.random() < p
    req = src.cd["stamps"]
    opts = {}
    if typ is not None:
        opts["type"] = typ
    if pick("reason"):
        opts["reason"] = rng.choice(["wrong amount", "r", "Zoë said so"])
    if pick("ext") and src.cd["extensions"]:
        opts["ext"] = {k: ext_value(k, src.defdocs, rng) for k in src.cd["extensions"]}
    if pick("series", 0.4):
        opts["series"] = rng.choice(["R", "CN-2024", "NEWSER"])
    if pick("issue", 0.4):
        opts["issue_date"] = rng.choice(["2024-05-06", "2030-01-31", "2023-12-20"])
    if pick("copy_tax", 0.4):
        opts["copy_tax"] = True
    mode = f.get("stamps") or rng.choice(["none", "head", "head", "user", "both"])
    if not src.doc.get("code"):
        # an invoice without a code cannot be signed (and a header with stamps is only valid when signed): such sources stay as they are
        mode = {"head": "none", "both": "user"}.get(mode, mode)
        f = dict(f, sign=False)
    provs = req or ["verif-other"]
    prep = {"sign": f["sign"] if "sign" in f else rng.random() < 0.3}
    if mode in ("head", "both"):
        prep["head_stamps"] = [{"prv": k, "val": "SRC-" + k} for k in provs] + [{"prv": "verif-extra", "val": "SRC-extra"}]
        # the header may list a stamp nobody asks for BEFORE the required ones (sat-sig before sat-uuid): the i-th stamp of the
        # options is then not the i-th stamp of the header
        if f.get("head_order", "extra-first" if rng.random() < 0.4 else "extra-last") == "extra-first":
            prep["head_stamps"] = prep["head_stamps"][-1:] + prep["head_stamps"][:-1]
        prep["sign"] = True
    if mode in ("user", "both"):
        # the caller's stamps: its own values, or (a client echoing what it read in the header) the header's values
        echo = mode == "both" and f.get("echo", rng.random() < 0.2)
        opts["stamps"] = [{"prv": k, "val": ("SRC-" if echo else "USR-") + k} for k in (provs if rng.random() < 0.8 else provs[:-1])]
    via = f.get("via") or rng.choice(["opts", "data", "struct"])
    return {"source": src.name, "prep": prep, "call": {"via": via, "opts": opts}}


REQ_FILE = os.path.join(VERIF, "corpus", "c16_requirements.json")


def requirement_cases(srcs):
    """for every source and every correction type its definitions allow: the call with everything supplied (reason, every
    extension of the definition, stamps in the header and in the options), and the same call with ONE of them left out.
    -> [(source name, type, dropped item or None, case)]"""
    import random as _random
    out = []
    for s in srcs:
        for t in sorted(set(s.cd["types"])):
            rng = _random.Random(sum(map(ord, s.name + t)))
            full = make_case(s, t, rng, {"stamps": "both", "via": "opts", "reason": True, "ext": True, "series": False, "issue": False,
                                         "copy_tax": False, "sign": True})
            out.append((s.name, t, None, full))
            items = ["reason"] + ["ext:" + k for k in sorted((full["call"]["opts"].get("ext") or {}))] + (["stamps"] if s.cd["stamps"] else []) + \
                (["ext:*"] if len(full["call"]["opts"].get("ext") or {}) > 1 else [])
            for it in items:
                k2 = json.loads(json.dumps(full))
                o = k2["call"]["opts"]
                if it == "reason":
                    o.pop("reason", None)
                elif it == "stamps":
                    o.pop("stamps", None)
                    k2["prep"].pop("head_stamps", None)
                elif it == "ext:*":
                    o.pop("ext", None)          # no extension at all
                else:
                    o["ext"].pop(it[4:], None)
                    if not o["ext"]:
                        o.pop("ext")
                out.append((s.name, t, it, k2))
    return out


def requirement_verdicts(srcs):
    """-> {source: {type: {"full": accepted?, "required": [items whose omission alone makes the library refuse]}}}"""
    byname = {s.name: s for s in srcs}
    rc = requirement_cases(srcs)
    obs = [Obs(l) for l in run_go([go_line(byname[n], k) for n, t, it, k in rc], shards=16)]
    res = {}
    for (n, t, it, k), o in zip(rc, obs):
        acc = (not o.err) and o.verdict == "ok" and o.validates == "ok"
        e = res.setdefault(n, {}).setdefault(t, {"full": None, "required": [], "cases": {}})
        e["cases"][it or "full"] = k
        if it is None:
            e["full"] = acc
        elif not acc:
            e["required"].append(it)
    return res


def go_line(src, case):
    return "c16 correct %s %s %s" % (w(src.text), w(json.dumps(case["prep"])), w(json.dumps(case["call"])))


class Obs:
    def __init__(self, line):
        v = parse_wire(line)
        self.err = is_err(v)
        if self.err:
            self.verdict = "harness:" + b" ".join(x for x in v[0] if isinstance(x, bytes)).decode()
            return
        self.verdict = v[0].decode()
        self.same01, self.same02 = bool(v[1]), bool(v[2])
        self.res = json.loads(v[3]) if v[3] else None
        self.t0, self.t1 = v[4].decode(), v[5].decode()
        self.aliases = [(a.decode(), b.decode()) for a, b in v[6]]
        self.global_shared = v[7]
        self.validates = v[8].decode()
        self.b0 = json.loads(v[9]) if len(v) > 9 else None
        self.b1 = json.loads(v[10]) if len(v) > 10 else None
        self.b2 = json.loads(v[11]) if len(v) > 11 else None


# ----------------------------------------------------------------------------------------------
# oracle P
# ----------------------------------------------------------------------------------------------
def refusal_conditions(src, case):
    o = case["call"]["opts"]
    cd = src.cd
    conds = []
    if not o.get("type"):
        conds.append("missing-type")
    if not src.doc.get("code"):
        conds.append("no-code")
    if case["call"]["via"] == "data" and "stamps" in o:
        # a raw JSON options object that names stamps replaces whatever the header offered (json.Unmarshal into o.Stamps)
        have = [s["prv"] for s in o["stamps"]]
    else:
        have = [s["prv"] for s in o.get("stamps") or []] + [s["prv"] for s in case["prep"].get("head_stamps") or []]
    if any(k not in have for k in cd["stamps"]):
        conds.append("missing-stamp")
    if cd["types"] and o.get("type") and o["type"] not in cd["types"]:
        conds.append("invalid-type")
    if cd["reason_required"] and not o.get("reason"):
        conds.append("missing-reason")
    return conds


def first_diff(a, b_, path="env"):
    if type(a) != type(b_):
        return path
    if isinstance(a, dict):
        for k in sorted(set(a) | set(b_)):
            if k not in a or k not in b_:
                return path + "." + k
            r = first_diff(a[k], b_[k], path + "." + k)
            if r:
                return r
        return None
    if isinstance(a, list):
        if len(a) != len(b_):
            return path + "[len %d -> %d]" % (len(a), len(b_))
        for i, (x, y) in enumerate(zip(a, b_)):
            r = first_diff(x, y, "%s[%d]" % (path, i))
            if r:
                return r
        return None
    return None if a == b_ else path


def ext_of(d, p, o):
    """extensions of the preceding reference; a requested key an addon normaliser moved to the document level
    (es-verifactu-doc-type -> tax.ext, addons/es/verifactu normalizeInvoice) is read back from there"""
    e = dict(p.get("ext") or {})
    moved = (d.get("tax") or {}).get("ext") or {}
    for k in (o.get("ext") or {}):
        if k not in e and k in moved:
            e[k] = moved[k]
    return e


def replica_doc_problems(d, sd, todays):
    """clauses of the statement about the DOCUMENT of a replica (d) of the invoice sd: today's date, no value / operation date,
    business content kept"""
    bad = []
    if d.get("issue_date") not in todays:
        bad.append("issue date is not today (%s)" % sorted(todays)[0])
    for k in ("value_date", "op_date"):
        if k in d:
            bad.append(k + " kept")
    if d.get("type") != sd.get("type"):
        bad.append("type changed")
    # members the calculation does not rewrite are compared as they are, calculated ones by their size
    for k in ("$regime", "$addons", "type", "series", "currency", "supplier", "customer", "ordering", "delivery", "meta", "exchange_rates", "preceding"):
        if jc.norm(d.get(k)) != jc.norm(sd.get(k)):
            bad.append("business content changed: " + k)
    for k in ("lines", "discounts", "charges"):
        if len(d.get(k) or []) != len(sd.get(k) or []):
            bad.append("business content changed: " + k)
    return bad


def shape_problems(src, case, ob, replicate=False):
    """clauses of the statement an accepted result must satisfy; returns list of broken clauses"""
    bad = []
    r, s = ob.res, src.env
    d, sd = r.get("doc") or {}, src.doc
    o = {} if replicate else case["call"]["opts"]
    hs = (case["prep"].get("head_stamps") or [])
    if not r.get("head", {}).get("uuid") or r["head"]["uuid"] == s["head"]["uuid"]:
        bad.append("envelope identifier is not new")
    if not d.get("uuid") or d.get("uuid") == sd.get("uuid"):
        bad.append("document identifier is not new")
    if r.get("sigs"):
        bad.append("result is signed")
    if r.get("head", {}).get("stamps"):
        bad.append("result header carries stamps")
    if d.get("code"):
        bad.append("result has a code")
    try:
        if hashlib.sha256(jc.canon(d).encode()).hexdigest() != r["head"]["dig"]["val"]:
            bad.append("digest is not that of the new document")
    except jc.HasFloat:
        pass
    if replicate:
        return bad + replica_doc_problems(d, sd, (ob.t0, ob.t1))
    if d.get("type") != o.get("type"):
        bad.append("type is not the requested one")
    if src.cd["types"] and o.get("type") not in src.cd["types"]:
        bad.append("type not allowed by regime/addons was accepted")
    pre = d.get("preceding") or []
    if len(pre) != 1:
        bad.append("preceding has %d entries" % len(pre))
        return bad
    p = pre[0]
    for k, sk in (("uuid", "uuid"), ("type", "type"), ("series", "series"), ("code", "code"), ("issue_date", "issue_date")):
        if p.get(k) != sd.get(sk):
            bad.append("preceding." + k + " differs from the source's")
    if p.get("reason", "") != o.get("reason", ""):
        bad.append("preceding.reason is not the requested reason")
    if src.cd["reason_required"] and not p.get("reason"):
        bad.append("required reason missing but accepted")
    if ext_of(d, p, o) != (o.get("ext") or {}):
        bad.append("the requested extensions are not carried by the preceding reference (or, moved by the addon, the document's tax.ext)")
    got = {x.get("prv"): x.get("val") for x in p.get("stamps") or []}
    if sorted(got) != sorted(set(src.cd["stamps"])):
        bad.append("preceding.stamps providers %r are not the required %r" % (sorted(got), src.cd["stamps"]))
    allowed = {}
    for x in hs + (o.get("stamps") or []):
        allowed.setdefault(x["prv"], set()).add(x["val"])
    for k, v in got.items():
        if v not in allowed.get(k, ()):
            bad.append("preceding stamp %s carries a value nobody supplied" % k)
    want_tax = bool(o.get("copy_tax")) and (sd.get("totals") or {}).get("taxes") is not None
    if ("tax" in p) != want_tax:
        bad.append("preceding.tax %s although copy_tax=%s" % ("present" if "tax" in p else "absent", bool(o.get("copy_tax"))))
    if d.get("issue_date") not in ((o["issue_date"],) if "issue_date" in o else (ob.t0, ob.t1)):
        bad.append("issue date is neither the requested one nor today")
    if d.get("series") != (o.get("series") or sd.get("series")):
        bad.append("series is neither the requested nor the source's")
    return bad


# ----------------------------------------------------------------------------------------------
# model case and projection of the implementation's result
# ----------------------------------------------------------------------------------------------
def wopt(x):
    return [] if x is None else [x]


def wdef(c):
    return [c["schema"], c["types"], c["extensions"], c["reason_required"], c["stamps"], c["copy_tax"]]


def head_stamps_copied():
    """which variant of the model the tree is compared with: Correct/Correct.v `copy_head` is false for the code as it stands and
    true once fixes/C16-copy-header-stamps.diff is applied, i.e. once the finding has been moved from `known` to `fixed`"""
    fs = load_findings()
    if any(f.get("id") == FINDING_DATA_STAMPS for f in fs["known"]):
        return False
    return any(f.get("id") == FINDING_DATA_STAMPS or FINDING_DATA_STAMPS in json.dumps(f) for f in fs["fixed"])


def model_case(src, case, ob, replicate=False, copied=False):
    prep = case["prep"]
    heap, hs_addrs = [], []
    for i, s in enumerate(prep.get("head_stamps") or []):
        heap.append([i + 1, s["prv"], s["val"]])
        hs_addrs.append(i + 1)
    nxt = [500]

    def ref(p):
        addrs = []
        for s in p.get("stamps") or []:
            heap.append([nxt[0], s.get("prv", ""), s.get("val", "")])
            addrs.append(nxt[0])
            nxt[0] += 1
        return [p.get("uuid", ""), p.get("type", ""), wopt(p.get("issue_date")), p.get("series", ""), p.get("code", ""), p.get("reason", ""),
                addrs, "tax" in p, [[k, v] for k, v in (p.get("ext") or {}).items()]]
    d = src.doc
    tot = d.get("totals")
    doc = [d.get("uuid", ""), d.get("type", ""), d.get("series", ""), d.get("code", ""), d.get("issue_date", ""), wopt(d.get("value_date")),
           wopt(d.get("op_date")), [ref(p) for p in d.get("preceding") or []], 0 if tot is None else 1 if tot.get("taxes") is None else 2]
    signed = bool(prep.get("sign") or prep.get("head_stamps"))
    envv = [src.env["head"]["uuid"], hs_addrs, ["sig"] if signed else [], doc]
    r = ob.res or {}
    today = ob.t0
    uh, ud = (r.get("head") or {}).get("uuid", "fresh-head"), (r.get("doc") or {}).get("uuid", "fresh-doc")
    if replicate:
        return "c16 replicate %s %s %s %s %s" % (w(today), w(uh), w(ud), w([heap, 1000]), w(envv))
    o = case["call"]["opts"]
    via = case["call"]["via"]
    ustamps = []
    for i, s in enumerate(o.get("stamps") or []):
        heap.append([100 + i, s["prv"], s["val"]])
        ustamps.append(100 + i)
    if via == "opts":
        ol = []
        if "type" in o:
            ol.append([Word("type"), o["type"]])
        if "reason" in o:
            ol.append([Word("reason"), o["reason"]])
        for k in sorted(o.get("ext") or {}):
            ol.append([Word("ext"), k, o["ext"][k]])
        if "stamps" in o:
            ol.append([Word("stamps"), ustamps])
        if "series" in o:
            ol.append([Word("series"), o["series"]])
        if "issue_date" in o:
            ol.append([Word("issue"), o["issue_date"]])
        if o.get("copy_tax"):
            ol.append([Word("copytax")])
    elif via == "struct":
        ol = [[Word("options"), [[], o.get("type", ""), wopt(o.get("issue_date")), o.get("series", ""), ustamps, o.get("reason", ""),
                                 [[k, v] for k, v in (o.get("ext") or {}).items()], bool(o.get("copy_tax")), [Word("nodata")]]]]
    else:
        # the stamps of a raw JSON object are not objects yet: they are decoded into whatever o.Stamps holds
        heap = [h for h in heap if h[0] < 100 or h[0] >= 500]
        ol = [[Word("data"), [Word("data"), wopt(o.get("type")), wopt(o.get("issue_date")), wopt(o.get("series")),
                              wopt(None if "stamps" not in o else [[wopt(s.get("prv")), wopt(s.get("val"))] for s in o["stamps"]]),
                              wopt(o.get("reason")), wopt(None if "ext" not in o else [[k, v] for k, v in o["ext"].items()]),
                              wopt(None if "copy_tax" not in o else bool(o["copy_tax"]))]]]
    return "c16 correct %s %s %s %s %s %s %s %s %d" % (
        w(wopt(None if src.rdefs is None else [wdef(c) for c in src.rdefs])), w([[wdef(c) for c in a] for a in src.adefs]),
        w(today), w(uh), w(ud), w(ol), w([heap, 1000]), w(envv), 1 if copied else 0)


def b(x):
    return x.encode() if isinstance(x, str) else x


def project_go(src, case, ob):
    """the implementation's outcome in the layout of RunC16.v's output (python values)"""
    prep = case["prep"]
    hs = prep.get("head_stamps") or []
    after = (ob.b1 or {}).get("head", {}).get("stamps") if ob.b1 is not None else hs
    src_after = [[i + 1, b(s.get("prv", "")), b(s.get("val", ""))] for i, s in enumerate(after or [])]
    kind = {"ok": None, "missing-type": b"missing-type", "bad-data": b"bad-data", "no-code": b"no-code", "missing-stamp": b"missing-stamp",
            "invalid-type": b"invalid-type", "missing-reason": b"missing-reason", "other:calculation": b"calculation"}.get(ob.verdict, b"?" + ob.verdict.encode())
    if kind is not None:
        return [[b"err", kind], src_after]
    r = ob.res
    d = r["doc"]

    def ref(p):
        return [b(p.get("uuid", "")), b(p.get("type", "")), [b(p["issue_date"])] if "issue_date" in p else [], b(p.get("series", "")), b(p.get("code", "")),
                b(p.get("reason", "")), [[b(s.get("prv", "")), b(s.get("val", ""))] for s in p.get("stamps") or []], 1 if "tax" in p else 0,
                sorted([b(k), b(v)] for k, v in ext_of(d, p, case["call"]["opts"]).items())]
    doc = [b(d.get("uuid", "")), b(d.get("type", "")), b(d.get("series", "")), b(d.get("code", "")), b(d.get("issue_date", "")),
           [b(d["value_date"])] if "value_date" in d else [], [b(d["op_date"])] if "op_date" in d else [], [ref(p) for p in d.get("preceding") or []]]
    envv = [b(r["head"]["uuid"]), [[b(s["prv"]), b(s["val"])] for s in r["head"].get("stamps") or []], [b"sig"] * len(r.get("sigs") or []), doc]
    shared = []
    for rp, sp in ob.aliases:
        m1 = re.fullmatch(r"env\.doc\.payload\.preceding\[0\]\.stamps\[(\d+)\]", rp)
        m2 = re.fullmatch(r"env\.head\.stamps\[(\d+)\]", sp)
        if m1 and m2:
            shared.append((int(m1.group(1)), int(m2.group(1)) + 1))
    return [b"ok", envv, src_after, [a for _, a in sorted(shared)]]


def project_model(line):
    v = parse_wire(line)
    if is_err(v[:1]):
        return [v[0], [[s[0], s[1], s[2]] if len(s) == 3 else s for s in (v[1] if len(v) > 1 else [])]]
    if not v or v[0] != b"ok":
        return v
    envv = v[1]

    def st(s):
        return [s[1], s[2]] if len(s) == 3 else [b"?", b"?"]

    def ref(p):
        return [p[0], p[1], p[2], p[3], p[4], p[5], [st(s) for s in p[6]], p[7], sorted(p[8])]
    doc = envv[3]
    return [b"ok", [envv[0], [st(s) for s in envv[1]], envv[2], doc[:7] + [[ref(p) for p in doc[7]]]], v[2], v[3]]


# ----------------------------------------------------------------------------------------------
# the HTTP bulk endpoint and the command line
# ----------------------------------------------------------------------------------------------
class Server:
    def __enter__(self):
        os.makedirs(WORK, exist_ok=True)
        key = os.path.join(WORK, "c16key.%d.jwk" % os.getpid())
        sh([os.path.join(BIN, "gobl"), "keygen", "-f", key], env=GOENV)
        self.key = key
        for _ in range(20):
            s = socket.socket()
            s.bind(("127.0.0.1", 0))
            self.port = s.getsockname()[1]
            s.close()
            self.p = subprocess.Popen([os.path.join(BIN, "gobl"), "serve", "-p", str(self.port), "-k", key], env=GOENV,
                                      stdout=subprocess.DEVNULL, stderr=subprocess.DEVNULL)
            for _ in range(50):
                time.sleep(0.1)
                try:
                    socket.create_connection(("127.0.0.1", self.port), timeout=0.5).close()
                    return self
                except OSError:
                    if self.p.poll() is not None:
                        break
            self.p.kill()
        raise RuntimeError("gobl serve did not start")

    def bulk(self, reqs):
        body = "\n".join(json.dumps(r) for r in reqs).encode()
        r = urllib.request.urlopen(urllib.request.Request("http://127.0.0.1:%d/bulk" % self.port, data=body, method="POST"), timeout=600)
        out = {}
        for l in r.read().decode().splitlines():
            if l.strip():
                d = json.loads(l)
                if d.get("req_id"):
                    out[d["req_id"]] = d
        return out

    def __exit__(self, *a):
        self.p.kill()
        for f in (self.key, self.key.replace(".jwk", ".pub.jwk")):
            try:
                os.remove(f)
            except OSError:
                pass


def b64(s):
    return base64.b64encode(s.encode() if isinstance(s, str) else s).decode()


# ----------------------------------------------------------------------------------------------
# bare (non-enveloped) documents through `gobl replicate` and bulk replicate
# ----------------------------------------------------------------------------------------------
def rate_change_dates(regime):
    """the day before each dated change of a published rate of the regime (a later `since` of a rate that already had a value)
    -> sorted [(day, what changes the day after)]"""
    d = load_def("regimes", regime) if regime else None
    out = {}
    for cat in (d or {}).get("categories") or []:
        for r in cat.get("rates") or []:
            vals = r.get("values") or []
            sinces = sorted({v["since"] for v in vals if v.get("since")})
            undated = any(not v.get("since") for v in vals)
            for i, sn in enumerate(sinces):
                if i == 0 and not undated:
                    continue        # nothing published before the first value
                try:
                    day = (datetime.date.fromisoformat(sn) - datetime.timedelta(days=1)).isoformat()
                except ValueError:
                    continue
                out.setdefault(day, "%s %s changes on %s" % (cat.get("code"), r.get("rate") or r.get("key"), sn))
    return sorted(out.items())


def bare_cases(c, srcs, quick):
    """documents WITHOUT an envelope, each with the envelope holding the same document:
      as-is           the `doc` member of every example envelope (every schema) and of every derived / rich invoice source;
      uncalculated    the same invoice without its totals (what a client that builds documents itself sends);
      before-change   the invoice dated the day before a published rate of its regime changes, calculated by the library for
                      that day (gobl.Envelop) - every change of every regime x every invoice source of that regime
                      (derived addon combinations: the latest two changes)
    -> [{"id", "source", "variant", "bare": document, "env": envelope text, "invoice": source document or None}]"""
    out = []
    seen = {s.name for s in srcs}
    for f in jc.example_files():
        rel = os.path.relpath(f, REPO)
        if rel in jc.STALE or rel in seen:
            continue
        try:
            t = open(f, "rb").read().decode()
            e = json.loads(t)
            if isinstance(e.get("doc"), dict) and e["doc"].get("$schema") and not e["doc"]["$schema"].endswith("bill/invoice"):
                out.append({"source": rel, "variant": {"kind": "as-is"}, "bare": e["doc"], "env": t, "invoice": None})
        except (ValueError, OSError, AttributeError):
            pass
    old = []
    for s in srcs:
        out.append({"source": s.name, "variant": {"kind": "as-is"}, "bare": s.doc, "env": s.text, "invoice": s.doc, "derived": s.derived})
        if "totals" in s.doc and not s.derived:
            d = {k: v for k, v in s.doc.items() if k != "totals"}
            out.append({"source": s.name, "variant": {"kind": "uncalculated", "removed": ["totals"]}, "bare": d,
                        "env": json.dumps(dict(s.env, doc=d)), "invoice": s.doc})
        days = rate_change_dates(s.regime)
        for day, why in (days[-2:] if s.derived else days):
            d = json.loads(json.dumps(s.doc))
            d["issue_date"] = day
            old.append((s, {"kind": "before-change", "issue_date": day, "change": why}, d))
    envs = run_go(["c08 envelop " + w(json.dumps(d)) for _, _, d in old], shards=16, min_shard=64)
    for (s, var, d), ol in zip(old, envs):
        v = parse_wire(ol)
        if not (v and v[0] == b"ok"):
            c.count("bare:before-change-not-calculable(skipped)", 1)
            continue
        t = v[1].decode()
        out.append({"source": s.name, "variant": var, "bare": json.loads(t)["doc"], "env": t, "invoice": s.doc, "derived": s.derived})
    for i, k in enumerate(out):
        k["id"] = i
    return out


def tax_rates_of(d):
    """the percentages a document's tax totals show (for messages)"""
    out = []
    for cat in (((d or {}).get("totals") or {}).get("taxes") or {}).get("categories") or []:
        for r in cat.get("rates") or []:
            out.append("%s %s %s" % (cat.get("code"), r.get("key", ""), r.get("percent", "")))
    return out


def no_ids(d):
    return jc.norm({k: v for k, v in d.items() if k != "uuid"}) if isinstance(d, dict) else d


def bare_problems(k, got, env_got, recalc, todays):
    """what a replica of a bare document must satisfy; got = the entry point's answer (document or None), env_got = the same entry
    point's answer for the envelope holding the same document (envelope or None), recalc = `got` calculated once more by the library"""
    if (got is None) != (env_got is None):
        return ["the bare document is %s, the same document inside an envelope is %s" % (
            "refused" if got is None else "replicated", "refused" if env_got is None else "replicated")]
    if got is None:
        return []
    bad = []
    if not isinstance(got, dict) or got.get("$schema") != k["bare"].get("$schema"):
        return ["the answer is not a document of the source's schema"]
    if recalc is not None and no_ids(recalc) != no_ids(got):
        bad.append("the replica is not a freshly calculated document: calculating it once more changes %s (tax rates in the replica %s, "
                   "after calculating %s)" % (first_diff(no_ids(got), no_ids(recalc), "doc"), tax_rates_of(got), tax_rates_of(recalc)))
    ed = env_got.get("doc") if isinstance(env_got, dict) else None
    if no_ids(ed) != no_ids(got):
        bad.append("the replica differs from the replica of the same document inside an envelope at %s (tax rates %s, in the envelope %s)" % (
            first_diff(no_ids(got), no_ids(ed), "doc"), tax_rates_of(got), tax_rates_of(ed)))
    sd = k["invoice"]
    if sd is not None:
        if not got.get("uuid") or got.get("uuid") == k["bare"].get("uuid"):
            bad.append("document identifier is not new")
        if got.get("code"):
            bad.append("result has a code")
        bad += replica_doc_problems(got, sd, todays)
    return bad


def run_bare(c, srv, srcs, todays, rep, quick):
    rng = c.rng
    ks = bare_cases(c, srcs, quick)
    reqs = []
    for k in ks:
        reqs.append({"action": "replicate", "req_id": "b%d" % k["id"], "payload": {"data": b64(json.dumps(k["bare"]))}})
        reqs.append({"action": "replicate", "req_id": "e%d" % k["id"], "payload": {"data": b64(k["env"])}})
    resp = srv.bulk(reqs)
    log("bare bulk run", len(reqs), round(time.time() - T0, 1))
    # the command line: one document per (regime, change) first, then some of every other variant; file argument and stdin in turn
    order = list(ks)
    rng.shuffle(order)
    pick, seen = [], set()
    for k in order:
        v = k["variant"]
        key = ((k["invoice"] or {}).get("$regime"), v.get("issue_date")) if v["kind"] == "before-change" else None
        if key and key not in seen and not k.get("derived"):
            seen.add(key)
            pick.append(k)
    cap = 24 if quick else 200
    pick = pick[:cap]
    for kind, inv, n in (("as-is", True, 4), ("as-is", False, 4), ("uncalculated", True, 4)):
        pick += [k for k in order if k["variant"]["kind"] == kind and (k["invoice"] is not None) == inv][:n if quick else 10 * n]
    tmp = os.path.join(WORK, "c16bare.%d.json" % os.getpid())
    cli = {}
    for n, k in enumerate(pick):
        text = json.dumps(k["bare"])
        if n % 2:
            p = subprocess.run([os.path.join(BIN, "gobl"), "replicate"], input=text, capture_output=True, text=True, env=GOENV, timeout=120)
        else:
            open(tmp, "w").write(text)
            p = subprocess.run([os.path.join(BIN, "gobl"), "replicate", tmp], capture_output=True, text=True, env=GOENV, timeout=120)
        payload = None
        if p.returncode == 0:
            try:
                payload = json.loads(p.stdout[p.stdout.index("{"):])
            except ValueError:
                payload = None
        cli[k["id"]] = (payload, p.stderr[-300:] if payload is None else None, "stdin" if n % 2 else "file")
    try:
        os.remove(tmp)
    except OSError:
        pass
    log("bare cli run", len(pick), round(time.time() - T0, 1))
    # every answer calculated once more by the library
    answers = []
    for k in ks:
        b_ = resp.get("b%d" % k["id"]) or {}
        answers.append(("bulk", k, b_.get("payload"), b_.get("error"), None))
        if k["id"] in cli:
            answers.append(("cli", k, cli[k["id"]][0], cli[k["id"]][1], cli[k["id"]][2]))
    idx = [i for i, a in enumerate(answers) if isinstance(a[2], dict)]
    rec = run_go(["c08 envelop " + w(json.dumps(answers[i][2])) for i in idx], shards=16, min_shard=64)
    recalc = {}
    for i, ol in zip(idx, rec):
        v = parse_wire(ol)
        if v and v[0] == b"ok":
            recalc[i] = json.loads(v[1]).get("doc")
    moved = 0
    for i, (entry, k, got, err, how) in enumerate(answers):
        e_ = resp.get("e%d" % k["id"])
        if e_ is None or ("b%d" % k["id"]) not in resp:
            rep("bulk-missing", "bulk gave no response for a request", {"machinery": "bulk", "req": k["id"]}, no_input=True)
            continue
        env_got = e_.get("payload")
        stream = "bare-replicate:%s:%s" % (entry, k["variant"]["kind"])
        # non-trivial: the replica's tax totals differ from the source's (the calculation of today's date had something to do)
        nontrivial = isinstance(env_got, dict) and tax_rates_of(env_got.get("doc")) != tax_rates_of(k["bare"])
        moved += 1 if nontrivial else 0
        c.count(stream, 1, (k["source"], json.dumps(k["variant"], sort_keys=True)))
        if got is None and env_got is None:
            c.count("bare-replicate:refused-with-and-without-envelope", 1)
        probs = bare_problems(k, got, env_got, recalc.get(i), todays)
        if probs:
            rep("bare" + probs[0][:30], "%s of a BARE document (%s, %s) breaks the statement: %s" % (
                "gobl replicate" if entry == "cli" else "bulk replicate", k["source"], json.dumps(k["variant"]), "; ".join(probs)),
                {"stream": "bare-replicate", "entry": entry, "input_from": how, "source_file": k["source"], "source_derived": k.get("derived"),
                 "variant": k["variant"], "bare_document": k["bare"], "clause": "a replica keeps the business content but has a new identifier, no code, "
                 "today's date (and is a freshly calculated document of that date, as the replica of the same document inside an envelope is)",
                 "problems": probs, "response_error": err, "bare_result": got, "envelope_route_result_doc": (env_got or {}).get("doc") if isinstance(env_got, dict) else None,
                 "envelope_route_error": e_.get("error"), "related_fixed_finding": "C16-bare-replicate-not-recalculated",
                 "rerun": "tools/check C16 --replay <this file>"})
    c.cov["bare_documents"] = {"cases": len(ks), "by_variant": {v: sum(1 for k in ks if k["variant"]["kind"] == v) for v in ("as-is", "uncalculated", "before-change")},
                               "answers_whose_tax_rates_differ_from_the_source's": moved,
                               "regimes_with_rate_changes": sorted({(k["invoice"] or {}).get("$regime") for k in ks if k["variant"]["kind"] == "before-change"}),
                               "command_line": len(pick)}
    if not moved:
        c.report("bare-replicate stream is vacuous: no document's tax rates changed between its date and today", {"machinery": "bare-replicate"}, no_input=True)


# ----------------------------------------------------------------------------------------------
def correction_addons():
    """published addons that declare a correction definition for invoices (the ones that change what Correct asks for and writes)"""
    out = []
    for f in sorted(glob.glob(os.path.join(REPO, "data", "addons", "*.json"))):
        d = json.load(open(f))
        if any("bill/invoice".endswith(cdef["schema"]) for cdef in corr_defs(d)):
            out.append(d["key"])
    return out


def derive_text(base_text, addon, position):
    """the base example's document with one more addon enabled (first or last in $addons), recalculated and enveloped anew
    by the library (gobl.Envelop); None when the library refuses"""
    d = json.loads(base_text)["doc"]
    cur = d.get("$addons") or []
    d["$addons"] = [addon] + cur if position == "first" else cur + [addon]
    v = parse_wire(run_go(["c08 envelop " + w(json.dumps(d))], shards=1)[0])
    return v[1].decode() if v and v[0] == b"ok" else None


def derived_sources(c, srcs, everything=False):
    """addon COMBINATIONS no example ships: every valid example invoice x every published addon that declares corrections and is
    not enabled yet, put first / last in $addons, recalculated by the library; kept when the new envelope validates.
    quick tier: every combination in which two or more definitions (regime, addons) contribute correction extensions of their
    own, and a rotating sample of the others; thorough (and tools/mkc16req.py): all of them."""
    cands = []
    for s in srcs:
        if s.derived or os.path.isabs(s.name):
            continue
        for a in correction_addons():
            if a in s.addons:
                continue
            for pos in ("last", "first"):
                if pos == "first" and not s.addons:
                    continue        # the same list
                d = json.loads(json.dumps(s.doc))
                d["$addons"] = [a] + s.addons if pos == "first" else s.addons + [a]
                cands.append((s, a, pos, d))
    envs = run_go(["c08 envelop " + w(json.dumps(d)) for _, _, _, d in cands], shards=16)
    texts = []
    for (s, a, pos, _), ol in zip(cands, envs):
        v = parse_wire(ol)
        if v and v[0] == b"ok":
            texts.append((s, a, pos, v[1].decode()))
    obs = run_go(["c08 orig " + w(t) for _, _, _, t in texts], shards=16)
    ddir = os.path.join(WORK, "c16-derived")
    os.makedirs(ddir, exist_ok=True)
    multi, single = [], []
    for (s, a, pos, t), ol in zip(texts, obs):
        o = jc.Obs(parse_wire(ol)[0])
        if not (o.parse == "ok" and o.validate == "ok"):
            continue
        name = "%s+%s@%s" % (s.name, a, pos)
        d = Source(name, t, path=os.path.join(ddir, re.sub(r"[^A-Za-z0-9.+@-]", "_", name) + ".json"),
                   derived={"base": s.name, "addon": a, "position": pos})
        (multi if d.ext_origins >= 2 else single).append(d)
    c.cov["derived_sources(valid)"] = {"candidates": len(cands), "extensions_from_two_or_more_definitions": len(multi), "others": len(single)}
    if not everything:
        c.rng.shuffle(single)
        single = sorted(single[:10], key=lambda d: d.name)
    out = multi + single
    for d in out:
        open(d.path, "w").write(d.text)
    return out


def sources(c, derived=None):
    out = []
    texts = []
    for f in jc.example_files():
        rel = os.path.relpath(f, REPO)
        if rel in jc.STALE:
            continue
        t = open(f, "rb").read().decode()
        try:
            if json.loads(t)["doc"]["$schema"].endswith("bill/invoice"):
                texts.append((rel, t))
        except Exception:
            pass
    # a valid rich invoice (every member populated): replication / correction must carry over or clear exactly what the
    # statement says, also for members no example uses (ordering and delivery details, attachments, exchange rates ...)
    try:
        import richvalid
        richdir = os.path.join(WORK, "c14rich")
        subprocess.run([os.path.join(BIN, "vharness"), "c14rich", richdir], stdout=subprocess.PIPE, stderr=subprocess.PIPE, env=GOENV)
        d = richvalid.make_valid(json.load(open(os.path.join(richdir, "rich-bill-invoice.json"))))
        v = parse_wire(run_go(["c08 envelop " + w(json.dumps(d))], shards=1)[0])
        if v and v[0] == b"ok":
            fn = os.path.join(WORK, "c16-rich-invoice.json")
            open(fn, "wb").write(v[1])
            texts.append((fn, v[1].decode()))
    except (OSError, ValueError, KeyError):
        pass
    obs = run_go(["c08 orig " + w(t) for _, t in texts], shards=16)
    for (rel, t), ol in zip(texts, obs):
        o = jc.Obs(parse_wire(ol)[0])
        if o.parse == "ok" and o.validate == "ok":
            out.append(Source(rel, t))
        else:
            c.count("example-not-valid(skipped)", 1)
    if derived:
        out += derived_sources(c, out, everything=(derived == "all"))
    return out


def run(c):
    quick = c.tier == "quick"
    if not std_builds(c, cli=True):
        return
    proved = c.prove()
    ok, out = build_oracle()
    if not ok:
        c.report("extraction/oracle build failed: " + out[-800:], {"machinery": "oracle"}, no_input=True)
        return
    rng = c.rng
    srcs = sources(c, derived="quick" if quick else "all")
    byname = {s.name: s for s in srcs}
    c.cov["sources"] = len(srcs)
    c.cov["sources_derived(addon combinations)"] = sorted(s.name for s in srcs if s.derived)
    c.cov["regimes"] = sorted({s.regime for s in srcs if s.regime})
    c.cov["addons"] = sorted({a for s in srcs for a in s.addons})
    verd, viaC, refusals = {}, {}, {}
    c.cov["verdicts"], c.cov["option_passing"], c.cov["refusal_kinds"] = verd, viaC, refusals

    # ---- the correction options schema the library offers for each source (gobl correct --options): every enumeration
    # lists a value once (a oneOf with a repeated const accepts nothing) and the types offered are the published ones
    for s_ in srcs:
        p_ = subprocess.run([os.path.join(BIN, "gobl"), "correct", "--options", s_.path], stdout=subprocess.PIPE,
                            stderr=subprocess.PIPE, text=True, env=GOENV)
        c.count("options-schema", 1, s_.name)
        try:
            sch = json.loads(p_.stdout)
        except ValueError:
            if s_.cd["types"]:
                rep0 = {"source": s_.name, "stdout": p_.stdout[:500], "stderr": p_.stderr[:500]}
                c.report("gobl correct --options gives no JSON schema for %s" % s_.name, rep0)
            continue
        dups = []

        def walk_(x, path):
            if isinstance(x, dict):
                for k in ("oneOf", "anyOf", "enum"):
                    if isinstance(x.get(k), list):
                        vals = [json.dumps(y.get("const") if isinstance(y, dict) and "const" in y else y, sort_keys=True) for y in x[k]]
                        for v in sorted(set(v for v in vals if vals.count(v) > 1)):
                            dups.append((path + "/" + k, v))
                for k, v in x.items():
                    walk_(v, path + "/" + k)
            elif isinstance(x, list):
                for i, v in enumerate(x):
                    walk_(v, path + "/" + str(i))
        walk_(sch, "")
        if dups:
            c.report("the correction options schema offered for %s repeats %s at %s: no value satisfies that oneOf" % (s_.name, dups[0][1], dups[0][0]),
                     {"source": s_.name, "duplicates": dups[:10], "command": "gobl correct --options " + s_.name,
                      "clause": "a correction has the requested type (only one the regime and addons allow): the options schema must admit those types"})
        try:
            offered = sorted(y["const"] for y in sch["$defs"]["CorrectionOptions"]["properties"]["type"]["oneOf"])
        except (KeyError, TypeError):
            offered = None
        if offered is not None and sorted(set(offered)) != sorted(set(s_.cd["types"])):
            c.report("the correction options schema for %s offers types %s, the published definitions allow %s" % (s_.name, sorted(set(offered)), sorted(set(s_.cd["types"]))),
                     {"source": s_.name, "offered": offered, "published": s_.cd["types"]})

    # ---- what each regime / addon requires of a correction (recorded from the pinned tree in corpus/c16_requirements.json by
    # tools/mkc16req.py; these rules exist only in the validators): leaving out a required item must still make the library refuse
    try:
        base = json.load(open(REQ_FILE))
    except (OSError, ValueError):
        base = {}
        c.report("corpus/c16_requirements.json is missing", {"machinery": "tools/mkc16req.py"}, no_input=True)
    now = requirement_verdicts(srcs)
    dv_of = {s_.name: s_.derived for s_ in srcs if s_.derived}
    for n, bt in sorted(base.items()):
        for t, e in sorted(bt.items()):
            cur = now.get(n, {}).get(t)
            if cur is None or not e.get("full"):
                continue
            c.count("requirements", 1, (n, t, "full"))
            if not cur["full"]:
                c.report("%s corrected as %s with reason, every extension of the definition and the stamps supplied is refused" % (n, t),
                         {"source": n, "source_file": n, "source_derived": dv_of.get(n), "type": t, "case": cur["cases"]["full"],
                          "clause": "a correction with everything the regime requires is produced (it is refused only otherwise)"})
            for it in e["required"]:
                c.count("requirements", 1, (n, t, it))
                if it not in cur["required"] and it in cur["cases"]:
                    c.report("%s corrected as %s WITHOUT its %s is accepted (and the result validates); the regime / addon requires it" % (n, t, it),
                             {"source": n, "source_file": n, "source_derived": dv_of.get(n), "type": t, "omitted": it, "case": cur["cases"][it],
                              "clause": "the preceding reference carries the reason, extensions and stamps the regime requires - otherwise the correction is refused"})

    # ---- cases ----
    per = 6 if quick else 110
    cases = []
    for s in srcs:
        # the combination that trips the recorded finding is always present where the regime requires stamps
        cases.append(make_case(s, (s.cd["types"] or ["credit-note"])[0], rng,
                               {"stamps": "both", "via": "data", "reason": True, "ext": True, "head_order": "extra-last", "echo": False}))
        # raw JSON options naming stamps against a header that lists another stamp first, and against a header whose stamps the
        # options repeat literally (nothing to see in the source's bytes: only the overwrite of the result shows a shared stamp)
        cases.append(make_case(s, (s.cd["types"] or ["credit-note"])[0], rng,
                               {"stamps": "both", "via": "data", "reason": True, "ext": True, "head_order": "extra-first", "echo": False}))
        cases.append(make_case(s, (s.cd["types"] or ["credit-note"])[0], rng,
                               {"stamps": "both", "via": "data", "reason": True, "ext": True, "echo": True}))
        per_s = per if not s.derived else max(2, per // 3)
        for t in TYPES:
            for _ in range(per_s * (3 if t in s.cd["types"] or (t and not s.cd["types"]) else 1)):
                cases.append(make_case(s, t, rng))
        if s.derived:
            # an addon combination: the complete request (reason and EVERY extension of the merged definition) for each
            # allowed type through each way of passing options - what one addon does to the reference must not undo another's
            for t in sorted(set(s.cd["types"])):
                for via in ("opts", "data", "struct"):
                    cases.append(make_case(s, t, rng, {"via": via, "reason": True, "ext": True}))
    lines = [go_line(byname[k["source"]], k) for k in cases]
    log("cases", len(cases), round(time.time() - T0, 1))
    outs = run_go(lines, shards=16)
    log("library run", round(time.time() - T0, 1))
    obs = [Obs(l) for l in outs]
    copied = head_stamps_copied()
    c.cov["model_variant"] = "copy_head=%s (%s)" % (copied, "after fixes/C16-copy-header-stamps.diff" if copied else "the code as it stands")
    mlines = [model_case(byname[k["source"]], k, o, copied=copied) if not o.err else None for k, o in zip(cases, obs)]
    # replicate: every source, unsigned / signed / with header stamps
    rcases = []
    for s in srcs:
        for prep in ({"sign": False}, {"sign": True}, {"sign": True, "head_stamps": [{"prv": "verif-a", "val": "A"}, {"prv": "verif-b", "val": "B"}]}):
            if prep["sign"] and not s.doc.get("code"):
                continue
            rcases.append({"source": s.name, "prep": prep, "call": {"via": "-", "opts": {}}})
    routs = [Obs(l) for l in run_go(["c16 replicate %s %s" % (w(byname[k["source"]].text), w(json.dumps(k["prep"]))) for k in rcases], shards=16)]
    rml = [model_case(byname[k["source"]], k, o, replicate=True) if not o.err else None for k, o in zip(rcases, routs)]
    allm = [m for m in mlines + rml if m is not None]
    mo = iter(run_oracle(allm, shards=16))
    log("model run", len(allm), round(time.time() - T0, 1))

    shown = {}

    def rep(key, what, replay, fid=None, no_input=False):
        if shown.get(key, 0) < 2:
            shown[key] = shown.get(key, 0) + 1
            c.report(what, replay, finding_id=fid, no_input=no_input)
        else:
            c.cov["violations_not_listed_individually"] = c.cov.get("violations_not_listed_individually", 0) + 1

    alias_obs = {}
    mism = 0
    for replicate, ks, os_, ms in ((False, cases, obs, mlines), (True, rcases, routs, rml)):
        for k, o, m in zip(ks, os_, ms):
            src = byname[k["source"]]
            stream = "replicate" if replicate else "correct:" + k["call"]["via"]
            c.count(stream, 1, json.dumps(k, sort_keys=True))
            if o.err:
                rep("harness", "harness could not run the case: " + o.verdict, {"machinery": o.verdict, "case": k}, no_input=True)
                continue
            verd[o.verdict] = verd.get(o.verdict, 0) + 1
            viaC[k["call"]["via"]] = viaC.get(k["call"]["via"], 0) + 1
            replay = {"case": k, "source_file": src.name, "merged_definition": src.cd, "implementation_verdict": o.verdict,
                      "rerun": "tools/check C16 --replay <this file>"}
            if src.derived:
                replay.update(source_derived=src.derived, source_path=src.path,
                              source_note="the example's document with one more addon in $addons, enveloped by gobl.Envelop; validates")
            # -- source intact
            if not o.same01:
                data_stamps = (not replicate and k["call"]["via"] == "data" and "stamps" in k["call"]["opts"] and k["prep"].get("head_stamps"))
                only_stamps = o.b0 is not None and o.b1 is not None and \
                    {kk: v for kk, v in o.b0.items() if kk != "head"} == {kk: v for kk, v in o.b1.items() if kk != "head"} and \
                    {kk: v for kk, v in o.b0["head"].items() if kk != "stamps"} == {kk: v for kk, v in o.b1["head"].items() if kk != "stamps"}
                what = "the source envelope is changed by %s (first difference at %s): header stamps before %r, after %r" % (
                    "Replicate" if replicate else "Correct", first_diff(o.b0, o.b1),
                    (o.b0 or {}).get("head", {}).get("stamps"), (o.b1 or {}).get("head", {}).get("stamps"))
                rp = dict(replay, clause="correcting or replicating never changes the source envelope, document, header or signatures",
                          source_before=o.b0, source_after=o.b1)
                if data_stamps and only_stamps and c.known(FINDING_DATA_STAMPS):
                    c.report(what, rp, finding_id=FINDING_DATA_STAMPS)
                else:
                    rep("src", what, rp)
            elif not o.same02:
                for a in o.aliases:
                    key = re.sub(r"\d+", "*", "%s == %s" % a)
                    alias_obs[key] = alias_obs.get(key, 0) + 1
                if o.aliases and copied:
                    # (while the recorded finding was open the shared header stamps were its symptom and went to the correspondence)
                    rep("shared", "the %s shares objects with its source: writing to the result's %s changes the source's %s (source differs at %s after "
                        "overwriting the result)" % ("replica" if replicate else "correction", o.aliases[0][0], o.aliases[0][1], first_diff(o.b0, o.b2)),
                        dict(replay, clause="correcting or replicating never changes the source envelope, document, header or signatures (the new "
                             "envelope is a deep copy: nothing done with it reaches the source)", shared=o.aliases[:10], source_before=o.b0, source_after_overwriting_result=o.b2))
                if not o.aliases:
                    rep("alias?", "overwriting the result changed the source but no shared object was found", dict(replay, source_after=o.b2), no_input=True)
            # -- oracle P
            if o.verdict == "ok":
                if not replicate:
                    conds = refusal_conditions(src, k)
                    if conds:
                        rep("acc" + conds[0], "Correct accepted a request it must refuse (%s)" % ", ".join(conds),
                            dict(replay, clause="...otherwise it is refused", result=o.res))
                probs = shape_problems(src, k, o, replicate)
                # with the recorded finding the stamp value written by the caller's JSON replaces the header's in place: still "a value somebody supplied"
                if probs:
                    rep("shape" + probs[0][:25], "%s result breaks the statement: %s" % ("replica" if replicate else "correction", "; ".join(probs)),
                        dict(replay, clause=probs[0], result=o.res))
            elif o.verdict.startswith("other:"):
                refusals[o.verdict] = refusals.get(o.verdict, 0) + 1
                if o.verdict != "other:calculation":
                    rep("other", "refused with an error outside the documented conditions: " + o.verdict, replay)
            else:
                refusals[o.verdict] = refusals.get(o.verdict, 0) + 1
                conds = refusal_conditions(src, k)
                if o.verdict not in conds:
                    rep("ref" + o.verdict, "refused (%s) although the documented condition does not hold (conditions that hold: %s)" % (o.verdict, conds or "none"),
                        dict(replay, clause="refused only when: no code; type missing or not allowed; reason required and absent; required stamp absent"))
            # -- correspondence
            got = project_model(next(mo))
            want = project_go(src, k, o)
            if o.verdict == "other:calculation":
                c.count("calculation-refused(not modelled)", 1)
                continue
            if got != want:
                mism += 1
                rep("corr", "correspondence broken: Correct/Correct.v and the implementation differ (%s)" % stream,
                    {"correspondence": "c16:" + stream, "case": k, "model_line": m, "model": repr(got)[:1500], "implementation": repr(want)[:1500]}, no_input=True)
    c.cov["go_model_differences"] = mism
    c.cov["aliasing_observations(result object == source object, by path pattern)"] = alias_obs

    # ---- HTTP bulk and command line, for a subset: expected = library verdict and Validate of the library result ----
    nb = 300 if quick else 3000
    sub = [i for i in range(len(cases)) if cases[i]["call"]["via"] == "data" and not obs[i].err]
    rng.shuffle(sub)
    sub = sub[:nb]
    preps = run_go(["c16 prepare %s %s" % (w(byname[cases[i]["source"]].text), w(json.dumps(cases[i]["prep"]))) for i in sub], shards=8)
    reqs, meta = [], {}
    for i, pl in zip(sub, preps):
        v = parse_wire(pl)
        if v[0] != b"ok":
            continue
        rid = "c%d" % i
        reqs.append({"action": "correct", "req_id": rid, "payload": {"data": b64(v[1]), "options": b64(json.dumps(cases[i]["call"]["opts"]))}})
        meta[rid] = (i, v[1].decode())
    rsub = list(range(len(rcases)))
    rng.shuffle(rsub)
    # the PREPARED source (signed, header stamps) - a replica must drop them on every entry point
    rsub.sort(key=lambda j: 0 if rcases[j]["prep"].get("head_stamps") else (1 if rcases[j]["prep"].get("sign") else 2))
    rsub = rsub[:nb // 5]
    rpreps = run_go(["c16 prepare %s %s" % (w(byname[rcases[j]["source"]].text), w(json.dumps(rcases[j]["prep"]))) for j in rsub], shards=8)
    for j, pl in zip(rsub, rpreps):
        v = parse_wire(pl)
        if v[0] != b"ok":
            continue
        rid = "r%d" % j
        reqs.append({"action": "replicate", "req_id": rid, "payload": {"data": b64(v[1])}})
        meta[rid] = (j, v[1].decode())
    todays = {o.t0 for o in routs if not o.err} | {o.t1 for o in routs if not o.err}
    todays = sorted(todays | {datetime.datetime.now(datetime.timezone.utc).date().isoformat()})
    with Server() as srv:
        resp = srv.bulk(reqs)
        log("bulk run", len(reqs), round(time.time() - T0, 1))
        # ---- documents WITHOUT an envelope through bulk replicate and `gobl replicate` (internal/cli.Replicate's other branch) ----
        run_bare(c, srv, srcs, todays, rep, quick)
    cli_n = 12 if quick else 60

    def judge_entry(entry, rid, payload, error):
        idx, text = meta[rid]
        replicate = rid.startswith("r")
        k, o = (rcases[idx], routs[idx]) if replicate else (cases[idx], obs[idx])
        src = byname[k["source"]]
        c.count(entry + (":replicate" if replicate else ":correct"), 1, rid)
        if o.err:
            return
        expect_ok = o.verdict == "ok" and o.validates == "ok"
        replay = {"case": k, "entry": entry, "source_file": src.name, "library_verdict": o.verdict, "library_result_validates": o.validates,
                  "response_error": error}
        if src.derived:
            replay.update(source_derived=src.derived, source_path=src.path)
        if (payload is not None) != expect_ok:
            rep(entry + "v", "%s %s but the library %s (result validates: %s)" % (entry, "accepted" if payload is not None else "refused",
                                                                                "accepts" if o.verdict == "ok" else "refuses with " + o.verdict, o.validates), replay)
            return
        if payload is not None:
            o2 = Obs.__new__(Obs)
            o2.res, o2.t0, o2.t1 = payload, o.t0, o.t1
            probs = shape_problems(src, k, o2, replicate)
            if probs:
                rep(entry + "s", "%s result breaks the statement: %s" % (entry, "; ".join(probs)), dict(replay, clause=probs[0], result=payload))
    for rid in meta:
        d = resp.get(rid)
        if d is None:
            rep("bulk-missing", "bulk gave no response for a request", {"machinery": "bulk", "req": rid}, no_input=True)
            continue
        judge_entry("bulk", rid, d.get("payload"), d.get("error"))
    tmp = os.path.join(WORK, "c16cli.%d.json" % os.getpid())
    for rid in list(meta)[:cli_n] + [r for r in meta if r.startswith("r")][:cli_n // 3]:
        idx, text = meta[rid]
        open(tmp, "w").write(text)
        if rid.startswith("r"):
            cmd = [os.path.join(BIN, "gobl"), "replicate", tmp]
        else:
            o = dict(cases[idx]["call"]["opts"])
            cmd = [os.path.join(BIN, "gobl"), "correct"]
            if o.get("type") == "credit-note":
                cmd.append("--credit")
                del o["type"]
            elif o.get("type") == "debit-note":
                cmd.append("--debit")
                del o["type"]
            cmd += ["-d", json.dumps(o), tmp]
        p = subprocess.run(cmd, capture_output=True, text=True, env=GOENV, timeout=120)
        payload = None
        if p.returncode == 0:
            try:
                payload = json.loads(p.stdout[p.stdout.index("{"):])
            except ValueError:
                payload = None
        judge_entry("cli", rid, payload, p.stderr[-300:] if payload is None else None)
    try:
        os.remove(tmp)
    except OSError:
        pass
    log("cli run", round(time.time() - T0, 1))

    if not (verd.get("ok") and refusals.get("invalid-type") and refusals.get("missing-type") and refusals.get("missing-stamp") and refusals.get("missing-reason")):
        c.report("sweep is vacuous: a verdict class never occurred: %r %r" % (verd, refusals), {"machinery": "classes"}, no_input=True)
    c.cov["rule"] = ("sources = example envelopes under **/out/*.json holding a bill/invoice that validates, plus DERIVED sources: each of them with one more "
                     "published correction-declaring addon enabled (first / last in $addons), re-enveloped by the library and valid (quick: all whose merged "
                     "definition takes extensions from >= 2 definitions + 10 others; with the complete request per allowed type x way of passing options); "
                     "header stamps with the unrequested stamp last or first, caller's stamps with own or the header's values; cases = source x correction type "
                     "(6 invoice types + none) x random subsets of {reason, ext (keys of the merged correction definition, values from the published extension "
                     "definitions), stamps in the header / from the caller / both / none, series, issue date, copy_tax, signed} x {functional options, WithData, "
                     "WithOptions}, plus per source the combination header-stamps + WithData-with-stamps; replicate x {unsigned, signed, signed with header stamps}; "
                     "a subset of the WithData cases again through POST /bulk of `gobl serve` and `gobl correct|replicate`; BARE documents (no envelope) through "
                     "bulk replicate (all) and `gobl replicate` (file / stdin; one per regime x rate change + some of each other variant): the doc of every example "
                     "envelope of any schema and of every invoice source as it is, every example invoice without totals, every invoice source dated the day before "
                     "each published rate change of its regime (calculated for that day by the library) - judged by: same verdict and same document (up to uuid) as "
                     "the same entry point gives for the envelope holding that document, calculating the answer once more changes nothing, new uuid / no code / "
                     "today / content kept; distinct = distinct case descriptions; "
                     "non-trivial = all (each case runs Correct/Replicate, three serialisations of the source and the reflection overwrite)")
    for k in cases[1:4]:
        c.sample(k)
    if not proved:
        pr = c.proof
        c.report("proof obligations of Props/C16.v no longer check: " + (pr.get("make_log") or pr.get("log", ""))[-600:],
                 {"theorem": "rocq/Props/C16.v", "failed_files": pr.get("failed_files"), "forbidden": pr.get("forbidden")}, no_input=True)


def replay(path):
    r = json.load(open(path))["replay"]
    build_harness()
    if r.get("stream") == "bare-replicate":
        # the bare document through `gobl replicate`, the same document in an envelope through `gobl replicate`, and the answer calculated once more
        build_cli()
        bare = r["bare_document"]
        tmp = os.path.join(WORK, "c16bare-replay.%d.json" % os.getpid())
        v = parse_wire(run_go(["c08 envelop " + w(json.dumps(bare))], shards=1)[0])

        def cli_replicate(text):
            open(tmp, "w").write(text)
            p = subprocess.run([os.path.join(BIN, "gobl"), "replicate", tmp], capture_output=True, text=True, env=GOENV, timeout=120)
            try:
                return json.loads(p.stdout[p.stdout.index("{"):]) if p.returncode == 0 else None, p.stderr[-300:]
            except ValueError:
                return None, p.stderr[-300:]
        got, err = cli_replicate(json.dumps(bare))
        env_got, env_err = cli_replicate(v[1].decode()) if v and v[0] == b"ok" else (None, "the library cannot envelop the document")
        recalc = None
        if got is not None:
            v2 = parse_wire(run_go(["c08 envelop " + w(json.dumps(got))], shards=1)[0])
            recalc = json.loads(v2[1]).get("doc") if v2 and v2[0] == b"ok" else None
        try:
            os.remove(tmp)
        except OSError:
            pass
        print("source:", r.get("source_file"), json.dumps(r.get("variant")))
        print("bare document: issue_date=%s tax rates=%s" % (bare.get("issue_date"), tax_rates_of(bare)))
        print("gobl replicate <bare>:     %s" % ("refused: " + err if got is None else "issue_date=%s tax rates=%s" % (got.get("issue_date"), tax_rates_of(got))))
        print("gobl replicate <envelope>: %s" % ("refused: " + env_err if env_got is None else "issue_date=%s tax rates=%s" % (
            env_got["doc"].get("issue_date"), tax_rates_of(env_got["doc"]))))
        if recalc is not None:
            print("bare replica calculated once more: tax rates=%s" % tax_rates_of(recalc))
        k = {"bare": bare, "invoice": None}
        probs = bare_problems(k, got, env_got, recalc, [])
        print("problems:", probs or "none")
        return 1 if probs else 0
    if "case" in r and "source_file" in r:
        k = r["case"]
        if r.get("source_derived"):
            dv = r["source_derived"]
            text = derive_text(open(os.path.join(REPO, dv["base"])).read(), dv["addon"], dv["position"])
            if text is None:
                print("the derived source can no longer be built:", dv)
                return 1
        else:
            text = open(os.path.join(REPO, r["source_file"])).read()
        if k["call"]["via"] == "-":
            line = "c16 replicate %s %s" % (w(text), w(json.dumps(k["prep"])))
        else:
            line = "c16 correct %s %s %s" % (w(text), w(json.dumps(k["prep"])), w(json.dumps(k["call"])))
        o = Obs(run_go([line], shards=1)[0])
        print("case:", json.dumps(k))
        print("implementation: verdict=%s source-unchanged-by-call=%s source-unchanged-after-overwriting-result=%s shared=%s" % (
            o.verdict, getattr(o, "same01", None), getattr(o, "same02", None), getattr(o, "aliases", None)))
        if getattr(o, "res", None):
            dd = o.res.get("doc") or {}
            print("result: type=%s code=%r tax.ext=%s preceding=%s" % (dd.get("type"), dd.get("code"), json.dumps((dd.get("tax") or {}).get("ext")),
                                                                       json.dumps([{kk: vv for kk, vv in p.items() if kk != "tax"} for p in dd.get("preceding") or []])))
        if getattr(o, "b1", None) is not None:
            print("source header before:", json.dumps(o.b0["head"]))
            print("source header after: ", json.dumps(o.b1["head"]))
    if "model_line" in r:
        print("model:", run_oracle([r["model_line"]], shards=1)[0])
    return 0
