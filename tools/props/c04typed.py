"""C04 / C08, serialisation half: the typed-marshalling model (rocq/Marshal/Typed.v over the Go types regenerated
by reflection into rocq/Gen/GoTypes.v) against encoding/json on the repository's types (harness/tj.go), and the
property judged on the implementation directly: what json.Marshal wrote reads back and is written identically,
whatever the member order, unknown members, absent or null members of the text that was read."""
import copy
import glob
import json
import os
import subprocess
from vlib import *

VALUES = [None, "", "x", 0, 1, -1, 1.5, True, False, [], {}, [None], ["a"], {"a": 1}, "12.50", "10%", "2024-01-01", 12.5, "0", [1], [{}],
          {"tags": ["a"]}, "2024-02-30", "1e3", 1e3, "0000-00-00", "-0", "007", "ZGF0YQ==", "ZGF0YR==", 99999999999999999999]


class RawNum(str):
    pass


def dumps(j):
    if isinstance(j, RawNum):
        return str(j)
    if isinstance(j, dict):
        return "{" + ",".join(json.dumps(k) + ":" + dumps(v) for k, v in j.items()) + "}"
    if isinstance(j, list):
        return "[" + ",".join(dumps(v) for v in j) + "]"
    return json.dumps(j)


def paths(j, p=()):
    yield p, j
    if isinstance(j, dict):
        for k, v in j.items():
            yield from paths(v, p + (k,))
    elif isinstance(j, list):
        for i, v in enumerate(j):
            yield from paths(v, p + (i,))


def get(j, p):
    for k in p:
        j = j[k]
    return j


def setp(j, p, v):
    if not p:
        return v
    get(j, p[:-1])[p[-1]] = v
    return j


def delp(j, p):
    del get(j, p[:-1])[p[-1]]
    return j


def shuffle(rng, j):
    if isinstance(j, dict):
        ks = list(j.keys())
        rng.shuffle(ks)
        return {k: shuffle(rng, j[k]) for k in ks}
    if isinstance(j, list):
        return [shuffle(rng, x) for x in j]
    return j


# ---- spellings of uuid / date-time leaves (the forgiving Go readers against parse_uuid / parse_datetime of the model) ----
HEXD = "0123456789abcdefABCDEF"


def _hyph(h):
    return "-".join([h[0:8], h[8:12], h[12:16], h[16:20], h[20:32]])


def uuid_spelling(rng):
    """-> (family, JSON value) : every accepted family and its near misses"""
    h = "".join(rng.choice(HEXD) for _ in range(32))
    if rng.random() < 0.3:
        h = h.lower()
    u = _hyph(h)
    fam = rng.choice(["canonical", "upper", "mixed", "urn", "urn-case", "urn-miss", "braces", "outer-bytes", "outer-nonascii", "bare32",
                      "length", "length-urn", "nonhex", "nonhex-bare", "hyphen-moved", "hyphen-other", "hyphen-bare", "zero", "empty", "kind",
                      "space", "inner-brace"])
    if fam == "canonical":
        return fam, u.lower()
    if fam == "upper":
        return fam, u.upper()
    if fam == "mixed":
        return fam, u
    if fam == "urn":
        return fam, "urn:uuid:" + u
    if fam == "urn-case":
        return fam, "".join(c.upper() if rng.random() < 0.5 else c for c in "urn:uuid:") + u
    if fam == "urn-miss":
        return fam, rng.choice(["urn:uuix:", "urn-uuid:", "URN:UUID;", "urn:uuid", "uuid:urn:", "urn:\u212auid:", "\u00fcrn:uuid", "urn:uu\u0131d:", "xrn:uuid:"]) + u
    if fam == "braces":
        return fam, "{" + u + "}"
    if fam == "outer-bytes":
        a, z = rng.choice("{(x0-\" \x00\x7f}"), rng.choice("})y9- \\\x01{")
        return fam, a + u + z
    if fam == "outer-nonascii":      # two bytes in UTF-8: the length is no longer 38
        return fam, rng.choice(["\u00e9" + u + "}", "{" + u + "\u00e9", "\u00e9" + u[1:] + "}", "{" + u[:-1] + "\u00e9", "\u00e9" + u[:-1]])
    if fam == "bare32":
        return fam, h
    if fam == "length":
        n = rng.choice([31, 33, 34, 35, 37, 39, 40, 30])
        base = rng.choice([u, h, "{" + u + "}"])
        return fam, (base + "".join(rng.choice(HEXD) for _ in range(12)))[:n] if len(base) < n else base[:n]
    if fam == "length-urn":
        n = rng.choice([44, 46, 43, 47])
        base = "urn:uuid:" + u
        return fam, (base + "0123")[:n]
    if fam == "nonhex":
        i = rng.choice([k for k in range(36) if k not in (8, 13, 18, 23)])
        base = rng.choice([u, "{" + u + "}", "urn:uuid:" + u])
        off = base.index(u[:8]) if u[:8] in base else 0
        c = rng.choice("gGzZ:@`/ _-.xX")
        return fam, base[:off + i] + c + base[off + i + 1:]
    if fam == "nonhex-bare":
        i = rng.randrange(32)
        return fam, h[:i] + rng.choice("gG-:@`/ x") + h[i + 1:]
    if fam == "hyphen-moved":
        k = rng.choice([8, 13, 18, 23])
        d = rng.choice([-1, 1])
        l = list(u)
        l[k], l[k + d] = l[k + d], l[k]
        return fam, rng.choice(["", "{", "urn:uuid:"]).join(["", "".join(l)]) if rng.random() < 0.5 else "".join(l)
    if fam == "hyphen-other":
        k = rng.choice([8, 13, 18, 23])
        return fam, u[:k] + rng.choice("_:. +0a\u2010"[:8]) + u[k + 1:]
    if fam == "hyphen-bare":
        i = rng.randrange(1, 31)
        return fam, h[:i] + "-" + h[i + 1:]
    if fam == "zero":
        return fam, rng.choice(["00000000-0000-0000-0000-000000000000", "0" * 32, "{00000000-0000-0000-0000-000000000000}"])
    if fam == "empty":
        return fam, rng.choice(["", None])
    if fam == "kind":
        return fam, rng.choice([5, True, [], {}, [u], {"uuid": u}, 0, 1.5])
    if fam == "space":
        return fam, rng.choice([" " + u, u + " ", " " + u + " ", u + "\n", "\t" + u + "\t"])
    return fam, u[:9] + "{" + u[10:]


def datetime_spelling(rng):
    y = rng.choice([0, 1, 4, 100, 400, 1582, 1900, 1999, 2000, 2020, 2021, 2024, 2100, 9999, rng.randrange(0, 10000)])
    m = rng.randrange(1, 13)
    leap = y % 4 == 0 and (y % 100 != 0 or y % 400 == 0)
    dim = [31, 29 if leap else 28, 31, 30, 31, 30, 31, 31, 30, 31, 30, 31][m - 1]
    d = rng.randrange(1, dim + 1)
    hh, mi, ss = rng.randrange(24), rng.randrange(60), rng.randrange(60)
    if rng.random() < 0.3:
        hh = rng.randrange(10)
    date = "%04d-%02d-%02d" % (y, m, d)
    clock = "%02d:%02d:%02d" % (hh, mi, ss)
    t = date + "T" + clock
    fam = rng.choice(["canonical", "lower-t", "hour-1digit", "hour-1digit-miss", "field-1digit", "field-3digit", "range-hour", "range-minute",
                      "range-second", "range-month", "range-day", "leap-day", "year-edge", "fraction-zero", "fraction-nonzero", "fraction-broken",
                      "zone", "separator", "zero", "zero-miss", "space", "date-only", "kind", "sign", "nonascii-digit"])
    if fam == "canonical":
        return fam, t
    if fam == "lower-t":
        return fam, date + "t" + clock
    if fam == "hour-1digit":
        return fam, date + rng.choice("Tt") + "%d:%02d:%02d" % (rng.randrange(10), mi, ss) + rng.choice(["", "", ".0", ",000"])
    if fam == "hour-1digit-miss":
        return fam, date + "T" + rng.choice(["%d%02d:%02d" % (hh % 10, mi, ss), ":%02d:%02d" % (mi, ss), "0%02d:%02d:%02d" % (hh, mi, ss), "%d:%d:%02d" % (hh % 10, mi % 10, ss),
                                             "%d :%02d:%02d" % (hh % 10, mi, ss), " %d:%02d:%02d" % (hh % 10, mi, ss)])
    if fam == "field-1digit":
        return fam, rng.choice(["%04d-%d-%02dT%s" % (y, m % 10 or 1, d, clock), "%04d-%02d-%dT%s" % (y, m, d % 10 or 1, clock), "%sT%02d:%d:%02d" % (date, hh, mi % 10, ss),
                                "%sT%02d:%02d:%d" % (date, hh, mi, ss % 10), "%d-%02d-%02dT%s" % (y % 1000, m, d, clock)])
    if fam == "field-3digit":
        return fam, rng.choice(["%05d-%02d-%02dT%s" % (y, m, d, clock), "%04d-%03d-%02dT%s" % (y, m, d, clock), "%04d-%02d-%03dT%s" % (y, m, d, clock),
                                "%sT%03d:%02d:%02d" % (date, hh, mi, ss), "%sT%02d:%03d:%02d" % (date, hh, mi, ss), "%sT%02d:%02d:%03d" % (date, hh, mi, ss)])
    if fam == "range-hour":
        return fam, "%sT%02d:%02d:%02d" % (date, rng.choice([24, 25, 29, 30, 99]), mi, ss)
    if fam == "range-minute":
        return fam, "%sT%02d:%02d:%02d" % (date, hh, rng.choice([60, 61, 99]), ss)
    if fam == "range-second":
        return fam, "%sT%02d:%02d:%02d" % (date, hh, mi, rng.choice([60, 61, 99]))
    if fam == "range-month":
        return fam, "%04d-%02d-%02dT%s" % (y, rng.choice([0, 13, 20, 99]), d, clock)
    if fam == "range-day":
        return fam, "%04d-%02d-%02dT%s" % (y, m, rng.choice([0, dim + 1, 32, 99]), clock)
    if fam == "leap-day":
        return fam, "%04d-02-%02dT%s" % (rng.choice([0, 4, 100, 400, 1900, 2000, 2020, 2021, 2023, 2024, 2100, 9996]), rng.choice([28, 29, 30]), clock)
    if fam == "year-edge":
        return fam, "%s-%02d-%02dT%s" % (rng.choice(["0000", "0001", "9999", "10000", "-001", "+2021", "2O21", " 2021"]), m, min(d, 28), clock)
    if fam == "fraction-zero":
        return fam, t + rng.choice([".0", ".000", ".000000000", ".0000000001", ".00000000099", ",0", ",000000000", ".0000000000000000000000", ",0000000009"])
    if fam == "fraction-nonzero":
        return fam, t + rng.choice([".5", ".123456789", ".000000001", ",1", ".000000010", ".9999999999", ",000000001", ".1000000000"])
    if fam == "fraction-broken":
        return fam, t + rng.choice([".", ",", ".x", ".0x", ".0Z", ". 0", ";0", ".0.0", ".0,0", "..0", ".-0", ":0", "0"])
    if fam == "zone":
        return fam, t + rng.choice(["Z", "z", "+01:00", "-07:00", "+0000", " UTC", "+00", ".0Z", "Z0"])
    if fam == "separator":
        return fam, date + rng.choice([" ", "", "_", "TT", "-", ":", "\u0054\u0054"]) + clock
    if fam == "zero":
        return fam, "0000-00-00T00:00:00"
    if fam == "zero-miss":
        return fam, rng.choice(["0000-00-00t00:00:00", "0000-00-00T00:00:00.0", "0000-00-00T00:00:01", "0000-00-00T0:00:00", "0000-00-01T00:00:00", "0000-01-00T00:00:00",
                                "0000-00-00", "0000-00-00T00:00:00Z", "0000-01-01T00:00:00", "0001-01-01T00:00:00"])
    if fam == "space":
        return fam, rng.choice([" " + t, t + " ", t + "\n", "\t" + t])
    if fam == "date-only":
        return fam, rng.choice([date, date + "T", date + "T" + clock[:5], date + "T" + clock[:2], clock, ""])
    if fam == "kind":
        return fam, rng.choice([None, 5, True, [], {}, [t], 20210526134500, 0])
    if fam == "sign":
        return fam, rng.choice([date + "T+%d:%02d:%02d" % (hh % 10, mi, ss), date + "T-%d:%02d:%02d" % (hh % 10, mi, ss), "%04d-+%d-%02dT%s" % (y, m % 10, d, clock),
                                date + "T%02d:+%d:%02d" % (hh, mi % 10, ss)])
    return fam, t.replace(str(rng.randrange(10)), rng.choice(["\u0660", "\u0663", "\uff11", "\u00b2"]), 1)


DT_MEMBERS = ("at", "issue_date_time", "purchase_date_time")


def place_leaf(rng, j, what):
    """put a spelling at a uuid / date-time member of the document (an existing one, else a new one where the Go type has it)"""
    j = copy.deepcopy(j)
    fam, v = uuid_spelling(rng) if what == "uuid" else datetime_spelling(rng)
    names = ("uuid",) if what == "uuid" else DT_MEMBERS
    cand = [p for p, _ in paths(j) if p and p[-1] in names]
    doc = j.get("doc") if isinstance(j.get("doc"), dict) and isinstance(j.get("head"), dict) else j
    if what == "uuid":
        if cand and rng.random() < 0.6:
            return fam, setp(j, rng.choice(cand), v)
        tgt = rng.choice([j.get("head") if doc is not j else doc, doc])
        tgt["uuid"] = v
        return fam, j
    if cand and rng.random() < 0.7:
        return fam, setp(j, rng.choice(cand), v)
    if isinstance(doc.get("supplier"), dict) and isinstance(doc.get("lines"), list):     # bill.Invoice and its kin: currency.ExchangeRate.at
        doc["exchange_rates"] = [{"from": "USD", "to": "EUR", "at": v, "amount": "0.92"}]
        return fam, j
    if cand:
        return fam, setp(j, rng.choice(cand), v)
    return None, j


KINDS = ["shuffle", "shuffle", "unknown", "unknown", "remove", "remove", "nullify", "retype", "value", "value", "case", "dup", "legacy", "empty"]


def vary(rng, j):
    j = copy.deepcopy(j)
    kind = rng.choice(KINDS)
    ps = list(paths(j))
    if kind == "unknown":
        objs = [p for p, v in ps if isinstance(v, dict)]
        get(j, rng.choice(objs))[rng.choice(["zz_unknown", "Xtra", "a-b", "_", "zz", "$zz"])] = rng.choice(VALUES)
        return kind, j
    if kind in ("remove", "nullify", "value", "empty", "retype"):
        cand = [p for p, v in ps if p]
        if kind == "retype":
            import re
            cand = [p for p, v in ps if p and isinstance(v, str) and re.fullmatch(r"-?(0|[1-9][0-9]*)(\.[0-9]+)?", v)]
        if cand:
            p = rng.choice(cand)
            if kind == "remove":
                return kind, delp(j, p)
            if kind == "nullify":
                return kind, setp(j, p, None)
            if kind == "value":
                return kind, setp(j, p, rng.choice(VALUES))
            if kind == "retype":
                return kind, setp(j, p, RawNum(get(j, p)))
            v = get(j, p)
            return kind, setp(j, p, [] if isinstance(v, list) else {} if isinstance(v, dict) else "" if isinstance(v, str) else 0)
        kind = "shuffle"
    if kind == "case":
        objs = [p for p, v in ps if isinstance(v, dict) and v]
        p = rng.choice(objs)
        o = get(j, p)
        k = rng.choice(list(o))
        nk = k.upper() if rng.random() < 0.5 else k.capitalize()
        return kind, setp(j, p, {(nk if kk == k else kk): vv for kk, vv in o.items()})
    if kind == "legacy":
        objs = [p for p, v in ps if isinstance(v, dict)]
        get(j, rng.choice(objs))[rng.choice(["desc", "name", "addr", "tags"])] = rng.choice(["legacy text", "", ["one", "two"], [], None, 5, ["x", 1], [""]])
        return kind, j
    if kind == "dup":
        return kind, j
    return "shuffle", shuffle(rng, j)


def wtree(v):
    if isinstance(v, list):
        return "( " + " ".join(wtree(x) for x in v) + " )" if v else "( )"
    if isinstance(v, int):
        return str(v)
    return "x" + v.hex()


def both(cases):
    """cases: (schema id, json text) -> (go verdict, go stable flag, model verdict)"""
    lines = ["tj schema %s %s" % (w(s), w(d)) for s, d in cases]
    go = [parse_wire(x) for x in run_go(lines, shards=16, min_shard=64)]
    ml = []
    for (s, d), g in zip(cases, go):
        ml.append("tj schema %s %s" % (w(s), wtree(g[0])) if len(g) >= 2 else "tj bad")
    mo = [parse_wire(x) for x in run_oracle(ml, shards=16, min_shard=64)]
    out = []
    for g, m in zip(go, mo):
        gv = g[1] if len(g) >= 2 else [b"notjson"]
        st = (g[2] == 1) if len(g) >= 3 else None
        mv = m[0] if m else [b"none"]
        out.append((gv, st, mv))
    return out, ml


def shrink(sid, j, fails):
    """greedy member removal while the failure persists"""
    changed = True
    while changed:
        changed = False
        for p, _ in sorted(paths(j), key=lambda x: -len(x[0])):
            if not p or p == ("$schema",):
                continue
            jj = copy.deepcopy(j)
            try:
                delp(jj, p)
            except Exception:
                continue
            if fails(jj):
                j = jj
                changed = True
                break
    return j


def run_all(c, quick, rich_dir):
    import time
    t0 = time.time()
    # (0) the translator met a custom (un)marshaller the model has no leaf for
    p = subprocess.run([os.path.join(BIN, "vharness"), "gotypes-opaque"], stdout=subprocess.PIPE, stderr=subprocess.PIPE, env=GOENV, text=True)
    opaque = [l for l in p.stdout.splitlines() if l.strip() and not l.startswith("WARNING")]
    c.cov["typed_opaque_types"] = opaque
    if opaque:
        c.report("the Go types have (un)marshallers the typed-marshalling model does not know: %s" % "; ".join(opaque)[:600],
                 {"correspondence": "typed-marshalling: Gen/GoTypes.v renders these types LOpaque", "types": opaque}, no_input=True)
    srcs = []
    files = sorted(glob.glob(os.path.join(REPO, "examples", "**", "*.json"), recursive=True)) + sorted(glob.glob(os.path.join(rich_dir, "rich-*.json")))
    for f in files:
        try:
            j = json.load(open(f))
        except Exception:
            continue
        if isinstance(j, dict) and isinstance(j.get("$schema"), str):
            srcs.append((os.path.relpath(f, REPO) if f.startswith(REPO) else os.path.basename(f), j))
    rng = c.rng
    cases = [(n, "source", j["$schema"], json.dumps(j).encode(), j) for n, j in srcs]
    nvar = 2500 if quick else 120000
    for _ in range(nvar):
        n, j = rng.choice(srcs)
        kind, j2 = vary(rng, j)
        txt = dumps(j2)
        if kind == "dup" and j2:
            k = next(iter(j2))
            txt = txt[:-1] + "," + json.dumps(k) + ":" + dumps(j2[k]) + "}"
        cases.append((n, kind, j["$schema"], txt.encode(), j2))
    # spellings of the uuid / date-time leaves at members of those types
    nleaf = 1500 if quick else 60000
    family = {}
    dt_srcs = [(n, j) for n, j in srcs if any(p and p[-1] in DT_MEMBERS for p, _ in paths(j))
               or (isinstance(j.get("doc", j), dict) and isinstance(j.get("doc", j).get("supplier"), dict) and isinstance(j.get("doc", j).get("lines"), list))]
    for i in range(nleaf):
        what = "uuid" if i % 2 == 0 or not dt_srcs else "datetime"
        n, j = rng.choice(srcs if what == "uuid" else dt_srcs)
        fam, j2 = place_leaf(rng, j, what)
        if fam is None:
            continue
        family[len(cases)] = "%s:%s" % (what, fam)
        cases.append((n, "leaf-" + what, j["$schema"], dumps(j2).encode(), j2))
    res, mlines = both([(s, d) for _, _, s, d, _ in cases])
    stats = {}
    shown = {"corr": 0, "stable": 0}
    src_dom = 0
    fam_stats = {}
    for idx, ((n, kind, sid, d, j2), (gv, st, mv), ml) in enumerate(zip(cases, res, mlines)):
        gk, mk = gv[0].decode(), mv[0].decode()
        if gk == "notjson":
            continue
        if idx in family:
            fs = fam_stats.setdefault(family[idx], {})
            fk = "go=%s model=%s" % (gk, mk)
            fs[fk] = fs.get(fk, 0) + 1
        key = "%s go=%s model=%s" % (kind, gk, mk)
        stats[key] = stats.get(key, 0) + 1
        c.count("typed-marshal:" + kind, 1, d if mk != "dom" else None)
        if kind == "source" and mk == "dom":
            src_dom += 1
        # the property on the implementation: the written text reads back to itself
        if gk == "ok" and st is False and shown["stable"] < 3:
            shown["stable"] += 1
            def fails(jj):
                r, _ = both([(sid, dumps(jj).encode())])
                return r[0][0][0] == b"ok" and r[0][1] is False
            small = shrink(sid, j2, fails) if kind != "dup" else j2
            c.report("what json.Marshal wrote for %s does not read back to itself (source %s, variation %s)" % (sid, n, kind),
                     {"schema": sid, "input": dumps(small) if kind != "dup" else d.decode("utf8", "replace"), "variation": kind, "source": n,
                      "clause": "parsing any serialised document and serialising it again is the identity",
                      "rerun": "echo 'tj schema %s %s' | bin/vharness" % (w(sid), w(dumps(small).encode() if kind != "dup" else d))})
        if mk == "dom":
            continue
        if gv != mv and shown["corr"] < 3:
            shown["corr"] += 1
            def fails(jj):
                r, _ = both([(sid, dumps(jj).encode())])
                return r[0][2][0] != b"dom" and r[0][0] != r[0][2]
            small = shrink(sid, j2, fails) if kind != "dup" else j2
            r1, ml1 = both([(sid, dumps(small).encode())])
            c.report("typed marshalling: encoding/json on the repository's types and the model differ for %s (source %s, variation %s): implementation %s, model %s"
                     % (sid, n, kind, str(r1[0][0])[:300], str(r1[0][2])[:300]),
                     {"correspondence": "typed-marshal (harness/tj.go vs rocq/Marshal/Typed.v over Gen/GoTypes.v)", "schema": sid, "input": dumps(small),
                      "variation": kind, "source": n, "theorems": "serialised_schema_document_reads_back_identically, reenc_struct_member_order_irrelevant, reenc_ignores_unknown_members (rocq/Props/C04.v) speak about the model only while this holds",
                      "rerun": "echo 'tj schema %s %s' | bin/vharness ; echo '%s' | bin/oracle" % (w(sid), w(dumps(small).encode()), ml1[0])},
                     no_input=True)
    c.cov["typed_marshal"] = {"sources": len(srcs), "variations": nvar, "leaf_spellings": nleaf, "leaf_spelling_families": fam_stats,
                              "verdicts": stats, "sources_outside_model_domain": src_dom,
                              "note": "model verdict dom = outside the modelled domain (case-insensitive member match, duplicate members, non-canonical float / base64 / signature spellings, legacy tax.tags): counted, not compared; uuid and date-time spellings are read exactly by the model"}
    # every family of uuid / date-time spellings must have been compared (not skipped as dom) at least once
    never = sorted(f for f, v in fam_stats.items() if all(k.endswith("model=dom") for k in v))
    if never:
        c.report("typed marshalling: uuid / date-time spelling families never compared (model answered dom every time): %s" % ", ".join(never),
                 {"correspondence": "typed-marshal leaf spellings", "families": never}, no_input=True)
    if srcs and src_dom * 5 > len(srcs):
        c.report("typed marshalling: %d of %d unmodified source documents are outside the model's domain" % (src_dom, len(srcs)),
                 {"correspondence": "typed-marshal domain", "sources_outside": src_dom}, no_input=True)
    c.cov["typed_marshal"]["seconds_correspondence"] = round(time.time() - t0, 1)
    # a sample re-evaluated inside Coq
    sample = [ml for ml, (gv, st, mv) in zip(mlines, res) if mv[0] != b"dom" and ml != "tj bad" and len(ml) < 6000][:: max(1, len(mlines) // 10)][:10]
    if sample:
        try:
            inside = coq_eval(sample)
            outside = run_oracle(sample)
            diff = [(a, b) for a, b in zip(inside, outside) if a.split() != b.split()]
            c.cov["typed_marshal"]["vm_compute_crosscheck"] = {"cases": len(sample), "differences": len(diff)}
            if diff:
                c.report("extracted typed-marshalling model and vm_compute disagree", {"machinery": "extraction", "case": sample[0][:400]}, no_input=True)
        except Exception as e:      # the cross-check is a mitigation, not the tie
            c.cov["typed_marshal"]["vm_compute_crosscheck"] = "skipped: %s" % str(e)[:200]
    c.cov["typed_marshal"]["seconds_total"] = round(time.time() - t0, 1)
