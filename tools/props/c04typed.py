"""C04 / C08, serialisation half: the typed-marshalling model (rocq/Marshal/Typed.v over the Go types regenerated
by reflection into rocq/Gen/GoTypes.v) against encoding/json on the repository's types (harness/tj.go), and the
property judged on the implementation directly: what json.Marshal wrote reads back and is written identically,
whatever the member order, unknown members, absent or null members of the text that was read."""
import copy
import glob
import json
import os
import subprocess
from vlib import *

VALUES = [None, "", "x", 0, 1, -1, 1.5, True, False, [], {}, [None], ["a"], {"a": 1}, "12.50", "10%", "2024-01-01", 12.5, "0", [1], [{}],
          {"tags": ["a"]}, "2024-02-30", "1e3", 1e3, "0000-00-00", "-0", "007", "ZGF0YQ==", "ZGF0YR==", 99999999999999999999]


class RawNum(str):
    pass


def dumps(j):
    if isinstance(j, RawNum):
        return str(j)
    if isinstance(j, dict):
        return "{" + ",".join(json.dumps(k) + ":" + dumps(v) for k, v in j.items()) + "}"
    if isinstance(j, list):
        return "[" + ",".join(dumps(v) for v in j) + "]"
    return json.dumps(j)


def paths(j, p=()):
    yield p, j
    if isinstance(j, dict):
        for k, v in j.items():
            yield from paths(v, p + (k,))
    elif isinstance(j, list):
        for i, v in enumerate(j):
            yield from paths(v, p + (i,))


def get(j, p):
    for k in p:
        j = j[k]
    return j


def setp(j, p, v):
    if not p:
        return v
    get(j, p[:-1])[p[-1]] = v
    return j


def delp(j, p):
    del get(j, p[:-1])[p[-1]]
    return j


def shuffle(rng, j):
    if isinstance(j, dict):
        ks = list(j.keys())
        rng.shuffle(ks)
        return {k: shuffle(rng, j[k]) for k in ks}
    if isinstance(j, list):
        return [shuffle(rng, x) for x in j]
    return j


KINDS = ["shuffle", "shuffle", "unknown", "unknown", "remove", "remove", "nullify", "retype", "value", "value", "case", "dup", "legacy", "empty"]


def vary(rng, j):
    j = copy.deepcopy(j)
    kind = rng.choice(KINDS)
    ps = list(paths(j))
    if kind == "unknown":
        objs = [p for p, v in ps if isinstance(v, dict)]
        get(j, rng.choice(objs))[rng.choice(["zz_unknown", "Xtra", "a-b", "_", "zz", "$zz"])] = rng.choice(VALUES)
        return kind, j
    if kind in ("remove", "nullify", "value", "empty", "retype"):
        cand = [p for p, v in ps if p]
        if kind == "retype":
            import re
            cand = [p for p, v in ps if p and isinstance(v, str) and re.fullmatch(r"-?(0|[1-9][0-9]*)(\.[0-9]+)?", v)]
        if cand:
            p = rng.choice(cand)
            if kind == "remove":
                return kind, delp(j, p)
            if kind == "nullify":
                return kind, setp(j, p, None)
            if kind == "value":
                return kind, setp(j, p, rng.choice(VALUES))
            if kind == "retype":
                return kind, setp(j, p, RawNum(get(j, p)))
            v = get(j, p)
            return kind, setp(j, p, [] if isinstance(v, list) else {} if isinstance(v, dict) else "" if isinstance(v, str) else 0)
        kind = "shuffle"
    if kind == "case":
        objs = [p for p, v in ps if isinstance(v, dict) and v]
        p = rng.choice(objs)
        o = get(j, p)
        k = rng.choice(list(o))
        nk = k.upper() if rng.random() < 0.5 else k.capitalize()
        return kind, setp(j, p, {(nk if kk == k else kk): vv for kk, vv in o.items()})
    if kind == "legacy":
        objs = [p for p, v in ps if isinstance(v, dict)]
        get(j, rng.choice(objs))[rng.choice(["desc", "name", "addr", "tags"])] = rng.choice(["legacy text", "", ["one", "two"], [], None, 5, ["x", 1], [""]])
        return kind, j
    if kind == "dup":
        return kind, j
    return "shuffle", shuffle(rng, j)


def wtree(v):
    if isinstance(v, list):
        return "( " + " ".join(wtree(x) for x in v) + " )" if v else "( )"
    if isinstance(v, int):
        return str(v)
    return "x" + v.hex()


def both(cases):
    """cases: (schema id, json text) -> (go verdict, go stable flag, model verdict)"""
    lines = ["tj schema %s %s" % (w(s), w(d)) for s, d in cases]
    go = [parse_wire(x) for x in run_go(lines, shards=16, min_shard=64)]
    ml = []
    for (s, d), g in zip(cases, go):
        ml.append("tj schema %s %s" % (w(s), wtree(g[0])) if len(g) >= 2 else "tj bad")
    mo = [parse_wire(x) for x in run_oracle(ml, shards=16, min_shard=64)]
    out = []
    for g, m in zip(go, mo):
        gv = g[1] if len(g) >= 2 else [b"notjson"]
        st = (g[2] == 1) if len(g) >= 3 else None
        mv = m[0] if m else [b"none"]
        out.append((gv, st, mv))
    return out, ml


def shrink(sid, j, fails):
    """greedy member removal while the failure persists"""
    changed = True
    while changed:
        changed = False
        for p, _ in sorted(paths(j), key=lambda x: -len(x[0])):
            if not p or p == ("$schema",):
                continue
            jj = copy.deepcopy(j)
            try:
                delp(jj, p)
            except Exception:
                continue
            if fails(jj):
                j = jj
                changed = True
                break
    return j


def run_all(c, quick, rich_dir):
    import time
    t0 = time.time()
    # (0) the translator met a custom (un)marshaller the model has no leaf for
    p = subprocess.run([os.path.join(BIN, "vharness"), "gotypes-opaque"], stdout=subprocess.PIPE, stderr=subprocess.PIPE, env=GOENV, text=True)
    opaque = [l for l in p.stdout.splitlines() if l.strip() and not l.startswith("WARNING")]
    c.cov["typed_opaque_types"] = opaque
    if opaque:
        c.report("the Go types have (un)marshallers the typed-marshalling model does not know: %s" % "; ".join(opaque)[:600],
                 {"correspondence": "typed-marshalling: Gen/GoTypes.v renders these types LOpaque", "types": opaque}, no_input=True)
    srcs = []
    files = sorted(glob.glob(os.path.join(REPO, "examples", "**", "*.json"), recursive=True)) + sorted(glob.glob(os.path.join(rich_dir, "rich-*.json")))
    for f in files:
        try:
            j = json.load(open(f))
        except Exception:
            continue
        if isinstance(j, dict) and isinstance(j.get("$schema"), str):
            srcs.append((os.path.relpath(f, REPO) if f.startswith(REPO) else os.path.basename(f), j))
    rng = c.rng
    cases = [(n, "source", j["$schema"], json.dumps(j).encode(), j) for n, j in srcs]
    nvar = 2500 if quick else 120000
    for _ in range(nvar):
        n, j = rng.choice(srcs)
        kind, j2 = vary(rng, j)
        txt = dumps(j2)
        if kind == "dup" and j2:
            k = next(iter(j2))
            txt = txt[:-1] + "," + json.dumps(k) + ":" + dumps(j2[k]) + "}"
        cases.append((n, kind, j["$schema"], txt.encode(), j2))
    res, mlines = both([(s, d) for _, _, s, d, _ in cases])
    stats = {}
    shown = {"corr": 0, "stable": 0}
    src_dom = 0
    for (n, kind, sid, d, j2), (gv, st, mv), ml in zip(cases, res, mlines):
        gk, mk = gv[0].decode(), mv[0].decode()
        if gk == "notjson":
            continue
        key = "%s go=%s model=%s" % (kind, gk, mk)
        stats[key] = stats.get(key, 0) + 1
        c.count("typed-marshal:" + kind, 1, d if mk != "dom" else None)
        if kind == "source" and mk == "dom":
            src_dom += 1
        # the property on the implementation: the written text reads back to itself
        if gk == "ok" and st is False and shown["stable"] < 3:
            shown["stable"] += 1
            def fails(jj):
                r, _ = both([(sid, dumps(jj).encode())])
                return r[0][0][0] == b"ok" and r[0][1] is False
            small = shrink(sid, j2, fails) if kind != "dup" else j2
            c.report("what json.Marshal wrote for %s does not read back to itself (source %s, variation %s)" % (sid, n, kind),
                     {"schema": sid, "input": dumps(small) if kind != "dup" else d.decode("utf8", "replace"), "variation": kind, "source": n,
                      "clause": "parsing any serialised document and serialising it again is the identity",
                      "rerun": "echo 'tj schema %s %s' | bin/vharness" % (w(sid), w(dumps(small).encode() if kind != "dup" else d))})
        if mk == "dom":
            continue
        if gv != mv and shown["corr"] < 3:
            shown["corr"] += 1
            def fails(jj):
                r, _ = both([(sid, dumps(jj).encode())])
                return r[0][2][0] != b"dom" and r[0][0] != r[0][2]
            small = shrink(sid, j2, fails) if kind != "dup" else j2
            r1, ml1 = both([(sid, dumps(small).encode())])
            c.report("typed marshalling: encoding/json on the repository's types and the model differ for %s (source %s, variation %s): implementation %s, model %s"
                     % (sid, n, kind, str(r1[0][0])[:300], str(r1[0][2])[:300]),
                     {"correspondence": "typed-marshal (harness/tj.go vs rocq/Marshal/Typed.v over Gen/GoTypes.v)", "schema": sid, "input": dumps(small),
                      "variation": kind, "source": n, "theorems": "serialised_schema_document_reads_back_identically, reenc_struct_member_order_irrelevant, reenc_ignores_unknown_members (rocq/Props/C04.v) speak about the model only while this holds",
                      "rerun": "echo 'tj schema %s %s' | bin/vharness ; echo '%s' | bin/oracle" % (w(sid), w(dumps(small).encode()), ml1[0])},
                     no_input=True)
    c.cov["typed_marshal"] = {"sources": len(srcs), "variations": nvar, "verdicts": stats, "sources_outside_model_domain": src_dom,
                              "note": "model verdict dom = outside the modelled domain (case-insensitive member match, duplicate members, non-canonical date-time / uuid / float / base64 spellings, legacy tax.tags): counted, not compared"}
    if srcs and src_dom * 5 > len(srcs):
        c.report("typed marshalling: %d of %d unmodified source documents are outside the model's domain" % (src_dom, len(srcs)),
                 {"correspondence": "typed-marshal domain", "sources_outside": src_dom}, no_input=True)
    c.cov["typed_marshal"]["seconds_correspondence"] = round(time.time() - t0, 1)
    # a sample re-evaluated inside Coq
    sample = [ml for ml, (gv, st, mv) in zip(mlines, res) if mv[0] != b"dom" and ml != "tj bad" and len(ml) < 6000][:: max(1, len(mlines) // 10)][:10]
    if sample:
        try:
            inside = coq_eval(sample)
            outside = run_oracle(sample)
            diff = [(a, b) for a, b in zip(inside, outside) if a.split() != b.split()]
            c.cov["typed_marshal"]["vm_compute_crosscheck"] = {"cases": len(sample), "differences": len(diff)}
            if diff:
                c.report("extracted typed-marshalling model and vm_compute disagree", {"machinery": "extraction", "case": sample[0][:400]}, no_input=True)
        except Exception as e:      # the cross-check is a mitigation, not the tie
            c.cov["typed_marshal"]["vm_compute_crosscheck"] = "skipped: %s" % str(e)[:200]
    c.cov["typed_marshal"]["seconds_total"] = round(time.time() - t0, 1)
