"""C01 - document totals equal exact decimal arithmetic over the inputs.
Tie: Go (gobl.Parse -> Envelop -> JSON) vs the extracted calculation model (Calc/Calc.v) vs an
independent exact python reading, on the same generated invoices; a figure on which Go differs from
both is the failing input."""
import copy
from vlib import *
import calcgen as cg

TRUSTED = ["modelled, not verified: rate-key resolution is taken from data/regimes/*.json (C12's subject); "
           "regime/addon normalisers and scenarios do not take part in the arithmetic and are not modelled; "
           "float64 arithmetic of num is covered by C05 inside the 2^52 domain, which the generator enforces and counts"]
FIG = ["lines", "sum", "discount", "charge", "tax_included", "total", "tax", "total_with_tax", "payable", "advances", "due",
       "discount rows", "charge rows", "advance rows", "due dates", "tax categories", "taxes.sum"]


def first_diff(a, b):
    if a == b:
        return None
    if len(a) == 2 and len(b) == 2 and a[0] == b"ok" and b[0] == b"ok":
        for i, (x, y) in enumerate(zip(a[1], b[1])):
            if x != y:
                return FIG[i] if i < len(FIG) else str(i)
    return "outcome"


def error_docs(c, g, n):
    """documents the calculation must refuse: missing exchange rate, retained category included in prices."""
    out = []
    for _ in range(n):
        d = g.doc(regimes=("ES",))
        if c.rng.random() < 0.5:
            d["lines"][0]["item"]["currency"] = "GBP" if d["currency"] != "GBP" else "USD"
            d["lines"][0]["item"].pop("alt_prices", None)
            d.pop("exchange_rates", None)
            for l in d["lines"]:
                if l["item"].get("currency") and l["item"]["currency"] != d["currency"]:
                    l["item"].pop("alt_prices", None)
        else:
            d.setdefault("tax", {})["prices_include"] = "IRPF"
            d["lines"][0]["taxes"] = [{"cat": "VAT", "rate": "standard"}, {"cat": "IRPF", "rate": "pro"}]
        out.append(d)
    return out


def judge(c, res, stream, prop="C01", clause="every figure equals exact decimal arithmetic with half-away rounding at the documented points"):
    """three-way comparison; reports failing inputs. Returns number of Go/model mismatches."""
    mism = 0
    reported = 0
    for r in res:
        if not r["in_domain"]:
            c.count("out-of-domain(informational)", 1)
            continue
        nontriv = (stream, json.dumps(r["doc"], sort_keys=True))
        c.count(stream, 1, nontriv)
        gm = first_diff(r["go"], r["model"])
        gp = first_diff(r["go"], r["py"])
        if gm is None and gp is None:
            continue
        mism += 1
        if reported >= 3:
            continue
        reported += 1
        if gm is not None and gp is not None:
            def fails(d):
                x = cg.run3([d])[0]
                return x["in_domain"] and first_diff(x["go"], x["model"]) is not None and first_diff(x["go"], x["py"]) is not None
            small = cg.shrink_doc(r["doc"], fails)
            x = cg.run3([small])[0]
            c.report("%s: figure `%s` computed by the implementation differs from exact arithmetic (model and independent reading agree with each other)" % (prop, first_diff(x["go"], x["model"])),
                     {"document": small, "implementation": x["go_raw"], "model": x["model_raw"], "clause": clause,
                      "figure": first_diff(x["go"], x["model"])})
        elif gm is not None:
            c.report("correspondence broken: extracted model differs from the implementation on `%s` while the independent reading agrees with the implementation" % gm,
                     {"correspondence": "corr:%s:%s" % (prop, stream), "document": r["doc"], "implementation": r["go_raw"], "model": r["model_raw"]}, no_input=True)
        else:
            c.report("oracle disagreement: independent reading differs from implementation and model on `%s`" % gp,
                     {"correspondence": "oracle:%s:%s" % (prop, stream), "document": r["doc"], "implementation": r["go_raw"]}, no_input=True)
    return mism


def run(c):
    quick = c.tier == "quick"
    if not std_builds(c):
        return
    cg.reset_tables()
    proved = c.prove()
    ok, out = build_oracle()
    if not ok:
        c.report("extraction/oracle build failed: " + out[-800:], {"machinery": "oracle"}, no_input=True)
        return
    g = cg.Gen(c.rng)
    n = 5000 if quick else 250000
    streams = {
        "mixed": [g.doc() for _ in range(n)],
        "many-lines": [g.doc(big=True) for _ in range(n // 25)],
        "refused": error_docs(c, g, n // 25),
    }
    ties = 0
    mism = 0
    for name, docs in streams.items():
        for i in range(0, len(docs), 20000):
            res = cg.run3(docs[i:i + 20000])
            mism += judge(c, res, name)
            for r in res[:2]:
                c.sample({"stream": name, "document": r["doc"], "implementation": r["go_raw"][:300]}, limit=4)
            c.cov.setdefault("outcomes", {})
            for r in res:
                k = "error" if is_err(r["go"]) else r["go"][0].decode()
                c.cov["outcomes"][k] = c.cov["outcomes"].get(k, 0) + 1
    c.cov["rule"] = ("invoices generated from the seed: 1-5 (or 8-40) lines, sub-line breakdowns, signed quantities and prices with 0-6 decimals, "
                     "tie atoms (quantities 0.5/1.5/2.5/0.25/0.125, odd last digits, 0.5%/2.5%/12.5%/50%), fixed/percent/base/rate-quantity discounts and charges, "
                     "foreign-currency items by exchange rate or alternative price, advances and due dates, tax-included prices, both rules and regime defaults "
                     "(ES, EL, PT), currencies with 0/2/3 decimals; distinct = distinct documents; non-trivial = inside the 2^52 magnitude domain of C05 "
                     "(others informational); compared: every line figure, every total, every tax group")
    c.cov["go_model_differences"] = mism
    if not proved:
        pr = c.proof
        c.report("proof obligations of Props/C01.v no longer check: " + (pr.get("make_log") or pr.get("log", ""))[-600:],
                 {"theorem": "rocq/Props/C01.v", "failed_files": pr.get("failed_files"), "forbidden": pr.get("forbidden")}, no_input=True)


def replay(path):
    r = json.load(open(path))["replay"]
    build_harness()
    x = cg.run3([r["document"]])[0]
    print("implementation:", x["go_raw"])
    print("model:         ", x["model_raw"])
    print("python reading:", w(x["py"]))
    return 0
