"""C01 - document totals equal exact decimal arithmetic over the inputs.
Tie: Go (gobl.Parse -> Envelop -> JSON) vs the extracted calculation model (Calc/Calc.v) vs an
independent exact python reading, on the same generated invoices; a figure on which Go differs from
both is the failing input."""
import copy
from vlib import *
import calcgen as cg

TRUSTED = ["modelled, not verified: rate-key resolution is taken from data/regimes/*.json (C12's subject); "
           "regime/addon normalisers and scenarios do not take part in the arithmetic and are not modelled; "
           "float64 arithmetic of num is covered by C05 inside the 2^52 domain, which the generator enforces and counts"]
FIG = ["lines", "sum", "discount", "charge", "tax_included", "total", "tax", "total_with_tax", "payable", "advances", "due",
       "discount rows", "charge rows", "advance rows", "due dates", "tax categories", "taxes.sum", "rounding"]


def first_diff(a, b):
    if a == b:
        return None
    if len(a) == 2 and len(b) == 2 and a[0] == b"ok" and b[0] == b"ok":
        for i, (x, y) in enumerate(zip(a[1], b[1])):
            if x != y:
                return FIG[i] if i < len(FIG) else str(i)
    return "outcome"


def error_docs(c, g, n):
    """documents the calculation must refuse: missing exchange rate, retained category included in prices."""
    out = []
    for _ in range(n):
        d = g.doc(regimes=("ES",))
        if c.rng.random() < 0.5:
            d["lines"][0]["item"]["currency"] = "GBP" if d["currency"] != "GBP" else "USD"
            d["lines"][0]["item"].pop("alt_prices", None)
            d.pop("exchange_rates", None)
            for l in d["lines"]:
                if l["item"].get("currency") and l["item"]["currency"] != d["currency"]:
                    l["item"].pop("alt_prices", None)
        else:
            d.setdefault("tax", {})["prices_include"] = "IRPF"
            d["lines"][0]["taxes"] = [{"cat": "VAT", "rate": "standard"}, {"cat": "IRPF", "rate": "pro"}]
        out.append(d)
    return out


ROUTES = ("build-again", "edit-and-build", "calculate-twice")


def run_cases(docs):
    """cg.run3 for documents that may carry a `_route` note (stream `recalculated`): the document is the
    serialised result of a first calculation; under `calculate-twice` the implementation is not given that text
    but reaches the same state in memory (Parse + Envelop of `_source`, then Envelope.Calculate again)."""
    if not any(d.get("_route") == "calculate-twice" for d in docs):
        return cg.run3(docs)
    lines = [cg.json_line("calc2", d["_source"]) if d.get("_route") == "calculate-twice" else cg.json_line("calc", d) for d in docs]
    return cg.run3(docs, go_lines=lines)


def edit_calculated(rng, g, doc):
    """what a user does to a built document before building it again: another quantity or price, a line
    removed or repeated, another document discount - every derived figure still in place"""
    ls = doc["lines"]
    k = rng.randrange(5)
    l = rng.choice(ls)
    if k == 0:
        l["quantity"] = rng.choice(cg.TIE_Q) if rng.random() < 0.5 else g.amt(3000, 3, True)
    elif k == 1:
        l["quantity"] = cg.fmt(cg.parse(l["quantity"]).add(cg.parse(l["quantity"])))
    elif k == 2:
        l["item"]["price"] = g.amt(200000, rng.choice([0, 1, 2, 3, 4]), tie=True)
        l["item"].pop("alt_prices", None)
    elif k == 3 and len(ls) > 1:
        ls.remove(l)
    elif k == 3:
        ls.append(copy.deepcopy(l))
    else:
        doc.setdefault("discounts", []).append({"reason": "e", "percent": rng.choice(cg.PCT[:9])})


def recalculated_docs(c, g, sources):
    """The serialised result of a first calculation is itself a document (it is what `gobl build` of a built file,
    a correction, or an edit-and-rebuild receives): every derived figure is already present next to the percentage,
    rate or breakdown it derives from. Three routes to its calculation: the text as it is, the text after an edit,
    and a second Envelope.Calculate in memory. Judged like any other input: exact arithmetic over ITS quantities,
    prices and percentages (no comparison with the first result)."""
    rng = c.rng
    first = run_go([cg.json_line("calcjson", d) for d in sources])
    out = []
    for d, o in zip(sources, first):
        v = parse_wire(o)
        if not v or v[0] != b"ok":
            continue
        try:
            j = json.loads(v[1].decode())
        except ValueError:
            continue
        cg.drop_empty_rows(j)
        route = rng.choice(ROUTES)
        if route == "edit-and-build":
            edit_calculated(rng, g, j)
        elif route == "calculate-twice":
            j["_source"] = cg.strip_notes(d)
        j["_route"] = route
        out.append(j)
    return out


def judge(c, res, stream, prop="C01", clause="every figure equals exact decimal arithmetic with half-away rounding at the documented points"):
    """three-way comparison; reports failing inputs. Returns number of Go/model mismatches."""
    mism = 0
    reported = 0
    for r in res:
        if not r["in_domain"]:
            c.count("out-of-domain(informational)", 1)
            continue
        nontriv = (stream, json.dumps(r["doc"], sort_keys=True))
        c.count(stream, 1, nontriv)
        gm = first_diff(r["go"], r["model"])
        gp = first_diff(r["go"], r["py"])
        if gm is None and gp is None:
            continue
        mism += 1
        if reported >= 3:
            continue
        reported += 1
        if gm is not None and gp is not None:
            def fails(d):
                x = run_cases([d])[0]
                return x["in_domain"] and first_diff(x["go"], x["model"]) is not None and first_diff(x["go"], x["py"]) is not None
            # (under calculate-twice the implementation is given the source, which cannot be shrunk alongside)
            small = r["doc"] if r["doc"].get("_route") == "calculate-twice" else cg.shrink_doc(r["doc"], fails)
            x = run_cases([small])[0]
            route = small.get("_route")
            how = "" if not route else {"build-again": " when an already calculated document is calculated again",
                                        "edit-and-build": " when an already calculated document is edited and calculated again",
                                        "calculate-twice": " after a second Envelope.Calculate of the same document in memory"}[route]
            c.report("%s: figure `%s` computed by the implementation%s differs from exact arithmetic over the document's quantities, prices and percentages (model and independent reading agree with each other)" % (prop, first_diff(x["go"], x["model"]), how),
                     {"document": small, "implementation": x["go_raw"], "model": x["model_raw"], "clause": clause,
                      "figure": first_diff(x["go"], x["model"])})
        elif gm is not None:
            c.report("correspondence broken: extracted model differs from the implementation on `%s` while the independent reading agrees with the implementation" % gm,
                     {"correspondence": "corr:%s:%s" % (prop, stream), "document": r["doc"], "implementation": r["go_raw"], "model": r["model_raw"]}, no_input=True)
        else:
            c.report("oracle disagreement: independent reading differs from implementation and model on `%s`" % gp,
                     {"correspondence": "oracle:%s:%s" % (prop, stream), "document": r["doc"], "implementation": r["go_raw"]}, no_input=True)
    return mism


# ----------------------------------------------------------------------------------------------
# the declarative specification (Calc/Ideal.v, extracted) against Go directly, and the last
# sentence of the property judged on Go's own output
# ----------------------------------------------------------------------------------------------
from fractions import Fraction
TOTALS = ["sum", "discount", "charge", "tax_included", "total", "tax", "total_with_tax", "payable", "advances", "due"]
BOUND_TOTALS = ["sum", "discount", "charge", "total", "tax", "total_with_tax", "payable", "advances", "due"]
F_CONV = "C01-converted-price-rounded-to-currency-decimals"
F_BREAK = "C01-breakdown-price-rounded-to-price-decimals"
BOUND_CLAUSE = "no presented total of an ordinary-sized document is a full minor currency unit away from the unrounded exact value"


def _base_doc():
    return {"$schema": "https://gobl.org/draft-0/bill/invoice", "uuid": "3aea7b56-59d8-4beb-90bd-f8f280d852a0", "currency": "EUR",
            "issue_date": "2022-02-01", "code": "S-1",
            "supplier": {"tax_id": {"country": "ES", "code": "B98602642"}, "name": "P"},
            "customer": {"tax_id": {"country": "ES", "code": "54387763P"}, "name": "C"}}


def witness_docs():
    """IdealBoundProofs.w_exchange and w_breakdown as invoices (the two known findings)."""
    a = _base_doc()
    a["lines"] = [{"quantity": "1000", "item": {"name": "x", "price": "1.00", "currency": "USD"}}]
    a["exchange_rates"] = [{"from": "USD", "to": "EUR", "amount": "0.915"}]
    b = _base_doc()
    b["lines"] = [{"quantity": "1000", "item": {"name": "x", "price": "0.00"},
                   "breakdown": [{"quantity": "0.5", "item": {"name": "y", "price": "0.01"}}]}]
    out = [a, b]
    # findings/C01.json C01-conversion-rounded-at-source-decimals (repaired): a price in a currency with fewer decimals than
    # the document's, converted by an exchange rate: JPY 1550 x 0.0062 = 9.61 EUR (was 10.00: the product was rounded
    # to the decimals of the JPY amount first), 80 -> 0.50 (was 0.00), 1 -> 0.01 (was 0.00); USD -> KWD (2 -> 3 decimals)
    for cur, frm, rate, prices in (("EUR", "JPY", "0.0062", ("1550", "80", "1", "-1550")), ("KWD", "USD", "0.875967", ("739.49", "0.05"))):
        for rule in (cg.PRECISE, cg.CURRENCY):
            for p in prices:
                d = _base_doc()
                d["currency"] = cur
                d["tax"] = {"rounding": rule}
                d["lines"] = [{"quantity": "1", "item": {"name": "x", "price": p, "currency": frm},
                               "taxes": [{"cat": "VAT", "rate": "standard"}]}]
                d["exchange_rates"] = [{"from": frm, "to": cur, "amount": rate}]
                out.append(d)
    return out


def _clamp_rows(rng, rows, keep):
    out = []
    for r in rows[:keep]:
        r = dict(r)
        if r.get("percent") in ("33.333%",) and rng.random() < 0.5:
            r["percent"] = "50%"
        out.append(r)
    return out


def simple_docs(c, g, n, max_lines=4):
    """documents inside the domain of precise_error_bound: 'precise', 1-max_lines lines, no breakdown, no
    exchange-rate conversion, few rows, percentages of at most 100% (every PCT atom is), tax rates 0-100%."""
    rng = c.rng
    out = []
    for _ in range(n):
        d = g.doc(force_rule=cg.PRECISE, max_lines=max_lines)
        for l in d["lines"]:
            l.pop("breakdown", None)
            it = l["item"]
            if it.get("currency") and not it.get("alt_prices"):
                it.pop("currency")
            for k in ("discounts", "charges"):
                if k in l:
                    l[k] = _clamp_rows(rng, l[k], 1)
        d.pop("exchange_rates", None)
        for k in ("discounts", "charges"):
            if k in d:
                d[k] = _clamp_rows(rng, d[k], 1)
        if "payment" in d and "advances" in d["payment"] and rng.random() < 0.7:
            del d["payment"]["advances"]
            if not d["payment"]:
                del d["payment"]
        out.append(d)
    return out


def price_rounding_docs(c, g, n):
    """small otherwise-simple documents whose first line is priced through an exchange rate or a breakdown and
    has a large quantity: the rounding of the derived unit price is multiplied up (the two known findings)."""
    rng = c.rng
    out = []
    for d in simple_docs(c, g, n, max_lines=2):
        l = d["lines"][0]
        l.pop("discounts", None)
        l.pop("charges", None)
        l["quantity"] = str(rng.choice([300, 1000, 2500, 12000, 20000]) + rng.randrange(7))
        cur = d["currency"]
        other = "USD" if cur != "USD" else "GBP"
        if rng.random() < 0.5:
            l["item"] = {"name": "x", "price": g.amt(900, rng.choice([0, 1, 2, 3]), tie=True), "currency": other}
            d["exchange_rates"] = [{"from": other, "to": cur, "amount": rng.choice(["0.875967", "0.915", "0.31", "1.1", "1.25", "0.305", "149.31"])}]
        else:
            l["item"] = {"name": "x", "price": "0.00"}
            l["breakdown"] = [{"quantity": rng.choice(["0.5", "1.5", "0.25", "2.5", "0.125", "3"]),
                               "item": {"name": "s", "price": g.amt(900, rng.choice([0, 1, 2, cg.SUBUNITS[cur]]), tie=True)}}
                              for _ in range(rng.randint(1, 2))]
        out.append(d)
    return out


def _oracle_op(op_, docs):
    wl = []
    for d in docs:
        try:
            wl.append(cg.wire_line(op_, d, "c01"))
        except (ValueError, KeyError):
            wl.append("c01 %s ( )" % op_)
    return [parse_wire(x) for x in run_oracle(wl)]


def _go_val(a):
    return Fraction(a[0], 10 ** a[1])


def ideal_diff(go, iv):
    """first figure on which Go's presentation differs from the extracted ideal (value or number of decimals)."""
    gok = bool(go) and go[0] == b"ok"
    iok = bool(iv) and iv[0] == b"ok"
    if gok != iok:
        return "outcome"
    if not gok:
        return None
    gt, it = go[1], iv[1]
    if len(gt[0]) != len(it[0]):
        return "lines"
    for gl, il in zip(gt[0], it[0]):
        for j, nm in enumerate(("line price", "line sum", "line total")):
            if not (len(gl[j]) == 2 and len(il[j]) == 3 and _go_val(gl[j]) == Fraction(il[j][0], il[j][1]) and gl[j][1] == il[j][2]):
                return nm
    for i, nm in enumerate(TOTALS, start=1):
        a, b = gt[i], it[i]
        if not a and not b:
            continue
        if not (len(a) == 2 and len(b) == 3 and _go_val(a) == Fraction(b[0], b[1]) and a[1] == b[2]):
            return nm
    return None


def far_total(go, ev):
    """first presented total of Go that is a full minor unit or more from the extracted exact value (or whose
    presence differs), with both values; None when every total is strictly closer."""
    if not ev or ev[0] != b"ok":
        return ("outcome", None, None)
    gt, et = go[1], ev[1]
    unit = Fraction(1, 10 ** gt[1][1])
    for nm in BOUND_TOTALS:
        i = TOTALS.index(nm) + 1
        a, b = gt[i], et[i]
        if not a and not b:
            continue
        if not a or not b:
            return (nm, a, b)
        if abs(_go_val(a) - Fraction(b[0], b[1])) >= unit:
            return (nm, a, b)
    return None


def judge_spec(c, res, stream):
    """(a) Go == ideal on every figure; (b) the 'precise' bound on Go's totals inside the theorem's domain;
    (c) the two known price-rounding findings outside it."""
    rs = [r for r in res if r["in_domain"]]
    if not rs:
        return
    docs = [r["doc"] for r in rs]
    ideal = _oracle_op("ideal", docs)
    cls = _oracle_op("class", docs)
    reported = c.cov.setdefault("_spec_reported", {"a": 0, "b": 0})
    need = []
    for r, iv, cv in zip(rs, ideal, cls):
        key = (stream, json.dumps(r["doc"], sort_keys=True))
        c.count("corr:C01:go-vs-ideal", 1, key)
        fd = ideal_diff(r["go"], iv)
        if fd is not None:
            c.count("go-vs-ideal-differences", 1)
            if first_diff(r["go"], r["model"]) is None and reported["a"] < 3:
                # Go and the model agree, the specification does not: theorem and model diverge
                reported["a"] += 1
                c.report("correspondence broken: the extracted declarative specification (Calc/Ideal.v `ideal`) differs from the implementation and the model on `%s`, contradicting theorem calc_refines_ideal" % fd,
                         {"correspondence": "corr:C01:go-vs-ideal", "theorem": "rocq/Props/C01.v calc_refines_ideal", "document": r["doc"],
                          "implementation": r["go_raw"], "ideal": w(iv)}, no_input=True)
        # (b) and (c) are judged on Go's output whether or not it agrees with the specification
        if not (r["go"] and r["go"][0] == b"ok") or not cv or not isinstance(cv[0], list) or len(cv[0]) != 6:
            continue
        simple, budget, conv, brk, precise, sbp = cv[0]
        if not precise:
            continue
        if simple and budget < 100:
            need.append((r, "domain", budget))
        elif (not simple) and sbp and (conv or brk) and budget < 100:
            need.append((r, F_CONV if conv else F_BREAK, budget))
    if not need:
        return
    exact = _oracle_op("exact", [r["doc"] for r, _, _ in need])
    for (r, kind, budget), ev in zip(need, exact):
        far = far_total(r["go"], ev)
        key = (stream, json.dumps(r["doc"], sort_keys=True))
        if kind == "domain":
            c.count("precise-bound-in-domain", 1, key)
            if far is not None and reported["b"] < 3:
                reported["b"] += 1
                c.report("C01: under 'precise' the presented `%s` of an ordinary-sized document (simple_docb, budget %d < 100) is a full minor unit or more from the unrounded exact value (presented %s, exact %s)"
                         % (far[0], budget, w(far[1]) if far[1] is not None else "-", w(far[2]) if far[2] is not None else "-"),
                         {"document": r["doc"], "implementation": r["go_raw"], "exact": w(ev), "clause": BOUND_CLAUSE, "figure": far[0],
                          "theorem": "rocq/Props/C01.v precise_error_bound_decidable"})
        else:
            c.count("price-rounding-outside-domain", 1, key)
            if far is not None:
                c.count("price-rounding-outside-domain-far", 1)
                c.report("under 'precise' the presented `%s` is a full minor unit or more from the exact value (presented %s, exact %s/%s) in a document outside the bound's class only by %s"
                         % (far[0], fmt_amt(far[1]), far[2][0] if far[2] else "-", far[2][1] if far[2] else "-",
                            "an exchange-rate conversion" if kind == F_CONV else "a sub-line breakdown"),
                         {"document": r["doc"], "implementation": r["go_raw"], "exact": w(ev), "clause": BOUND_CLAUSE}, finding_id=kind)


def fmt_amt(a):
    if not a:
        return "-"
    return cg.fmt(cg.A(a[0], a[1]))


def run(c):
    quick = c.tier == "quick"
    if not std_builds(c):
        return
    cg.reset_tables()
    proved = c.prove()
    ok, out = build_oracle()
    if not ok:
        c.report("extraction/oracle build failed: " + out[-800:], {"machinery": "oracle"}, no_input=True)
        return
    g = cg.Gen(c.rng)
    g.doc_types = True      # a share of the documents as bill/order and bill/delivery
    g.calc_only = True      # combos that calculate but would not validate (rate key under a country without regime)
    g.unlabelled = True     # line / sub-line discounts and charges given by their numbers alone (no key, code or reason)
    g.both_given = True     # percentage / rate rows (discounts, charges, advances, due dates) that also carry an amount
    n = 5000 if quick else 250000
    streams = {
        "corpus": witness_docs(),
        "mixed": [g.doc() for _ in range(n)],
        "many-lines": [g.doc(big=True) for _ in range(n // 25)],
        "refused": error_docs(c, g, n // 25),
        "bound-domain": simple_docs(c, g, n // 5),
        "price-rounding": price_rounding_docs(c, g, n // 25),
    }
    # rich in what a calculated document carries next to its source: percentage advances and due dates, percentage rows
    src = [d for d in streams["mixed"] if (d.get("payment") or {}).get("advances")][:n // 10] + streams["mixed"][:n // 10] + streams["many-lines"][:n // 250]
    streams["recalculated"] = recalculated_docs(c, g, copy.deepcopy(src))
    ties = 0
    mism = 0
    for name, docs in streams.items():
        for i in range(0, len(docs), 20000):
            res = run_cases(docs[i:i + 20000])
            mism += judge(c, res, name)
            judge_spec(c, res, name)
            for r in res[:2]:
                c.sample({"stream": name, "document": r["doc"], "implementation": r["go_raw"][:300]}, limit=4)
            c.cov.setdefault("outcomes", {})
            for r in res:
                k = "error" if is_err(r["go"]) else r["go"][0].decode()
                c.cov["outcomes"][k] = c.cov["outcomes"].get(k, 0) + 1
    c.cov["rule"] = ("invoices generated from the seed: 1-5 (or 8-40) lines, sub-line breakdowns, signed quantities and prices with 0-6 decimals, "
                     "tie atoms (quantities 0.5/1.5/2.5/0.25/0.125, odd last digits, 0.5%/2.5%/12.5%/50%), fixed/percent/base/rate-quantity discounts and charges, "
                     "foreign-currency items by exchange rate or alternative price, advances and due dates, tax-included prices, both rules and regime defaults "
                     "(ES, EL, PT), currencies with 0/2/3 decimals; distinct = distinct documents; non-trivial = inside the 2^52 magnitude domain of C05 "
                     "(others informational); compared: every line figure, every total, every tax group; line / sub-line rows with or without a "
                     "label (reason), percentage and rate rows (discounts, charges, advances, due dates) that also carry an amount; "
                     "stream recalculated: the serialised RESULT of a first calculation taken as the input document (every derived figure "
                     "present), by three routes - built again as it is, edited (quantity, price, line removed / repeated, discount added) and "
                     "built, or a second Envelope.Calculate in memory - judged like any input against the model and the python reading of that text")
    c.cov["recalculated_routes"] = {r: sum(1 for d in streams["recalculated"] if d.get("_route") == r) for r in ROUTES}
    c.cov.pop("_spec_reported", None)
    c.cov["go_ideal_differences"] = c.cov.get("streams", {}).get("go-vs-ideal-differences", {}).get("evaluations", 0)
    c.cov["rule_spec"] = ("corr:C01:go-vs-ideal: every in-domain document of every stream, Go's presented line price / sum / total and ten totals "
                          "against the extracted `ideal` (Calc/Ideal.v), value and number of decimals; precise-bound-in-domain: documents with "
                          "extracted simple_docb = true and budget < 100 under 'precise', every presented total of Go strictly within one minor unit "
                          "of the extracted `exact`; price-rounding-outside-domain: documents outside the class only by a conversion or breakdown "
                          "(known findings when a full unit away); streams bound-domain / price-rounding are built for these two oracles")
    c.cov["go_model_differences"] = mism
    if not proved:
        pr = c.proof
        c.report("proof obligations of Props/C01.v no longer check: " + (pr.get("make_log") or pr.get("log", ""))[-600:],
                 {"theorem": "rocq/Props/C01.v", "failed_files": pr.get("failed_files"), "forbidden": pr.get("forbidden")}, no_input=True)


def replay(path):
    r = json.load(open(path))["replay"]
    build_harness()
    x = run_cases([r["document"]])[0]
    print("implementation:", x["go_raw"])
    print("model:         ", x["model_raw"])
    print("python reading:", w(x["py"]))
    return 0
