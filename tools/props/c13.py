"""C13 - tax identity codes are accepted exactly when the national check allows.

Tie: (1) correspondence of tax.Identity.Normalize/Validate (Go, through the public API with the
regimes loaded) with the extracted Gallina model TaxId/Regimes.v on the same raw codes;
(2) oracle P: Go's own verdict judged against an independent reading of the published rules
(this file, SPEC_*), Go's normalised code against the documented normalisation (upper-case, strip
non-alphanumerics, trim one country / alternative prefix, regime steps), idempotence and
preservation of the digits.  Either difference is reported with the concrete code."""
import os
import re
from vlib import *

TRUSTED = [
    "modelled domain: ASCII input (plus N-tilde for MX); strings.ToUpper on other non-ASCII runes is outside the model",
    "float64 arithmetic of the AT/BE/CH validators (integers < 2^27, exact) is modelled in Z; covered by the correspondence streams",
    "independent specification of the published national rules: tools/props/c13.py SPEC (hand-written reading, not generated)",
    "modelled, not verified: error message texts, tax.ParseIdentity, org.Party beyond the tax_id field",
]

D = "0123456789"
L = "ABCDEFGHIJKLMNOPQRSTUVWXYZ"
AN = D + L


# ------------------------------------------------------------------------------------------------
# independent specification of the published rules (accepted iff format and check digit agree)
# ------------------------------------------------------------------------------------------------

def luhn_cd(s):
    tot = 0
    for pos, ch in enumerate(reversed(s)):
        d = int(ch)
        if pos % 2 == 0:
            d *= 2
            if d > 9:
                d -= 9
        tot += d
    return (10 - tot % 10) % 10


ES_L = "TRWAGMYFPDXBNJZSQVHLCKE"
ES_ORG = "ABCDEFGHJNPQRSUVW"
ES_CK = "JABCDEFGHI"


def es_org_cd(num7):
    se = sum(int(num7[i]) for i in (1, 3, 5))
    so = 0
    for i in (0, 2, 4, 6):
        v = int(num7[i]) * 2
        so += v - 9 if v > 9 else v
    return (10 - (se + so) % 10) % 10


def spec_es(c):
    if re.fullmatch(r"[ABCDEFGHJNPQRSUVWKLM][0-9]{7}[0-9JABCDEFGHI]", c):
        cd = es_org_cd(c[1:8])
        return c[8] == str(cd) or c[8] == ES_CK[cd]
    if re.fullmatch(r"[0-9]{8}[A-Z]", c):
        return c[:8] != "00000000" and ES_L[int(c[:8]) % 23] == c[8]
    if re.fullmatch(r"[XYZ][0-9]{7}[A-Z]", c):
        return ES_L[int(str("XYZ".index(c[0])) + c[1:8]) % 23] == c[8]
    return False


PT_P1 = set("123568")
PT_P2 = {"45", "70", "71", "72", "74", "75", "77", "78", "79", "90", "91", "98", "99"}


def pt_cd(b8):
    r = sum(int(b8[i]) * (9 - i) for i in range(8)) % 11
    return 0 if r in (0, 1) else 11 - r


def spec_pt(c):
    if not re.fullmatch(r"[0-9]{9}", c):
        return False
    if c[0] not in PT_P1 and c[:2] not in PT_P2:
        return False
    return int(c[8]) == pt_cd(c[:8])


PL_W = [6, 5, 7, 2, 3, 4, 5, 6, 7]


def spec_pl(c):
    if not re.fullmatch(r"[1-9](([0-9][1-9])|([1-9][0-9]))[0-9]{7}", c):
        return False
    return sum(int(c[i]) * PL_W[i] for i in range(9)) % 11 == int(c[9])


def de_cd(b8):
    p = 10
    for ch in b8:
        s = (int(ch) + p) % 10
        if s == 0:
            s = 10
        p = (2 * s) % 11
    cd = 11 - p
    return 0 if cd == 10 else cd


def spec_de(c):
    return bool(re.fullmatch(r"[1-9][0-9]{8}", c)) and de_cd(c[:8]) == int(c[8])


def fr_key(siren):
    return (12 + 3 * (int(siren) % 97)) % 97


def spec_fr(c):
    return bool(re.fullmatch(r"[0-9]{11}", c)) and int(c[:2]) == fr_key(c[2:])


def spec_it(c):
    return bool(re.fullmatch(r"[0-9]{11}", c)) and luhn_cd(c[:10]) == int(c[10])


def nl_sum(c):
    return sum(int(c[i]) * (9 - i) for i in range(8))


def nl_mod97(c):
    s = "".join(ch if ch.isdigit() else str(ord(ch) - 55) for ch in "NL" + c)
    return int(s) % 97 == 1


def spec_nl(c):
    """published: 11-proef (remainder 10 has no check digit, so the number is invalid) or,
    since 2020, the IBAN-like mod 97 test on NL + number"""
    if not re.fullmatch(r"[0-9]{9}B[0-9]{2}", c):
        return False
    r = nl_sum(c) % 11
    return (r != 10 and r == int(c[8])) or nl_mod97(c)


def spec_be(c):
    """published: ten digits, the first 0 or (numbers issued since 2023) 1, the last two = 97 - (first eight mod 97);
    a number starting with 0 may be written without it and never continues with another 0"""
    if not re.fullmatch(r"[0-9]{9,10}", c):
        return False
    if len(c) == 9:
        c = "0" + c
    if c[0] not in "01" or c[:2] == "00":
        return False
    return 97 - int(c[:8]) % 97 == int(c[8:])


def at_cd(b7):
    s = 0
    for i in range(7):
        d = int(b7[i])
        if i % 2 == 0:
            s += d
        else:
            x = d * 2
            s += x // 10 + x % 10
    return (10 - (s + 4) % 10) % 10


def spec_at(c):
    return bool(re.fullmatch(r"U[0-9]{8}", c)) and at_cd(c[1:8]) == int(c[8])


CH_W = [5, 4, 3, 2, 7, 6, 5, 4]


def ch_cd(b8):
    r = 11 - sum(int(a) * b for a, b in zip(b8, CH_W)) % 11
    if r == 10:
        return None
    return 0 if r == 11 else r


def spec_ch(c):
    if not re.fullmatch(r"E[0-9]{9}", c):
        return False
    cd = ch_cd(c[1:9])
    return cd is not None and cd == int(c[9])


def el_cd(b8):
    return sum(int(b8[i]) * 2 ** (8 - i) for i in range(8)) % 11 % 10


def spec_el(c):
    return bool(re.fullmatch(r"[0-9]{9}", c)) and el_cd(c[:8]) == int(c[8])


GB_W = [8, 7, 6, 5, 4, 3, 2]


def gb_sum(c):
    return sum(int(a) * b for a, b in zip(c[:7], GB_W))


def gb_old_ok(num):
    return num < 9990001 and (num < 100000 or num > 999999) and (num < 9490001 or num > 9700000)


def spec_gb(c):
    """published (HMRC, and the comment in regimes/gb): subtract 97 from the weighted sum until the
    result is negative; its absolute value (01..97) is the check number; 9755 variant: that
    number less 55, or plus 42 when it is below 55"""
    if re.fullmatch(r"GD[0-9]{3}", c):
        return int(c[2:]) < 500
    if re.fullmatch(r"HA[0-9]{3}", c):
        return int(c[2:]) >= 500
    if not re.fullmatch(r"[0-9]{9}|[0-9]{12}", c):
        return False
    if int(c) == 0:
        return False
    cd = 97 - gb_sum(c) % 97        # 1..97
    num = int(c[:7])
    last = int(c[7:9])
    if cd == last and gb_old_ok(num):
        return True
    cd2 = cd - 55 if cd >= 55 else cd + 42
    return cd2 == last and num > 1000000


CO_W = [3, 7, 13, 17, 19, 23, 29, 37, 41, 43, 47, 53, 59, 67, 71]


def co_cd(body):
    s = sum(int(ch) * CO_W[i] for i, ch in enumerate(reversed(body))) % 11
    return 11 - s if s >= 2 else s


def spec_co(c):
    return bool(re.fullmatch(r"[0-9]{9,10}", c)) and co_cd(c[:-1]) == int(c[-1])


BR_W1 = [5, 4, 3, 2, 9, 8, 7, 6, 5, 4, 3, 2]
BR_W2 = [6, 5, 4, 3, 2, 9, 8, 7, 6, 5, 4, 3, 2]


def br_dv(s, w):
    r = sum(int(a) * b for a, b in zip(s, w)) % 11
    return 0 if r < 2 else 11 - r


def spec_br(c):
    if not re.fullmatch(r"[0-9]{14}", c):
        return False
    return br_dv(c[:12], BR_W1) == int(c[12]) and br_dv(c[:13], BR_W2) == int(c[13])


def in_cd(b14):
    s = 0
    for i, ch in enumerate(b14):
        p = AN.index(ch) * (2 if i % 2 else 1)
        s += p // 36 + p % 36
    return AN[(36 - s % 36) % 36]


def spec_in(c):
    if not re.fullmatch(r"[0-9]{2}[A-Z]{5}[0-9]{4}[A-Z][1-9A-Z]Z[0-9A-Z]", c):
        return False
    return in_cd(c[:14]) == c[14]


def spec_ae(c):
    return bool(re.fullmatch(r"[0-9]{15}", c))


def spec_mx(c):
    return bool(re.fullmatch(r"[A-ZÑ&]{3,4}[0-9]{6}[A-Z0-9]{3}", c))


SPEC = {"AE": spec_ae, "AT": spec_at, "BE": spec_be, "BR": spec_br, "CH": spec_ch, "CO": spec_co, "DE": spec_de,
        "ES": spec_es, "FR": spec_fr, "GB": spec_gb, "EL": spec_el, "IN": spec_in, "IT": spec_it, "MX": spec_mx,
        "NL": spec_nl, "PL": spec_pl, "PT": spec_pt}
ALIAS = {"GR": "EL", "XI": "GB", "XU": "GB"}
ALTS = {"GB": ["XI", "XU"], "XI": ["XI", "XU"], "XU": ["XI", "XU"], "EL": ["GR"], "GR": ["GR"], "IN": ["IN"]}
NO_REGIME = ["SE", "DK", "CA"]     # generic normalisation, no national rule (CA: regime without a code validator)


def spec_accepts(cc, code):
    """the property's verdict for an already normalised code"""
    if cc == "":
        return False
    if code == "":
        return True                 # the code is optional
    r = ALIAS.get(cc, cc)
    if r != "MX" and (not re.fullmatch(r"[A-Z0-9]+", code) or len(code) > 32):
        return False
    f = SPEC.get(r)
    return f(code) if f else True


def trim(cc, s):
    if cc in ("GR", "EL"):      # documented (regimes/gr tests): the EL and GR prefixes are both removed
        cc = "EL"
    for p in [cc] + ALTS.get(cc, []):
        if p and s.startswith(p):
            s = s[len(p):]
    return s


def pnorm(cc, raw):
    """documented normalisation: returns (country, code)"""
    if cc == "US":
        return cc, raw
    if cc == "MX":
        return cc, "".join(ch for ch in raw.upper() if ch in L + D + "Ñ&")
    s = "".join(ch for ch in raw.upper() if ch in AN)
    s = trim(cc, s)
    if cc == "CH":
        s = re.sub(r"(MWST|TVA|IVA)$", "", s)
    if cc == "FR" and re.fullmatch(r"[0-9]{9}", s) and luhn_cd(s[:8]) == int(s[8]):
        s = "%02d%s" % (fr_key(s), s)
    if cc in ("GR", "EL"):
        cc = "EL"
    return cc, s


def unstable(cc, code):
    """a second normalisation would change the code (doubled prefix / CH suffix)"""
    return pnorm(cc, code)[1] != code


# ------------------------------------------------------------------------------------------------
# generators: codes constructed valid by the specification, random codes of the national shape
# ------------------------------------------------------------------------------------------------

def rd(rng, n):
    return "".join(rng.choice(D) for _ in range(n))


def make_valid(rng, cc):
    while True:
        if cc == "AE":
            return rd(rng, 15)
        if cc == "AT":
            b = rd(rng, 7)
            return "U" + b + str(at_cd(b))
        if cc == "BE":
            if rng.random() < 0.3:                                # issued since 2023: leading 1 (so far followed by 0)
                b = "1" + rng.choice("0001234567889") + rd(rng, 6)
                return b + "%02d" % (97 - int(b) % 97)
            b = "0" + rng.choice("123456789") + rd(rng, 6)
            c = b + "%02d" % (97 - int(b) % 97)
            return c if rng.random() < 0.7 else c[1:]
        if cc == "BR":
            b = rd(rng, 12)
            b += str(br_dv(b, BR_W1))
            return b + str(br_dv(b, BR_W2))
        if cc == "CH":
            b = rd(rng, 8)
            cd = ch_cd(b)
            if cd is None:
                continue
            return "E" + b + str(cd)
        if cc == "CO":
            b = rd(rng, rng.choice([8, 9]))
            return b + str(co_cd(b))
        if cc == "DE":
            b = rng.choice("123456789") + rd(rng, 7)
            return b + str(de_cd(b))
        if cc == "ES":
            k = rng.random()
            if k < 0.35:
                b = rd(rng, 8)
                if b == "00000000":
                    continue
                return b + ES_L[int(b) % 23]
            if k < 0.5:
                t = rng.choice("XYZ")
                b = rd(rng, 7)
                return t + b + ES_L[int(str("XYZ".index(t)) + b) % 23]
            t = rng.choice(ES_ORG if k < 0.9 else "KLM")
            b = rd(rng, 7)
            cd = es_org_cd(b)
            return t + b + (str(cd) if rng.random() < 0.5 else ES_CK[cd])
        if cc == "FR":
            b = rd(rng, 8)
            b += str(luhn_cd(b)) if rng.random() < 0.7 else rng.choice(D)
            return "%02d%s" % (fr_key(b), b)
        if cc == "GB":
            k = rng.random()
            if k < 0.06:
                return "GD%03d" % rng.randint(0, 499)
            if k < 0.12:
                return "HA%03d" % rng.randint(500, 999)
            b = rd(rng, 7)
            cd = 97 - gb_sum(b) % 97
            num = int(b)
            if rng.random() < 0.5 and num > 1000000:
                cd = cd - 55 if cd >= 55 else cd + 42
            elif not gb_old_ok(num):
                continue
            c = b + "%02d" % cd
            if int(c) == 0:
                continue
            return c + (rd(rng, 3) if rng.random() < 0.2 else "")
        if cc == "EL":
            b = rd(rng, 8)
            return b + str(el_cd(b))
        if cc == "IN":
            b = rd(rng, 2) + "".join(rng.choice(L) for _ in range(5)) + rd(rng, 4) + rng.choice(L) + rng.choice("123456789" + L) + "Z"
            return b + in_cd(b)
        if cc == "IT":
            b = rd(rng, 10)
            return b + str(luhn_cd(b))
        if cc == "NL":
            b = rd(rng, 8)
            if rng.random() < 0.6:
                r = nl_sum(b) % 11
                if r == 10:
                    continue
                return b + str(r) + "B" + rd(rng, 2)
            b += rng.choice(D)
            v = int("2321" + b + "11" + "00")
            x = (1 - v) % 97
            if x + 97 <= 99 and rng.random() < 0.5:
                x += 97
            return b + "B%02d" % x
        if cc == "PL":
            b = rng.choice("123456789") + rd(rng, 8)
            if b[1] == "0" and b[2] == "0":
                continue
            r = sum(int(b[i]) * PL_W[i] for i in range(9)) % 11
            if r == 10:
                continue
            return b + str(r)
        if cc == "PT":
            p = rng.choice(sorted(PT_P1) + sorted(PT_P2))
            b = p + rd(rng, 8 - len(p))
            return b + str(pt_cd(b))
        if cc == "MX":
            n = rng.choice([3, 4])
            return "".join(rng.choice(L + "Ñ&") for _ in range(n)) + rd(rng, 6) + "".join(rng.choice(AN) for _ in range(3))
        raise KeyError(cc)


def rand_code(rng, cc):
    """random string of the national alphabet and length"""
    if cc == "ES":
        k = rng.random()
        if k < 0.4:
            return rd(rng, 8) + rng.choice(ES_L)
        if k < 0.55:
            return rng.choice("XYZ") + rd(rng, 7) + rng.choice(ES_L)
        return rng.choice(ES_ORG + "KLM") + rd(rng, 7) + rng.choice(D + ES_CK)
    if cc == "NL":
        return rd(rng, 9) + "B" + rd(rng, 2)
    if cc == "AT":
        return "U" + rd(rng, 8)
    if cc == "CH":
        return "E" + rd(rng, 9)
    if cc == "GB":
        k = rng.random()
        if k < 0.05:
            return rng.choice(["GD", "HA"]) + rd(rng, 3)
        return rd(rng, 9 if k < 0.85 else 12)
    if cc == "IN":
        return (rd(rng, 2) + "".join(rng.choice(L) for _ in range(5)) + rd(rng, 4) + rng.choice(L)
                + rng.choice("123456789" + L) + "Z" + rng.choice(AN))
    if cc == "BE":
        return rng.choice(["0", "0", "1", "1", ""]) + rd(rng, 9)
    if cc == "CO":
        return rd(rng, rng.choice([9, 10]))
    if cc == "MX":
        return make_valid(rng, cc)
    n = {"AE": 15, "BR": 14, "DE": 9, "FR": 11, "EL": 9, "IT": 11, "PL": 10, "PT": 9}[cc]
    return rd(rng, n)


def edits(cc, c):
    """every single-character substitution that stays inside the national alphabet"""
    out = []
    i = 0
    while i < len(c):
        ch = c[i]
        if ch in D:
            alts = D
        elif ch in "Ñ&":
            alts = ""
        else:
            alts = L if cc in ("ES", "IN", "MX") else ""
        for r in alts:
            if r != ch:
                out.append(c[:i] + r + c[i + 1:])
        i += 1
    return out


SEPS = [" ", ".", "-", "/", "_", ",", ":", "\t", "(", ")", "#", "*"]


def formatted(rng, cc, c):
    """a written variant of the canonical code: separators, lower case, a leading country prefix"""
    out = []
    for ch in c:
        if rng.random() < 0.25:
            out.append(rng.choice(SEPS) * rng.randint(1, 2))
        out.append(ch.lower() if rng.random() < 0.4 else ch)
    if rng.random() < 0.2:
        out.append(rng.choice(SEPS))
    s = "".join(out)
    k = rng.random()
    if k < 0.5 and cc != "MX":
        p = cc if rng.random() < 0.6 else cc.lower()
        s = rng.choice(["", " "]) + p + rng.choice(["", " ", "-", "."]) + s
    elif rng.random() < 0.2:
        s = " " + s
    return s


def line(op, cc, raw):
    return "c13 %s %s %s" % (op, w(cc), w(raw))


WITNESSES = [   # recorded findings, refutation witnesses and the characterised undetected errors of the theorems
    ("NL", "000000050B01"), ("NL", "000000050B02"), ("GB", "930000200"), ("GB", "930000297"), ("GB", "000000000001"),
    ("BR", "05.104.582/0001-70"), ("BR", "05104582000170"), ("BR", "br05104582000170"),
    ("ES", "ESESB85905495"), ("ES", "ESB85905495"), ("FR", "FRFR44732829320"), ("FR", "732 829 320"),
    ("PT", "100000010"), ("PT", "600000010"), ("BR", "00000047514000"), ("BR", "20000047514000"),
    ("GB", "360837741"), ("GB", "367837741"), ("GB", "812865718"), ("GB", "872865718"),
    ("CH", "CHE-018.955.594 MWST"), ("CH", "E018955594MWSTMWST"), ("EL", "gr 321223300"), ("GR", "el 321223300"),
    ("BE", "1000000021"), ("BE", "1000123448"), ("BE", "1012345646"), ("BE", "BE 1000.123.448"), ("BE", "1000123449"),
    ("BE", "2000000042"), ("BE", "0012345625"), ("BE", "123456749"),
    ("GB", "XIGB957117743"), ("IN", "inin28AYQJU1485FNZH"), ("MX", "kgp-990751 7oc"), ("MX", "ñ&a010301i16"),
]


def corpus():
    """test vectors of the repository's own regime tests plus the recorded witnesses"""
    cases = []
    rdir = os.path.join(REPO, "regimes")
    for d in sorted(os.listdir(rdir)) if os.path.isdir(rdir) else []:
        cc = {"gr": "EL"}.get(d, d.upper())
        if cc not in SPEC:
            continue
        for f in sorted(os.listdir(os.path.join(rdir, d))):
            if not f.endswith("_test.go") or not ("tax_identity" in f or "tax_code" in f):
                continue
            txt = open(os.path.join(rdir, d, f), encoding="utf-8", errors="replace").read()
            for m in re.finditer(r'\b[Cc]ode:\s*"((?:[^"\\\n]|\\.)*)"', txt):
                code = m.group(1)
                if "\\" in code or len(code) > 80:
                    continue
                cases.append(("corpus(repo tests)", cc, code, None))
    for cc, code in WITNESSES:
        doubled = unstable(*pnorm(cc, code))
        cases.append(("corpus(witnesses, doubled prefix; informational)" if doubled else "corpus(witnesses)", cc, code, None))
    return cases


def check_slice(cc, v):
    """the characters carrying the check value (stratification key of the constructed-valid codes)"""
    if cc == "FR":
        return v[:2]
    if cc in ("BE", "GB") and len(v) >= 9 and v[:9].isdigit():
        return v[7:9] if cc == "GB" else v[-2:]
    if cc == "NL":
        return v[8:]
    return v[-1:]


def boundary_codes(cc, valids):
    """extreme bodies (all 0, all 9, leading/trailing 1) of every length and letter skeleton seen among the valid codes, with
    the first two and the last two digit positions varied exhaustively (so the one with the right check value is among them);
    plus the families a validator treats by numeric range"""
    out = []
    seen = set()
    protos = {}
    for v in valids:
        protos.setdefault("".join("9" if ch in D else ch for ch in v), v)
    for proto in list(protos.values())[:6]:
        digs = [i for i, ch in enumerate(proto) if ch in D]
        if len(digs) < 3:
            continue
        for fill in "09":
            for special in (None, 0, -1, 1):
                body = list(proto)
                for i in digs:
                    body[i] = fill
                if special is not None:
                    body[digs[special]] = "1" if fill == "0" else "8"
                for pos in (digs[-2:], digs[:2]):
                    for a in D:
                        for b in D:
                            t = list(body)
                            t[pos[0]] = a
                            t[pos[1]] = b
                            x = "".join(t)
                            if x not in seen:
                                seen.add(x)
                                out.append(x)
    if cc == "GB":
        for i in range(1000):
            out.append("GD%03d" % i)
            out.append("HA%03d" % i)
        for num in (0, 1, 99999, 100000, 100001, 999998, 999999, 1000000, 1000001, 1000002, 9489999, 9490000, 9490001, 9490002,
                    9699999, 9700000, 9700001, 9989999, 9990000, 9990001, 9990002, 9999999):
            b = "%07d" % num
            cd = 97 - gb_sum(b) % 97
            cd2 = cd - 55 if cd >= 55 else cd + 42
            for k in {cd, cd2, (cd + 1) % 100, (cd2 + 1) % 100, 0, 97, 98, 99}:
                out.append(b + "%02d" % k)
                out.append(b + "%02d" % k + "001")
    return out


def special_forms(rng, cc, quick):
    """alternative written forms that a regime's own normaliser transforms (beyond separators / prefix / case)"""
    out = []
    if cc == "FR":
        # bare SIREN: the normaliser prepends the two-digit VAT key - every key value 00..96, Luhn-valid and not
        want = 3 if quick else 40
        have = {}
        tries = 0
        while tries < 400000 and (len(have) < 97 or min(have.values()) < want):
            tries += 1
            b = rd(rng, 8)
            b += str(luhn_cd(b))
            k = fr_key(b)
            if have.get(k, 0) < want:
                have[k] = have.get(k, 0) + 1
                out.append(b)
                out.append(formatted(rng, "FR", b))
                out.append(b[:8] + rng.choice(D))
    if cc == "BE":
        for _ in range(100 if quick else 3000):
            b = rng.choice("123456789") + rd(rng, 6)          # nine digits, without the leading zero
            out.append(b + "%02d" % (97 - int("0" + b) % 97))
        # ten digits by leading digit: 1 (issued since 2023) with the right key, one off, and every other leading digit 2..9
        # and 00 given the key that would be right for it
        for _ in range(100 if quick else 3000):
            b = "1" + rng.choice(["000", "100", "999", rd(rng, 3)]) + rd(rng, 4)
            k = 97 - int(b) % 97
            out.append(b + "%02d" % k)
            out.append(b + "%02d" % ((k + rng.randrange(1, 97)) % 100))
            o = rng.choice(["00" + b[2:], rng.choice("23456789") + b[1:]])
            out.append(o + "%02d" % (97 - int(o) % 97))
    return out


def gen(c, quick):
    """yields one batch of cases per regime (bounded memory in the thorough tier)"""
    rng = c.rng
    regs = sorted(SPEC)
    NV = 260 if quick else 4000        # constructed-valid codes per regime (all their edits follow)
    NR = 3500 if quick else 100000     # random codes of the national shape
    NF = 3000 if quick else 100000     # formatted variants
    for cc in regs:
        cases = []                      # (stream, cc, raw, canonical-or-None)
        valids = []
        seen = set()
        tries = 0
        strata = {}
        while len(valids) < NV and tries < NV * 40:
            tries += 1
            v = make_valid(rng, cc)
            k = check_slice(cc, v)
            # stratified by check value: no value may take more than its share while others are missing
            if v not in seen and (strata.get(k, 0) < 3 or tries > NV * 8 or strata.get(k, 0) <= NV // 60):
                seen.add(v)
                strata[k] = strata.get(k, 0) + 1
                valids.append(v)
        incc = cc
        for b in boundary_codes(cc, valids):
            cases.append((cc + "/boundary", incc, b, None))
        for raw in special_forms(rng, cc, quick):
            cases.append((cc + "/special-form", incc, raw, None))
        for v in valids:
            cases.append((cc + "/valid", incc, v, v))
            for e in edits(cc, v):
                cases.append((cc + "/edit", incc, e, None))
        for _ in range(NR):
            cases.append((cc + "/random", incc, rand_code(rng, cc), None))
        for _ in range(NF):
            base = rng.choice(valids) if rng.random() < 0.6 else rand_code(rng, cc)
            if rng.random() < 0.08:
                base = rng.choice(edits(cc, base) or [base])
            use = cc
            if cc == "EL" and rng.random() < 0.5:
                use = "GR"
            if cc == "GB" and rng.random() < 0.3:
                use = rng.choice(["XI", "XU"])
            raw = formatted(rng, use, base)
            if cc == "CH" and rng.random() < 0.5:
                # one VAT suffix as people write it: any case, separated or not, possibly followed by punctuation
                raw = raw + rng.choice([" ", "", "-", "  "]) + rng.choice(["MWST", "TVA", "IVA", "mwst", "tva", "Iva", "Mwst"]) + rng.choice(["", "", " ", ".", ")"])
            if use == "GR" and rng.random() < 0.1:
                raw = rng.choice(["EL", "el ", "EL-"]) + base
            cases.append((cc + "/formatted", use, raw, base))
        # wrong lengths, empty, foreign characters of the alphabet
        for _ in range(200 if quick else 4000):
            b = rng.choice(valids)
            k = rng.random()
            if k < 0.3:
                b = b[:-1]
            elif k < 0.6:
                b = b + rng.choice(D)
            elif k < 0.7:
                i = rng.randrange(len(b))
                b = b[:i] + rng.choice(L) + b[i + 1:]
            elif k < 0.8:
                b = rng.choice(D) + b
            elif k < 0.85:
                b = ""
            elif k < 0.9:
                b = b * 4
            else:
                i = rng.randrange(len(b))
                b = b[:i] + b[i + 1:]
            cases.append((cc + "/shape", incc, b, None))
        # doubled country prefix / CH suffix: informational for idempotence
        for _ in range(150 if quick else 3000):
            b = rng.choice(valids)
            p = rng.choice([cc] + ALTS.get(cc, []))
            q = rng.choice([cc] + ALTS.get(cc, []))
            raw = p + q + b
            if cc == "CH" and rng.random() < 0.5:
                raw = b + rng.choice(["MWST", "TVA", "IVA"]) * rng.randint(1, 2)
            cases.append((cc + "/doubled-prefix(informational)", cc, raw, None))
        yield cases
    cases = []
    for cc in NO_REGIME + ["US"]:
        for _ in range(300 if quick else 5000):
            b = "".join(rng.choice(AN) for _ in range(rng.randint(1, 14)))
            if b.startswith(cc):
                b = "7" + b
            cases.append(("generic/formatted", cc, formatted(rng, cc, b), b if cc != "US" else None))
    yield cases


# ------------------------------------------------------------------------------------------------

def es_control_form_ok(c):
    """the published form of the CIF control character: a letter after K L M N P Q R S W, a digit after
    A B E H, either after the other type letters"""
    if not re.fullmatch(r"[ABCDEFGHJNPQRSUVWKLM][0-9]{7}[0-9JABCDEFGHI]", c):
        return True
    if c[0] in "KLMNPQRSW":
        return c[8] in "JABCDEFGHI"
    if c[0] in "ABEH":
        return c[8] in "0123456789"
    return True


def known_finding(cc, code, go_ok):
    """narrow matchers of findings/C13.json"""
    if cc == "ES" and go_ok and spec_es(code) and not es_control_form_ok(code):
        return "C13-es-cif-control-form"
    if cc == "NL" and re.fullmatch(r"[0-9]{9}B[0-9]{2}", code) and go_ok:
        if nl_sum(code) % 11 == 10 and code[8] == "0" and not nl_mod97(code):
            return "C13-nl-remainder-10"
    if cc in ("GB", "XI", "XU") and re.fullmatch(r"[0-9]{9}([0-9]{3})?", code):
        if gb_sum(code) % 97 == 0 and gb_old_ok(int(code[:7])) and ((go_ok and code[7:9] == "00") or (not go_ok and code[7:9] == "97")):
            return "C13-gb-sum-multiple-of-97"
    return None


def digits_of(s):
    return "".join(ch for ch in s if ch in D)


def decode(out):
    vs = parse_wire(out)
    if len(vs) < 3 or not all(isinstance(x, (bytes, int)) for x in vs):
        return None
    return vs


def run(c):
    quick = c.tier == "quick"
    if not std_builds(c):
        return
    proved = c.prove()
    ok, out = build_oracle()
    if not ok:
        c.report("extraction/oracle build failed: " + out[-800:], {"machinery": "oracle"}, no_input=True)
        return
    nfail = {}
    state = {"nonidem": 0}
    party_sel, samples, vm_sample = [], [], []

    def fail(kind, cc, raw, what, extra):
        k = (kind, ALIAS.get(cc, cc))
        nfail[k] = nfail.get(k, 0) + 1
        if nfail[k] > 2 and not extra.get("finding"):
            return
        rep = {"country": cc, "code": raw, "case": line("check", cc, raw), "clause": kind}
        rep.update(extra)
        rep["rerun"] = "echo '%s' | bin/vharness ; echo '%s' | bin/oracle" % (rep["case"], rep["case"])
        c.report(what, rep, finding_id=extra.get("finding"))

    def judge(cases):
        lines = [line("check", cc, raw) for _, cc, raw, _ in cases]
        go = run_go(lines)
        mo = run_oracle(lines)
        for (stream, cc, raw, canon), g, m, l in zip(cases, go, mo, lines):
            info = "informational" in stream
            c.count(stream, 1, raw if not info else None)
            gv = decode(g)
            if gv is None or len(gv) != 4:
                fail("no-crash", cc, raw, "tax identity %s %r: implementation did not return a verdict: %s" % (cc, raw, g[:200]), {"implementation": g})
                continue
            try:
                cc1, c1, gok, c2 = gv[0].decode(), gv[1].decode(), bool(gv[2]), gv[3].decode()
            except UnicodeDecodeError:
                fail("normalisation", cc, raw, "tax identity %s %r: normalised code is not text: %s" % (cc, raw, g), {"implementation": g})
                continue
            # (1) correspondence with the model
            if g != m:
                fail("correspondence", cc, raw, "tax identity %s %r: implementation `%s` differs from the model `%s`" % (cc, raw, g, m),
                     {"implementation": g, "model": m})
            # (2) normalisation as documented
            ecc, ecode = pnorm(cc, raw)
            if cc == "BR" and c1 == raw and ecode != raw:
                # known finding: the BR regime does not register its normaliser, the code stays as written
                fail("normalisation", cc, raw, "tax identity BR %r is not normalised (documented normalisation gives %r)" % (raw, ecode),
                     {"implementation": g, "expected_code": ecode, "finding": "C13-br-normalizer-not-registered"})
                if gok != spec_accepts(cc1, c1):
                    fail("verdict", cc, raw, "tax identity BR %r left as written is %s" % (raw, "accepted" if gok else "rejected"), {"implementation": g})
                continue
            if cc == "GR" and c1.startswith("EL") and c1[2:] == ecode and c2 == ecode:
                # known finding: with country GR the EL prefix survives the first normalisation
                fail("normalisation", cc, raw, "tax identity GR %r keeps its EL prefix: %r (documented normalisation gives %r)" % (raw, c1, ecode),
                     {"implementation": g, "expected_code": ecode, "finding": "C13-gr-country-keeps-el-prefix"})
                continue
            if (cc1, c1) != (ecc, ecode):
                fail("normalisation", cc, raw, "tax identity %s %r normalises to %s %r, documented normalisation gives %s %r" % (cc, raw, cc1, c1, ecc, ecode),
                     {"implementation": g, "expected_code": ecode})
            if canon is not None:
                exp = pnorm(cc, canon)[1]
                if c1 != exp:
                    fail("normalisation-insensitive", cc, raw, "tax identity %s: written form %r normalises to %r but the plain code %r gives %r"
                         % (cc, raw, c1, canon, exp), {"implementation": g, "canonical": canon})
            if cc not in ("FR", "US") and digits_of(c1) != digits_of(raw):
                fail("digits-preserved", cc, raw, "tax identity %s %r: normalisation changed the digits: %r" % (cc, raw, c1), {"implementation": g})
            if cc == "FR" and not c1.endswith(digits_of(raw)) and digits_of(raw) == "".join(ch for ch in raw.upper() if ch in AN):
                fail("digits-preserved", cc, raw, "tax identity FR %r: normalisation changed the digits: %r" % (raw, c1), {"implementation": g})
            # (3) idempotence (second normalisation changes nothing unless a prefix/suffix is doubled)
            if c2 != c1:
                if unstable(cc1, c1):
                    state["nonidem"] += 1
                    if not info:
                        fail("idempotence", cc, raw, "tax identity %s %r: generated without doubled prefix but normalisation is not idempotent: %r then %r"
                             % (cc, raw, c1, c2), {"implementation": g})
                else:
                    fail("idempotence", cc, raw, "tax identity %s %r: normalisation not idempotent: %r then %r" % (cc, raw, c1, c2), {"implementation": g})
            elif unstable(cc1, c1) and cc != "US":
                fail("idempotence", cc, raw, "tax identity %s %r: second normalisation expected to change %r" % (cc, raw, c1), {"implementation": g})
            # (4) verdict against the published rule
            want = spec_accepts(cc1, c1)
            if cc1 == "ES" and want and not es_control_form_ok(c1):
                want = False     # right control value written in the form the published rule does not allow for this type letter
            if gok != want:
                fid = known_finding(cc1, c1, gok)
                fail("verdict", cc, raw, "tax identity %s %r (normalised %r) is %s by the implementation but %s by the published rule"
                     % (cc, raw, c1, "accepted" if gok else "rejected", "valid" if want else "invalid"),
                     {"implementation": g, "normalised": c1, "published_rule_accepts": want, "finding": fid})
            if stream.endswith("/valid") and not want and not (cc1 == "ES" and spec_es(c1)):
                c.report("generator self-check: constructed-valid code %s %r is not valid by the specification" % (cc, raw), {"machinery": raw}, no_input=True)

        # samples for the party stream, the evidence file and the vm_compute cross-check
        step = max(1, len(cases) // (4000 if quick else 3500))
        party_sel.extend((cc, raw, g) for (_, cc, raw, _), g in list(zip(cases, go))[::step] if cc != "US")
        samples.extend(cases[:: max(1, len(cases) // (6 if quick else 2))][:6 if quick else 1])
        vm_sample.extend(lines[:: max(1, len(lines) // (200 if quick else 12))][:200 if quick else 12])

    if quick:       # one run of the two executables over everything (fewer process start-ups)
        judge(corpus() + [x for batch in gen(c, quick) for x in batch])
    else:           # one regime at a time (bounded memory)
        judge(corpus())
        for batch in gen(c, quick):
            judge(batch)
    c.cov["non_idempotent_doubled_prefix_cases(informational)"] = state["nonidem"]

    # the same identity inside an org.Party (normalised by Calculate, validated as the tax_id field)
    pl = [line("party", cc, raw) for cc, raw, _ in party_sel]
    pg = run_go(pl)
    for (cc, raw, alone), g in zip(party_sel, pg):
        c.count("party", 1, (cc, raw))
        ref = decode(alone)
        gv = decode(g)
        if gv is None or ref is None or gv[:3] != ref[:3]:
            fail("party", cc, raw, "tax identity %s %r inside a party gives `%s`, alone `%s`" % (cc, raw, g, alone),
                 {"implementation": g, "case": line("party", cc, raw)})

    c.cov["rule"] = ("corpus first (codes of the repository's regime tests, recorded witnesses), then "
                     "per regime (AE AT BE BR CH CO DE EL ES FR GB IN IT MX NL PL PT): codes constructed valid by the independent "
                     "specification, every single-character substitution of them inside the national alphabet, random strings of the "
                     "national alphabet and length, written variants (separators, lower case, one leading country prefix, alternative "
                     "country codes GR/XI/XU), wrong lengths; doubled prefixes are informational; distinct = distinct (stream, raw code); "
                     "non-trivial = every counted case reaches normalisation and the national validator (informational stream not counted)")
    for s, cc, raw, _ in samples[:: max(1, len(samples) // 6)][:6]:
        c.sample({"stream": s, "country": cc, "code": raw})
    # cross-check extraction on a sample inside Coq
    samp = vm_sample[:220]
    try:
        inq = coq_eval(samp)
        mo_s = run_oracle(samp, shards=1)
        bad = [(l, a, b) for l, a, b in zip(samp, inq, mo_s) if a != b]
        c.cov["vm_compute_crosscheck"] = {"cases": len(samp), "differences": len(bad)}
        if bad:
            c.report("extracted model disagrees with vm_compute: %r" % (bad[0],), {"machinery": bad[0]}, no_input=True)
    except Exception as e:
        c.report("vm_compute cross-check failed: %r" % e, {"machinery": repr(e)}, no_input=True)
    c.cov["failing_cases_by_clause"] = {"%s/%s" % k: v for k, v in sorted(nfail.items())}
    if not proved:
        pr = c.proof
        c.report("proof obligations of Props/C13.v no longer check: " + (pr.get("make_log") or pr.get("log", ""))[-600:],
                 {"theorem": "rocq/Props/C13.v", "failed_files": pr.get("failed_files"), "forbidden": pr.get("forbidden")},
                 no_input=not nfail)


def replay(path):
    r = json.load(open(path))["replay"]
    l = r["case"]
    build_harness()
    vs = parse_wire(l)
    cc, raw = vs[2].decode(), vs[3].decode()
    g = run_go([l], shards=1)[0]
    print("implementation:", g)
    if vs[1] == b"check":
        print("model:         ", run_oracle([l], shards=1)[0])
        gv = decode(g)
        if gv and len(gv) == 4:
            cc1, c1 = gv[0].decode(), gv[1].decode()
            print("normalised: %s %s accepted=%s; published rule accepts: %s; documented normalisation: %s"
                  % (cc1, c1, bool(gv[2]), spec_accepts(cc1, c1), pnorm(cc, raw)))
    return 0
