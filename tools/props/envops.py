"""Operation alphabet of the envelope machine shared by the C09 and C10 checks
(codes as in harness/c10.go and rocq/Run/RunC10.v)."""
from vlib import w, parse_wire

CALC, EDIT, SIGN, UNSIGN, STAMP, LINK, TAG, META, NOTES, VALIDATE, VERIFY, REPARSE, CODE, INSERT = range(14)
EMPTYSIG, NULLSIG, NILHEAD, NILDIG, NULLLINK, NULLSTAMP = 20, 21, 22, 23, 24, 25
SETUUID, SETDIG, RMSTAMP, RAWSTAMP, RMLINK, RAWLINK, RMTAG, RMMETA, RAWSIGN, SWAPSIGS, DUPSIG, DROPSIG = range(26, 38)

NAMES = {CALC: "calculate", EDIT: "edit-doc", SIGN: "sign", UNSIGN: "unsign", STAMP: "add-stamp", LINK: "add-link",
         TAG: "add-tag", META: "add-meta", NOTES: "set-notes", VALIDATE: "validate", VERIFY: "verify",
         REPARSE: "reparse", CODE: "toggle-code", INSERT: "insert", EMPTYSIG: "reparse-with-empty-sig",
         NULLSIG: "reparse-with-null-sig", NILHEAD: "reparse-nil-head", NILDIG: "reparse-nil-digest",
         NULLLINK: "reparse-null-link", NULLSTAMP: "reparse-null-stamp", SETUUID: "set-uuid", SETDIG: "set-digest",
         RMSTAMP: "remove-stamp", RAWSTAMP: "append-stamp-raw", RMLINK: "remove-link", RAWLINK: "append-link-raw",
         RMTAG: "remove-tag", RMMETA: "remove-meta", RAWSIGN: "key-holder-signs-header", SWAPSIGS: "swap-sigs",
         DUPSIG: "duplicate-sig", DROPSIG: "drop-first-sig"}

# the 16-operation alphabet of the exhaustive enumeration (DESIGN.md section 7, C10)
ALPHA16 = [
    (CALC,), (EDIT,), (SIGN, 0), (SIGN, 1), (UNSIGN,),
    (STAMP, "p1", "v1"), (STAMP, "p1", "v2"), (LINK, "l1", "a"), (LINK, "l1", "b"),
    (VALIDATE,), (VERIFY, 0), (VERIFY, 1), (REPARSE,), (CODE,), (VERIFY,), (TAG, "t1"),
]

SURGERY = [(EMPTYSIG,), (NULLSIG,), (NILHEAD,), (NILDIG,), (NULLLINK,), (NULLSTAMP,)]


def wop(op):
    if len(op) == 1:
        return str(op[0])
    return "( " + " ".join([str(op[0])] + [w(x) for x in op[1:]]) + " )"


def wops(ops):
    return "( " + " ".join(wop(o) for o in ops) + " )" if ops else "( )"


def c10_line(fx, base, ops):
    return "c10 %d %d %s" % (fx, base, wops(ops))


def c09_line(fx, base, ops, keys):
    return "c09 %d %d %s %s" % (fx, base, wops(ops), w(list(keys)))


def show_op(op):
    return NAMES.get(op[0], str(op[0])) + ("(" + ",".join(str(x) for x in op[1:]) + ")" if len(op) > 1 else "")


def show(ops):
    return " ; ".join(show_op(o) for o in ops)


def parse_steps(line):
    """output line of c10 -> [(outcome, nsigs, nreal)]"""
    vs = parse_wire(line)
    if len(vs) != 1 or (vs[0] and not isinstance(vs[0][0], list)):
        return None
    return [(x[0].decode(), x[1], x[2]) for x in vs[0]]
