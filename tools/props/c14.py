"""C14 - no input crashes the library; failures are structured errors.

Proof part: rocq/Props/C14.v (nil/bounds-aware cores: each refuted for the code as shipped, proved
for the repaired core).  Tie/search part (a SEARCH, not a proof): structure-aware mutation sweep
of every example document through parse -> calculate -> validate -> digest -> sign -> verify ->
correct -> replicate in 16 worker processes (recover, per-input watchdog, ulimit -v); a panic, hang
or abort is directly the failing input; every returned error must be a *gobl.Error carrying a
documented key that serialises.  Sites recorded in findings/C14.json are matched narrowly by
(stage, top /repo frame function, mutation kind, member class).
Two further streams go beyond ONE change to ONE document in ONE request: lookup_combos (every document under every combination of
regime / currency / add-on lookup states: what lies behind two failed lookups whose fallbacks hide each other) and bulk_concurrency
(one `gobl serve` process with ~1700 requests of one POST /bulk stream in flight - every action, example document and spelling of a
document type - against the same requests sent one at a time: the process survives, answers all, and answers the same)."""
import glob
import shutil
import json
import re
import subprocess
import tempfile
import threading
from vlib import *

LEVEL = "proof"
TRUSTED = ["partial: panic-freedom is PROVED only for the modelled cores (removePreviousScenarioNotes, "
           "calculateLineItemPrice, header validation, wrapError); for the rest of the library the mutation sweep is a "
           "search, not a proof",
           "hangs and memory exhaustion are runtime behaviour no Gallina model exhibits: watchdog + ulimit -v only",
           "sweep harness harness/c14.go (mutation enumeration, recover, top /repo frame extraction)"]
DOCUMENTED = {"no-document", "validation", "calculation", "marshal", "unmarshal", "signature", "digest", "internal",
              "unknown-schema"}
NSHARDS = 16
VLIMIT_KB = 4000000


def harness(*args, timeout=600, input=None):
    p = subprocess.run([os.path.join(BIN, "vharness")] + [str(a) for a in args], stdout=subprocess.PIPE,
                       stderr=subprocess.PIPE, text=True, timeout=timeout, env=GOENV, input=input)
    return p.returncode, p.stdout, p.stderr


def jlines(text):
    res = []
    for l in text.splitlines():
        l = l.strip()
        if l.startswith("{"):
            try:
                res.append(json.loads(l))
            except ValueError:
                pass
    return res


def gen_path(doc, path):
    if doc == "random":
        return ""
    return re.sub(r"/\d+(?=/|$)", "/N", path)


def match_finding(c, rec):
    """Finds the known finding whose narrow matcher covers this crash record, or None."""
    kind = rec.get("kind", "")
    rk = "random" if kind.startswith("random") else kind
    for f in c.findings:
        m = f.get("match")
        if not isinstance(m, dict):
            continue
        if m.get("result", "panic") != rec.get("type"):
            continue
        if m.get("func", "") != rec.get("func", ""):
            continue
        st = rec.get("stage", "")
        if st not in m.get("stages", []) and not (st in ("cli-build", "cli-validate") and rec.get("type") == "panic"):
            continue
        if rk not in m.get("kinds", []) and "*" not in m.get("kinds", []):
            continue
        if rk != "random" and m.get("path") and not re.search(m["path"], rec.get("path", "")):
            continue
        if m.get("msg") and m["msg"] not in rec.get("msg", ""):
            continue
        return f["id"]
    return None


def run_shards(repo, stride, offset, seed, nrandom, tlimit):
    """Runs the 16 workers; returns (records, totals, aborts). A worker that dies is restarted after
    the input it died on, which is returned in aborts with its data."""
    os.makedirs(WORK, exist_ok=True)
    results = [None] * NSHARDS

    def one(s):
        recs, tots, aborts = [], [], []
        skip = -1
        for attempt in range(6):
            cur = os.path.join(WORK, "c14.cur.%d.%d" % (os.getpid(), s))
            try:
                os.remove(cur)
            except OSError:
                pass
            cmd = "ulimit -v %d; exec %s c14work %s %d %d %d %d %d %d %s %d" % (
                VLIMIT_KB, os.path.join(BIN, "vharness"), repo, s, NSHARDS, stride, offset, seed, nrandom, cur, skip)
            try:
                p = subprocess.run(["bash", "-c", cmd], stdout=subprocess.PIPE, stderr=subprocess.PIPE, text=True,
                                   timeout=tlimit, env=GOENV)
                rc, out, err = p.returncode, p.stdout, p.stderr
            except subprocess.TimeoutExpired as e:
                rc, out, err = -9, (e.stdout or b"").decode() if isinstance(e.stdout, bytes) else (e.stdout or ""), "shard timeout"
            rs = jlines(out)
            recs += [r for r in rs if r.get("type") in ("panic", "baderr", "hang")]
            tots += [r for r in rs if r.get("type") == "totals"]
            if rc == 0:
                break
            # abort or hang: attribute to the input recorded in the cur file
            try:
                n = int(open(cur).read().strip() or "-1")
            except (OSError, ValueError):
                n = -1
            hang = [r for r in rs if r.get("type") == "hang"]
            if not hang:
                aborts.append({"n": n, "rc": rc, "stderr": err[-1500:], "shard": s})
            if n < 0:
                break
            skip = n
        try:
            os.remove(cur)
        except OSError:
            pass
        results[s] = (recs, tots, aborts)

    ths = [threading.Thread(target=one, args=(s,)) for s in range(NSHARDS)]
    [t.start() for t in ths]
    [t.join() for t in ths]
    recs, tots, aborts = [], [], []
    for r in results:
        if r:
            recs += r[0]
            tots += r[1]
            aborts += r[2]
    return recs, tots, aborts


def fetch_inputs(repo, seed, nrandom, ns):
    rc, out, err = harness("c14get", repo, seed, nrandom, ",".join(str(n) for n in ns))
    return {r["n"]: r for r in jlines(out) if "n" in r}, next((r["total"] for r in jlines(out) if "total" in r), 0)


def replay_obj(rec):
    r = {k: rec.get(k) for k in ("doc", "path", "kind", "stage", "func", "msg", "key", "n") if rec.get(k) not in (None, "")}
    if rec.get("hex"):
        r["hex"] = rec["hex"]
    r["data"] = rec.get("data", "")
    r["rerun"] = "tools/check C14 --replay <this file>   (runs bin/vharness c14files on it)"
    return r


def cli_sample(c, repo, seed, nrandom, total, quick):
    """A sample of inputs through the CLI binary: the error record must be a JSON object with a code and,
    when a key is present, a documented key; a crash of the binary is a failing input."""
    k = 48 if quick else 400
    ns = sorted(set([c.rng.randint(1, max(total, 1)) for _ in range(k)] + [1, 2]))
    inputs, _ = fetch_inputs(repo, seed, nrandom, ns)
    gobl = os.path.join(BIN, "gobl")
    bad = 0
    for n, inp in sorted(inputs.items()):
        data = bytes.fromhex(inp["hex"]) if inp.get("hex") else inp["data"].encode()
        for cmd in ("build", "validate"):
            try:
                p = subprocess.run([gobl, cmd, "-"], input=data, stdout=subprocess.PIPE, stderr=subprocess.PIPE, timeout=60)
            except subprocess.TimeoutExpired:
                c.report("gobl %s does not terminate within 60 s on %s %s (%s)" % (cmd, inp["doc"], inp["path"], inp["kind"]),
                         dict(replay_obj(inp), stage="cli-" + cmd))
                continue
            c.count("cli-sample", 1, (n, cmd))
            err = p.stderr.decode("utf-8", "replace")
            err = "\n".join(l for l in err.splitlines() if not l.startswith("WARNING conda"))
            if p.returncode == 0:
                continue
            if p.returncode == 1:
                try:
                    obj = json.loads(err)
                    ok = isinstance(obj, dict) and isinstance(obj.get("code"), int) and \
                        (obj.get("key") in DOCUMENTED if "key" in obj else bool(obj.get("message")))
                except ValueError:
                    ok = False
                if not ok:
                    bad += 1
                    rec = dict(inp, type="baderr", stage="cli-" + cmd, func="", msg="CLI error record: " + err[:200])
                    c.report("gobl %s prints an error record that is not a JSON object with code and documented key/message: %s"
                             % (cmd, err[:200]), replay_obj(rec), finding_id=match_finding(c, rec))
                continue
            # crash of the process
            m = re.search(r"^(github\.com/invopop/gobl[^\s(]*(?:\([^)]*\))?[^\s(]*)\(", err, re.M)
            fn = m.group(1) if m else ""
            mm = re.search(r"^(panic: .*|fatal error: .*)$", err, re.M)
            rec = dict(inp, type="panic", stage="cli-" + cmd, func=fn, msg=(mm.group(1) if mm else err[:120])[:160])
            c.report("gobl %s crashes (exit %d) in %s on %s member %s mutation %s: %s" %
                     (cmd, p.returncode, fn, inp["doc"], inp["path"], inp["kind"], rec["msg"]),
                     replay_obj(rec), finding_id=match_finding(c, rec))
    # usage / file errors of the command line itself: the record must still be {code, key|message}
    for args in (["nosuchcommand"], ["build", "--nosuchflag"], ["validate", "/nonexistent/input.json"],
                 ["sign", "-k", "/nonexistent/key.jwk", "/nonexistent/input.json"]):
        p = subprocess.run([gobl] + args, stdin=subprocess.DEVNULL, stdout=subprocess.PIPE, stderr=subprocess.PIPE, timeout=60)
        err = "\n".join(l for l in p.stderr.decode("utf-8", "replace").splitlines() if not l.startswith("WARNING conda"))
        c.count("cli-usage", 1, tuple(args))
        try:
            obj = json.loads(err)
            ok = p.returncode == 1 and isinstance(obj, dict) and isinstance(obj.get("code"), int) and \
                (obj.get("key") in DOCUMENTED if "key" in obj else bool(obj.get("message")))
        except ValueError:
            ok = False
        if not ok:
            rec = {"type": "baderr", "stage": "cli-usage", "func": "", "kind": "usage", "doc": "", "path": " ".join(args),
                   "msg": "CLI error record: " + " ".join(err.split())[:160], "data": ""}
            c.report("`gobl %s` (exit %d) prints an error record without code and key/message: %s" %
                     (" ".join(args), p.returncode, " ".join(err.split())[:160]),
                     {"command": "bin/gobl " + " ".join(args), "stderr": err[:400]}, finding_id=match_finding(c, rec))
    # flag values of the command line: every way of giving --set / --set-string / --set-file / -d / -t / -T / -k an empty,
    # dotted, clashing or dangling value - a result, or an error record; never a crash
    src = os.path.join(repo, "examples", "es", "out", "invoice-es-es.json")
    if not os.path.exists(src):
        import glob as _g
        fs = sorted(_g.glob(os.path.join(repo, "examples", "*", "out", "*.json")))
        src = fs[0] if fs else src
    sets = ["=ES", "=", ".=x", "a.=x", "a..b=x", ".a=x", "doc.=x", "a=b=c", "a= ", " =x", "lines.5.i=2", "lines=x", "lines.x=1", "lines.0=1",
            "lines.-1.i=1", "supplier.name.x=1", "a.b.c.d.e.f=1", "$schema=x", "doc=null", "currency=", "a=" + "9" * 400, "totals=~"]
    flagsets = []
    for v in sets:
        for fl in ("--set", "--set-string"):
            flagsets.append(("build", [fl, v]))
        flagsets.append(("sign", ["--set", v]))
    for v in ("=x", "a=/nonexistent/file.yaml", "=/nonexistent", ".=/dev/null", "a=/dev/null", "lines=" + src):
        flagsets.append(("build", ["--set-file", v]))
    for cmd in ("build", "sign"):
        flagsets += [(cmd, ["-T", "/nonexistent/template.yaml"]), (cmd, ["-T", "/dev/null"]), (cmd, ["-t", ""]), (cmd, ["-t", "nosuch/type"]),
                     (cmd, ["-t", "bill/invoice", "--set", "type=credit-note"])]
    for d in ("", "{", "null", "[]", "7", '{"type":7}', '{"type":null}', '{"stamps":[null]}', '{"ext":{"":""}}', '{"issue_date":"x"}', '{"type":"credit-note","ext":null}'):
        flagsets.append(("correct", ["-d", d]))
    flagsets += [("correct", ["--credit", "--debit"]), ("sign", ["-k", ""]), ("sign", ["-k", "/dev/null"]), ("verify", ["-k", ""]), ("verify", ["-k", "/dev/null"]),
                 ("validate", ["-t", "x"]), ("replicate", ["-t", ""])]
    for cmd, fl in flagsets:
        args = [cmd] + fl + [src]
        try:
            p = subprocess.run([gobl] + args, stdin=subprocess.DEVNULL, stdout=subprocess.PIPE, stderr=subprocess.PIPE, timeout=60)
        except subprocess.TimeoutExpired:
            c.report("`gobl %s` does not finish within 60 s" % " ".join(args[:-1]), {"command": "bin/gobl " + " ".join(args)})
            continue
        err = "\n".join(l for l in p.stderr.decode("utf-8", "replace").splitlines() if not l.startswith("WARNING conda"))
        c.count("cli-flags", 1, tuple(args[:-1]))
        if p.returncode not in (0, 1) or "panic:" in err or "goroutine " in err:
            m = re.search(r"^(github\.com/invopop/gobl[^\s(]*)\(", err, re.M)
            mm = re.search(r"^(panic: .*|fatal error: .*)$", err, re.M)
            c.report("`gobl %s <example>` crashes (exit %d) in %s: %s" % (" ".join(args[:-1]), p.returncode, m.group(1) if m else "?", (mm.group(1) if mm else err[:120])[:160]),
                     {"command": "bin/gobl " + " ".join(args), "stderr": err[:1500], "clause": "the command line returns a result or an error record; it never panics"})
            continue
        if p.returncode == 1:
            try:
                obj = json.loads(err)
                ok = isinstance(obj, dict) and isinstance(obj.get("code"), int) and (obj.get("key") in DOCUMENTED if "key" in obj else bool(obj.get("message")))
            except ValueError:
                ok = False
            if not ok:
                c.report("`gobl %s <example>` (exit 1) prints an error record without code and key/message: %s" % (" ".join(args[:-1]), " ".join(err.split())[:160]),
                         {"command": "bin/gobl " + " ".join(args), "stderr": err[:400]})
    return bad


def serve_requests(c, repo, stream=None):
    """`gobl serve`: every endpoint with missing / null / ill-typed bodies and payload members, and the bulk actions with the
    same; the server answers every request and is still alive afterwards (a panic in a handler that is not recovered, or
    in a bulk goroutine, takes the process down)."""
    import socket, http.client, base64 as _b64, tempfile
    gobl = os.path.join(BIN, "gobl")
    src = os.path.join(repo, "examples", "es", "out", "invoice-es-es.json")
    doc64 = _b64.b64encode(open(src, "rb").read()).decode() if os.path.exists(src) else "e30="
    tmpd = tempfile.mkdtemp(prefix="c14serve", dir=WORK)
    key = os.path.join(tmpd, "key.jwk")
    subprocess.run([gobl, "keygen", key], stdout=subprocess.PIPE, stderr=subprocess.PIPE, env=GOENV)
    s0 = socket.socket()
    s0.bind(("127.0.0.1", 0))
    port = s0.getsockname()[1]
    s0.close()
    args = [gobl, "serve", "-p", str(port)] + (["-k", key] if os.path.exists(key) else [])
    log_ = open(os.path.join(tmpd, "serve.log"), "w")
    proc = subprocess.Popen(args, stdout=log_, stderr=log_, env=GOENV)

    def call(method, path, body, ctype="application/json"):
        h = http.client.HTTPConnection("127.0.0.1", port, timeout=30)
        h.request(method, path, body=body, headers={"Content-Type": ctype} if body is not None else {})
        r = h.getresponse()
        data = r.read()
        h.close()
        return r.status, data

    try:
        up = False
        for _ in range(100):
            time.sleep(0.05)
            if proc.poll() is not None:
                break
            try:
                if call("GET", "/", None)[0] == 200:
                    up = True
                    break
            except OSError:
                pass
        if not up:
            c.report("gobl serve did not come up", {"machinery": "serve"}, no_input=True)
            return
        payloads = [None, {}, {"data": doc64}, {"data": None}, {"data": ""}, {"data": "e30="}, {"data": 7}, {"data": [doc64]}, {"data": doc64, "privatekey": None},
                    {"data": doc64, "privatekey": {}}, {"data": doc64, "publickey": None}, {"data": doc64, "publickey": {}}, {"data": doc64, "options": None},
                    {"data": doc64, "options": "e30="}, {"data": doc64, "options": "bnVsbA=="}, {"data": doc64, "template": "e30="}, {"data": doc64, "template": None},
                    {"data": doc64, "type": ""}, {"data": doc64, "envelop": "x"}, {"path": None}, {"path": ""}, {"path": "nosuch/schema"}, {"code": None}, {"code": ""},
                    {"code": "ZZ"}, "x", 7, [], True]
        sent = []
        # single-request endpoints
        for ep in ("/build", "/verify", "/key", "/", "/nosuch"):
            for meth in ("POST", "GET"):
                for pl in payloads[:20] + ["{", "", "null"]:
                    body = pl if isinstance(pl, str) and pl in ("{", "", "null") else json.dumps(pl)
                    sent.append((meth, ep, body))
        # bulk: one stream per action so that a dying goroutine is attributed
        for act in ("build", "validate", "sign", "verify", "correct", "replicate", "schema", "regime", "keygen", "ping", "sleep", "nosuch", ""):
            lines = []
            for i, pl in enumerate(payloads):
                r = {"action": act, "req_id": "%s-%d" % (act, i)}
                if pl is not None:
                    r["payload"] = pl
                lines.append(json.dumps(r))
            sent.append(("POST", "/bulk", "\n".join(lines) + "\n"))
        # the concurrency stream of bulk_concurrency (every action, document and type spelling, all in flight at once), twice
        if stream:
            sent += [("POST", "/bulk", stream.decode())]
        for meth, ep, body in sent:
            c.count("serve-requests", 1, (meth, ep, body[:200]))
            try:
                st, data = call(meth, ep, body.encode())
            except OSError as e:
                alive = proc.poll() is None
                tail = open(os.path.join(tmpd, "serve.log")).read()[-3000:]
                m = re.search(r"^(github\.com/invopop/gobl[^\s(]*)\(", tail, re.M)
                mm = re.search(r"^(panic: .*|fatal error: .*)$", tail, re.M)
                c.report("gobl serve %s on %s %s (%r): %s in %s" % ("stops answering" if alive else "dies", meth, ep, e, mm.group(1) if mm else "no panic line",
                                                                     m.group(1) if m else "?"),
                         {"request": {"method": meth, "path": ep, "body": body[:4000]}, "server_log_tail": tail,
                          "clause": "the operation returns a result or an error; it never panics, hangs or aborts the process"})
                return
            if ep == "/bulk" and st == 200:
                outs_ = [json.loads(l) for l in data.decode("utf-8", "replace").splitlines() if l.strip().startswith("{")]
                want = body.count("\n")
                if not any(o.get("is_final") for o in outs_) or len([o for o in outs_ if not o.get("is_final")]) != want:
                    c.report("gobl serve /bulk answers %d of %d requests (final marker: %s)" % (len([o for o in outs_ if not o.get("is_final")]), want,
                                                                                               any(o.get("is_final") for o in outs_)),
                             {"request": {"method": meth, "path": ep, "body": body[:4000]}, "response": data.decode("utf-8", "replace")[:3000]})
        if proc.poll() is not None:
            c.report("gobl serve exited (%s) after the request sweep" % proc.returncode, {"server_log_tail": open(os.path.join(tmpd, "serve.log")).read()[-3000:]})
    finally:
        try:
            proc.kill()
        except OSError:
            pass
        log_.close()
        import shutil
        shutil.rmtree(tmpd, ignore_errors=True)


def judge_records(c, recs, where):
    seen = {}
    for r in recs:
        if r["type"] == "hang":
            c.report("%s: input does not finish within %s ms: %s member %s mutation %s" %
                     (where, r.get("limit_ms"), r["doc"], r["path"], r["kind"]), replay_obj(r))
            continue
        fid = match_finding(c, r)
        key = (r["type"], r["stage"], r["func"], r["kind"], gen_path(r["doc"], r["path"]), r.get("key", ""))
        if fid is None and key in seen and not r.get("data"):
            continue
        seen[key] = True
        if r["type"] == "panic":
            what = "%s: panic in %s at stage %s on %s member %s mutation %s: %s" % (
                where, r["func"] or "?", r["stage"], r["doc"], r["path"], r["kind"], r.get("msg", ""))
        else:
            what = "%s: stage %s returns an error that is not a structured *gobl.Error (%s) on %s member %s mutation %s" % (
                where, r["stage"], r.get("msg", ""), r["doc"], r["path"], r["kind"])
        c.report(what, replay_obj(r), finding_id=fid)


def run_corpus(c):
    files = sorted(glob.glob(os.path.join(VERIF, "corpus", "C14", "*.json")))
    if not files:
        return
    rc, out, err = harness("c14files", *files, timeout=600)
    if rc != 0:
        c.report("corpus run failed: " + err[-400:], {"machinery": "c14files"}, no_input=True)
        return
    for res in jlines(out):
        src = json.load(open(res["file"]))
        c.count("corpus", 1, res["file"])
        recs = []
        for o in res["outs"]:
            if o["result"] in ("panic", "baderr"):
                recs.append({"type": o["result"], "stage": o["stage"], "func": o.get("func", ""), "msg": o.get("msg", ""),
                             "key": o.get("key", ""), "doc": src.get("doc", ""), "path": src.get("path", ""),
                             "kind": src.get("kind", ""), "data": src.get("data", ""), "hex": src.get("hex", "")})
        judge_records(c, recs, "corpus " + os.path.basename(res["file"]))


def summary_combos(c, repo):
    """Payments whose lines carry hand-supplied tax summaries, and invoices whose preceding references do:
    every ordered pair (and some triples) of rate groups that differ in ONE respect (surcharge present or not,
    percentage, extension, country, exempt), inside one category or in two - what tax.Total.Merge /
    Total.Calculate see when the rows of different documents meet.  Whole pipeline, no panic allowed."""
    try:
        base = json.load(open(os.path.join(repo, "examples", "es", "out", "payment-with-tax.json")))
        inv = json.load(open(os.path.join(repo, "examples", "es", "out", "invoice-es-es.json")))
    except Exception as e:
        c.report("summary combos: example documents missing: %s" % e, {"machinery": "examples/es/out"}, no_input=True)
        return
    def rate(pct="21.0%", sur=None, ext=None, country=None, key=None, base_="100.00"):
        r = {"base": base_}
        if key:
            r["key"] = key
        if country:
            r["country"] = country
        if ext:
            r["ext"] = ext
        if pct:
            r["percent"] = pct
            r["amount"] = "21.00"
        if sur:
            r["surcharge"] = {"percent": sur, "amount": "5.20"}
        return r
    rates = [rate(), rate(sur="5.2%"), rate(sur="1.4%"), rate(pct="10.0%"), rate(pct="10.0%", sur="1.4%"), rate(pct=None, key="exempt"),
             rate(pct=None, key="exempt", ext={"es-tbai-exemption": "E1"}), rate(ext={"es-tbai-product": "services"}), rate(country="PT"),
             rate(country="PT", sur="5.2%"), rate(key="standard"), rate(key="standard", sur="5.2%"),
             rate(pct=None, key="exempt", sur="5.2%"), rate(pct=None, key="exempt", sur="1.4%"), rate(pct=None, sur="5.2%")]
    def summary(rs, cat="VAT", retained=False):
        ct = {"code": cat, "rates": rs, "amount": "21.00"}
        if retained:
            ct["retained"] = True
        if any("surcharge" in r for r in rs):
            ct["surcharge"] = "5.20"
        return {"categories": [ct], "sum": "21.00"}
    sums = [summary([r]) for r in rates] + [summary([rates[0], rates[1]]), summary([rates[1], rates[0]]), summary([rates[0]], "IRPF", True),
                                             summary([rates[1]], "IRPF", True), {"categories": [], "sum": "0.00"}, {"sum": "0.00"}]
    seqs = [(a, b) for a in range(len(sums)) for b in range(len(sums))]
    rng = c.rng
    seqs += [tuple(rng.randrange(len(sums)) for _ in range(3)) for _ in range(120)]
    tmpd = os.path.join(WORK, "c14combos")
    shutil.rmtree(tmpd, ignore_errors=True)
    os.makedirs(tmpd)
    files = []
    for n, seq in enumerate(seqs):
        for how in ("payment", "preceding"):
            if how == "payment":
                env = json.loads(json.dumps(base))
                line0 = env["doc"]["lines"][0]
                env["doc"]["lines"] = []
                for i, k in enumerate(seq):
                    ln = json.loads(json.dumps(line0))
                    ln["i"] = i + 1
                    ln["document"]["tax"] = sums[k]
                    env["doc"]["lines"].append(ln)
                env["doc"].pop("tax", None)
            else:
                env = json.loads(json.dumps(inv))
                env["doc"]["preceding"] = [{"type": "standard", "series": "S", "code": "%d" % (i + 1), "issue_date": "2021-01-01", "tax": sums[k]}
                                           for i, k in enumerate(seq)]
            f = os.path.join(tmpd, "%s-%04d.json" % (how, n))
            json.dump({"doc": "summary-combos", "kind": how, "path": "/".join(map(str, seq)), "data": json.dumps(env)}, open(f, "w"))
            files.append(f)
    for i in range(0, len(files), 400):
        rc, out, err = harness("c14files", *files[i:i + 400], timeout=900)
        if rc != 0:
            c.report("summary combos: run failed: " + err[-400:], {"machinery": "c14files"}, no_input=True)
            return
        for res in jlines(out):
            src = json.load(open(res["file"]))
            c.count("summary-combos", 1, (src["kind"], src["path"]))
            recs = []
            for o in res["outs"]:
                if o["result"] in ("panic", "baderr"):
                    recs.append({"type": o["result"], "stage": o["stage"], "func": o.get("func", ""), "msg": o.get("msg", ""),
                                 "key": o.get("key", ""), "doc": "summary-combos " + src["kind"], "path": src["path"],
                                 "kind": src["kind"], "data": src["data"], "hex": ""})
            judge_records(c, recs, "summary combos (%s, summaries %s)" % (src["kind"], src["path"]))
    shutil.rmtree(tmpd, ignore_errors=True)


def run_case_files(c, files, stream, keyf, docf, wheref, nproc=12):
    """Runs replay-shaped case files through `vharness c14files` (whole pipeline) in nproc processes and judges the
    records like the sweep does."""
    chunks = [files[i::nproc] for i in range(nproc) if files[i::nproc]]
    results = [None] * len(chunks)

    def one(i):
        outs_ = []
        fs = chunks[i]
        for j in range(0, len(fs), 300):
            try:
                rc, out, err = harness("c14files", *fs[j:j + 300], timeout=900)
            except subprocess.TimeoutExpired:
                rc, out, err = -9, "", "timeout"
            outs_.append((rc, out, err, fs[j:j + 300]))
        results[i] = outs_

    ths = [threading.Thread(target=one, args=(i,)) for i in range(len(chunks))]
    [t.start() for t in ths]
    [t.join() for t in ths]
    reported_ = {}
    found_ = []
    for outs_ in results:
        for rc, out, err, fs in outs_ or []:
            done = set()
            for res in jlines(out):
                done.add(res["file"])
                src = json.load(open(res["file"]))
                c.count(stream, 1, keyf(src))
                recs = []
                for o in res["outs"]:
                    if o["result"] in ("panic", "baderr"):
                        recs.append({"type": o["result"], "stage": o["stage"], "func": o.get("func", ""), "msg": o.get("msg", ""),
                                     "key": o.get("key", ""), "doc": docf(src), "path": src["path"],
                                     "kind": src["kind"], "data": src["data"], "hex": ""})
                if recs:
                    found_.append((src["path"].count("=") - src["path"].count("=asis"), len(found_), src, recs))
            if rc != 0:
                # the process died (a fatal error is not recoverable) or hung: the first file without an answer is the input
                left = [f for f in fs if f not in done]
                if left and rc != 2:
                    src = json.load(open(left[0]))
                    c.report("%s: the process running the pipeline aborts (rc %s) on this input: %s" % (wheref(src), rc, err[-300:]),
                             replay_obj({"doc": docf(src), "path": src["path"], "kind": src["kind"], "stage": "abort", "data": src["data"]}))
                else:
                    c.report("%s: run failed: %s" % (stream, err[-400:]), {"machinery": "c14files"}, no_input=True)
    # one report per (result, site, document type): the simplest input that shows it (fewest members changed; every case is counted above)
    for _, _, src, recs in sorted(found_, key=lambda x: x[:2]):
        fresh_ = []
        for r in recs:
            k = (r["type"], r["func"], r.get("key", ""), src.get("schema", ""))
            if match_finding(c, r) is None:
                if k in reported_:
                    reported_[k] += 1
                    continue
                reported_[k] = 1
            fresh_.append(r)
        judge_records(c, fresh_, wheref(src))
    c.cov.setdefault("same_site_inputs_not_reported_again", {})[stream] = {"%s %s %s" % (k[0], k[1], k[3]): n - 1 for k, n in reported_.items() if n > 1}


def lookup_combos(c, repo, quick):
    """Every example document and every rich synthetic document of a type that carries them, under every COMBINATION of the
    three code lookups a calculation starts with - which regime (as given / none determinable: no $regime and no tax_id /
    a tax_id country that has no regime / unknown $regime / $regime left to the tax_id / unknown tax_id country), which
    currency (as given / absent / empty / syntactically fine but undefined / a retired ISO code / another defined one) and
    which add-ons (as given / none / an unknown one).  The single-member sweep changes one of them at a time, and each
    lookup has a fallback that hides the failure of another (the regime supplies the currency, the add-on the regime ...);
    only the combinations reach the code behind two failed lookups.  Whole pipeline, judged like the sweep: a result or a
    structured error, never a panic."""
    regs = set(d.upper() for d in os.listdir(os.path.join(repo, "regimes")) if len(d) == 2) if os.path.isdir(os.path.join(repo, "regimes")) else set()
    noreg = next((cc for cc in ("JP", "CN", "AU", "ZA", "KR", "NZ") if cc not in regs), "JP")
    docs = []
    for rel in sorted(glob.glob(os.path.join(repo, "examples", "*", "out", "*.json")) +
                      glob.glob(os.path.join(repo, "**", "examples", "out", "*.json"), recursive=True)):
        docs.append((os.path.relpath(rel, repo), rel))
    for f in sorted(glob.glob(os.path.join(WORK, "c14rich", "rich-bill-*.json"))):
        if "+" not in os.path.basename(f):
            docs.append(("rich:" + os.path.basename(f), f))
    seen_ = set()
    docs = [d for d in docs if not (d[1] in seen_ or seen_.add(d[1]))]

    def parties(doc):
        return [v for v in doc.values() if isinstance(v, dict) and ("tax_id" in v or "name" in v or "$regime" in v)]

    def set_regime(doc, how):
        if how == "asis":
            return
        ps = parties(doc)
        if how in ("none", "country-without-regime", "left-to-tax-id", "unknown-country"):
            doc.pop("$regime", None)
            for p in ps:
                p.pop("$regime", None)
        if how == "none":
            for p in ps:
                p.pop("tax_id", None)
        elif how == "country-without-regime":
            for p in ps:
                p["tax_id"] = {"country": noreg}
        elif how == "unknown-country":
            for p in ps:
                if isinstance(p.get("tax_id"), dict):
                    p["tax_id"]["country"] = "QQ"
        elif how == "unknown":
            doc["$regime"] = "QQ"

    def set_currency(doc, how):
        if how == "asis":
            return
        if how == "absent":
            doc.pop("currency", None)
        elif how == "other":
            doc["currency"] = "JPY" if doc.get("currency") != "JPY" else "USD"
        else:
            doc["currency"] = {"empty": "", "undefined": "XXQ", "retired": "DEM"}[how]

    def set_addons(doc, how):
        if how == "none":
            doc.pop("$addons", None)
        elif how == "unknown":
            doc["$addons"] = ["zz-unknown-v1"]

    RS = ["asis", "none", "country-without-regime", "unknown", "left-to-tax-id", "unknown-country"]
    CS = ["asis", "absent", "empty", "undefined", "retired", "other"]
    AS = ["asis", "none", "unknown"]
    tmpd = os.path.join(WORK, "c14lookup")
    shutil.rmtree(tmpd, ignore_errors=True)
    os.makedirs(tmpd)
    files = []
    types = {}
    for name, path in docs:
        try:
            env = json.load(open(path))
        except Exception:
            continue
        d0 = env.get("doc") if isinstance(env, dict) and isinstance(env.get("doc"), dict) else env
        if not isinstance(d0, dict) or not any(k in d0 for k in ("currency", "$regime", "supplier", "$addons")):
            continue
        sch = str(d0.get("$schema", "")).split("draft-0/")[-1]
        combos = [(r, cu, a) for r in RS for cu in CS for a in AS if (r, cu, a) != ("asis", "asis", "asis")]
        # quick tier: the first document of each (type, regime directory): every regime x currency pair, and the add-on states under every
        # regime state with the currency as given / undefined; every other document: a seeded dozen of the combinations
        if quick:
            kk = (sch, name.split("/")[1] if "/" in name else name)
            types[kk] = types.get(kk, 0) + 1
            if types[kk] == 1:
                combos = [x for x in combos if x[2] == "asis" or x[1] in ("asis", "undefined")]
            else:
                combos = c.rng.sample(combos, 12)
        for r, cu, a in combos:
            e2 = json.loads(json.dumps(env))
            d = e2["doc"] if d0 is not env else e2
            set_regime(d, r)
            set_currency(d, cu)
            set_addons(d, a)
            f = os.path.join(tmpd, "%05d.json" % len(files))
            json.dump({"doc": name, "kind": "lookups", "path": "regime=%s,currency=%s,addons=%s" % (r, cu, a), "schema": sch,
                       "data": json.dumps(e2)}, open(f, "w"))
            files.append(f)
    run_case_files(c, files, "lookup-combos", lambda s: (s["doc"], s["path"]), lambda s: "lookup-combos " + s["doc"],
                   lambda s: "lookup combos (%s %s, %s)" % (s.get("schema", ""), s["doc"], s["path"]))
    c.cov["lookup_combos"] = {"documents": len(docs), "cases": len(files), "regime_states": RS, "currency_states": CS, "addon_states": AS,
                              "country_without_regime": noreg}
    shutil.rmtree(tmpd, ignore_errors=True)


def bulk_stream(c, repo, quick, ids):
    """The requests of the concurrency streams: (request object, answer determined by the request?, filler data?) in a seeded order.  Every bulk action;
    every example document through every action that takes a document; and every value of the request's own string members
    in every accepted spelling: the document type of build/sign as full schema ID, schema path, Go type name, package.Type and
    every trailing part of the path (what FindType accepts), known and unknown; schema paths; regime codes; templates."""
    import base64 as _b64
    b64 = lambda x: _b64.b64encode(x if isinstance(x, bytes) else json.dumps(x).encode()).decode()
    reqs = []

    def add(action, payload, det=True, tag="", filler=False):
        r = {"action": action, "req_id": "%s-%s%d" % (action, tag, len(reqs))}
        if payload is not None:
            r["payload"] = payload
        reqs.append((r, det, filler))

    # rich synthetic documents by schema path: the data a typed request of that type carries (the type is NOT in the data)
    rich = {}
    for f in glob.glob(os.path.join(WORK, "c14rich", "rich-*.json")):
        try:
            d = json.load(open(f))
        except Exception:
            continue
        if isinstance(d, dict) and "$schema" in d and "+" not in os.path.basename(f):
            sch = d.pop("$schema")
            rich[sch] = d
    small = {"title": "Note", "content": "A short message.", "name": "Name", "code": "C1", "country": "ES", "currency": "EUR", "num": "1", "label": "l",
             "key": "k", "text": "t", "url": "https://example.com", "addr": "a@example.com", "street": "s", "locality": "l", "percent": "10%", "value": "1",
             "amount": "1.00", "reason": "r", "base": "1.00", "i": 1, "type": "standard", "date": "2024-01-01", "issue_date": "2024-01-01"}
    prefix = "https://gobl.org/draft-0"
    nspell = 0
    for sid in ids:
        path_ = sid[len(prefix):] if sid.startswith(prefix) else sid
        parts = [x for x in path_.split("/") if x]
        camel = "".join(w[:1].upper() + w[1:] for w in parts[-1].split("-")) if parts else ""
        spell = [(sid, True), (path_, True), (path_.lstrip("/"), True)]
        if len(parts) >= 2:
            spell += [(parts[-2] + "." + camel, True), (".".join(parts[:-1]) + "." + camel, True)]
        spell += [(camel, False), (parts[-1] if parts else "", False), (sid.upper(), True), (sid + "/", True), (" " + path_, True), (path_ + "#", True)]
        spell += [(path_[i:], False) for i in range(2, max(len(path_) - 2, 2))]
        seen_ = set()
        data = rich.get(sid)
        for term, det in spell:
            if term in seen_:
                continue
            seen_.add(term)
            nspell += 1
            big = data is not None and det and len(seen_) <= 3
            add("build" if nspell % 4 else "sign", {"type": term, "data": b64(data if big else small)}, det=det and big, tag="t", filler=not big)
    # unknown and odd type terms
    for term in ["nosuch", "bill/nosuch", "Nosuch.Type", ".", "..", "/", "//", "a.b.c.d", "https://", "http://x", "bill.", ".Invoice", "é", "bill/invoice/", "x" * 300]:
        add("build", {"type": term, "data": b64(small)}, tag="u", filler=True)
    # every example document through every action that takes one
    n = 0
    for f in sorted(glob.glob(os.path.join(repo, "examples", "*", "out", "*.json"))):
        raw = open(f, "rb").read()
        try:
            env = json.loads(raw)
        except ValueError:
            continue
        n += 1
        if quick and n % 3 != c.seed % 3:
            continue
        doc = env.get("doc") if isinstance(env.get("doc"), dict) else None
        add("validate", {"data": b64(raw)})
        add("build", {"data": b64(raw)})
        add("verify", {"data": b64(raw)})
        add("replicate", {"data": b64(raw)})
        add("correct", {"data": b64(raw), "schema": True})
        add("correct", {"data": b64(raw), "options": b64({"type": "credit-note", "reason": "r", "issue_date": "2024-01-01"})})
        if doc:
            sch = doc.get("$schema", "")
            bare = {k: v for k, v in doc.items() if k != "$schema"}
            add("build", {"data": b64(doc), "envelop": True})
            add("build", {"data": b64(bare), "type": sch[len(prefix):] if sch.startswith(prefix) else sch})
            add("sign", {"data": b64(bare), "type": sch})
            add("build", {"data": b64({}), "template": b64(doc)})
    for sid in ids:
        add("schema", {"path": sid[len(prefix):].lstrip("/") if sid.startswith(prefix) else sid})
    for d in sorted(os.listdir(os.path.join(repo, "regimes"))) if os.path.isdir(os.path.join(repo, "regimes")) else []:
        if len(d) == 2:
            add("regime", {"code": d})
            add("regime", {"code": d.upper()})
    for act in ("keygen", "ping", "schemas", "nosuch"):
        for _ in range(5):
            add(act, None)
    c.rng.shuffle(reqs)
    return reqs


def bulk_observe(resp, action=""):
    """Projected observable of one bulk response: class, error code/key, type and (build, sign: the document keeps its uuid) digest
    of the document."""
    if resp.get("error") is not None:
        e = resp["error"]
        return ("error", e.get("code"), e.get("key")) if isinstance(e, dict) else ("error?", str(e)[:40])
    if "payload" not in resp:
        return ("empty",)
    pl = resp["payload"]
    if isinstance(pl, dict) and isinstance(pl.get("doc"), dict):
        dig = (pl.get("head") or {}).get("dig") or {}
        return ("ok", pl["doc"].get("$schema"), dig.get("val") if "uuid" in pl["doc"] and action in ("build", "sign") else None)
    if isinstance(pl, dict) and isinstance(pl.get("$schema"), str):
        return ("ok", pl["$schema"])
    if isinstance(pl, dict) and "private" in pl:
        return ("ok", "key")
    return ("ok", json.dumps(pl, sort_keys=True)[:200])


class BulkServer:
    """A `gobl serve` process on a free port (own signing key), for POST /bulk."""

    def __init__(self, tag):
        import socket
        self.gobl = os.path.join(BIN, "gobl")
        self.tmpd = tempfile.mkdtemp(prefix="c14bulk" + tag, dir=WORK)
        key = os.path.join(self.tmpd, "key.jwk")
        subprocess.run([self.gobl, "keygen", key], stdout=subprocess.PIPE, stderr=subprocess.PIPE, env=GOENV)
        s0 = socket.socket()
        s0.bind(("127.0.0.1", 0))
        self.port = s0.getsockname()[1]
        s0.close()
        self.logf = os.path.join(self.tmpd, "serve.log")
        self.log_ = open(self.logf, "w")
        self.proc = subprocess.Popen([self.gobl, "serve", "-p", str(self.port)] + (["-k", key] if os.path.exists(key) else []),
                                     stdout=self.log_, stderr=self.log_, env=GOENV)
        self.up = False
        for _ in range(200):
            time.sleep(0.05)
            if self.proc.poll() is not None:
                break
            try:
                if self.call("GET", "/", None)[0] == 200:
                    self.up = True
                    break
            except OSError:
                pass

    def call(self, method, path, body, timeout=300):
        import http.client
        h = http.client.HTTPConnection("127.0.0.1", self.port, timeout=timeout)
        try:
            h.request(method, path, body=body, headers={"Content-Type": "application/json"} if body is not None else {})
            r = h.getresponse()
            return r.status, r.read()
        finally:
            h.close()

    def bulk(self, body, timeout=300):
        """(answers, None) or (None, description of how the server failed)."""
        import http.client
        try:
            st, data = self.call("POST", "/bulk", body, timeout)
        except (OSError, http.client.HTTPException) as e:
            time.sleep(0.3)
            return None, "%s (%r)" % ("stops answering" if self.proc.poll() is None else "dies with exit status %s" % self.proc.returncode, e)
        if st != 200:
            return None, "answers POST /bulk with status %s" % st
        return jlines(data.decode("utf-8", "replace")), None

    def log_tail(self):
        """The server's output from the first panic / fatal error line on (a fatal error dumps every goroutine: the reason is at the head)."""
        self.log_.flush()
        t = open(self.logf).read()
        m = re.search(r"^(panic: |fatal error: )", t, re.M)
        return t[m.start():][:6000] if m else t[-6000:]

    def close(self):
        try:
            self.proc.kill()
            self.proc.wait(timeout=10)
        except (OSError, subprocess.TimeoutExpired):
            pass
        self.log_.close()
        shutil.rmtree(self.tmpd, ignore_errors=True)


def bulk_concurrency(c, repo, quick):
    """One process, many requests in flight: the bulk operation (POST /bulk of `gobl serve`) runs every request of a stream in its
    own goroutine.  One stream of bulk_stream() requests is given (a) at once - all requests concurrent - to three freshly started
    servers and (b) to a fourth one request at a time, each sent after the answer to the previous one was read (the sequential run).
    Property: the process survives (still serving afterwards), every request is answered with a result or an error record carrying a
    code and a documented key / a message, the stream ends with its final record, and the concurrent answers equal the sequential
    ones (class, error code and key, type and digest of the built document) for every request whose answer is determined by it."""
    srv = BulkServer("s")
    try:
        if not srv.up:
            c.report("gobl serve did not come up", {"machinery": "serve"}, no_input=True)
            return None
        ids = []
        outs_, bad = srv.bulk(b'{"action":"schemas","req_id":"s"}\n')
        for o in outs_ or []:
            if o.get("req_id") == "s" and isinstance(o.get("payload"), dict):
                ids = o["payload"].get("list", [])
        reqs = bulk_stream(c, repo, quick, ids)
        if len(reqs) < 100 or not ids:
            c.report("bulk concurrency: could not build the request stream (%d requests, %d schemas)" % (len(reqs), len(ids)),
                     {"machinery": "POST /bulk schemas"}, no_input=True)
            return None
        body = "".join(json.dumps(r) + "\n" for r, _, _ in reqs).encode()
        det = {r["req_id"]: d for r, d, _ in reqs}
        byid = {r["req_id"]: r for r, _, _ in reqs}
        filler = set(r["req_id"] for r, _, fl in reqs if fl)
        how_to = "bin/gobl serve -p 8080 & curl -s -X POST --data-binary @%s http://127.0.0.1:8080/bulk"

        def keep_stream():
            os.makedirs(os.path.join(VERIF, "replays"), exist_ok=True)
            f = os.path.join(VERIF, "replays", "C14-bulk-stream-%d.jsonl" % c.seed)
            open(f, "wb").write(body)
            return f

        def crash_of(err):
            m = re.search(r"^(github\.com/invopop/gobl[^\s(]*(?:\([^)]*\))?[^\s(]*)\(", err, re.M)
            mm = re.search(r"^(panic: .*|fatal error: .*)$", err, re.M)
            return (mm.group(1) if mm else "no panic line")[:160], m.group(1) if m else "?"

        def judge_answers(outs_, how, want):
            answered = {}
            finals = 0
            for o in outs_:
                if o.get("is_final"):
                    finals += 1
                    continue
                answered[o.get("req_id")] = o
                c.count("bulk-" + how, 1, o.get("req_id"))
                e = o.get("error")
                rq = byid.get(o.get("req_id"), {})
                if e is None and "payload" not in o:
                    # (repaired in /repo fdd1053: a document left without members was written with a trailing comma by schema.Insert and
                    # the bulk reply then carried neither payload nor error; no exclusion is left)
                    if True:
                        c.report("POST /bulk (%s) answers request %s with neither a result nor an error" % (how, o.get("req_id")),
                                 {"command": how_to % "<file with this line>", "stdin": json.dumps(rq)[:20000]})
                if e is not None:
                    ok = isinstance(e, dict) and isinstance(e.get("code"), int) and (e.get("key") in DOCUMENTED if e.get("key") else bool(e.get("message")))
                    if not ok:
                        c.report("POST /bulk (%s) answers request %s with an error record without code and documented key / message: %s" %
                                 (how, o.get("req_id"), json.dumps(e)[:200]), {"command": how_to % "<file with this line>", "stdin": json.dumps(rq)[:20000]})
            missing = [i for i in want if i not in answered]
            if finals != 1 or missing:
                c.report("POST /bulk (%s) answers %d of %d requests of one stream, final records: %d; first unanswered: %s" %
                         (how, len(answered), len(want), finals, missing[:3]),
                         {"command": how_to % keep_stream(), "unanswered": missing[:20], "clause": "every operation returns a result or an error"})
            return answered

        # (a) all at once, to freshly started servers (what is lazily initialised is initialised under contention each time)
        conc = None
        for rnd in range(3):
            s2 = srv if rnd == 0 else BulkServer("c%d" % rnd)
            try:
                outs_, bad = (s2.bulk(body) if s2.up else (None, "did not come up"))
                if bad is None:
                    try:
                        alive = s2.call("GET", "/", None, 30)[0] == 200
                    except OSError:
                        alive = False
                    if not alive:
                        bad = "no longer answers after the stream"
                if bad is not None:
                    msg, fn = crash_of(s2.log_tail())
                    c.report("gobl serve %s while the %d requests of one POST /bulk stream are in flight: %s in %s" % (bad, len(reqs), msg, fn),
                             {"command": how_to % keep_stream(), "requests": len(reqs), "server_log_tail": s2.log_tail()[:3000],
                              "clause": "the operation returns a result or an error; it never panics, hangs or aborts the process"})
                    return body
            finally:
                if s2 is not srv:
                    s2.close()
            a = judge_answers(outs_, "concurrent", byid)
            conc = conc or a
        # (b) one at a time in one process
        s3 = BulkServer("q")
        seq_outs = []
        try:
            for r, _, _ in reqs:
                line = json.dumps(r).encode() + b"\n"
                outs_, bad = s3.bulk(line, 120) if s3.up else (None, "did not come up")
                if bad is not None:
                    msg, fn = crash_of(s3.log_tail())
                    c.report("gobl serve %s on request %s sent alone (after %d answered ones): %s in %s" % (bad, r["req_id"], len(seq_outs), msg, fn),
                             {"command": how_to % "<file with this line>", "stdin": line.decode()[:20000], "server_log_tail": s3.log_tail()[:3000]})
                    return body
                seq_outs += [o for o in outs_ if not o.get("is_final")]
        finally:
            s3.close()
        seq = judge_answers(seq_outs + [{"is_final": True}], "sequential", byid)
        ndiff = 0
        for i, o in sorted(conc.items()):
            if i not in seq or not det.get(i):
                continue
            a, b = bulk_observe(o, byid[i]["action"]), bulk_observe(seq[i], byid[i]["action"])
            if a != b:
                ndiff += 1
                if ndiff <= 3:
                    c.report("POST /bulk answers request %s differently when other requests are in flight: %s, alone: %s" % (i, a, b),
                             {"command": how_to % keep_stream(), "request": json.dumps(byid[i])[:3000], "concurrent": a, "sequential": b,
                              "clause": "result of a request inside one process equals the one it gets alone"})
        c.cov["bulk_concurrency"] = {"requests_per_stream": len(reqs), "concurrent_streams": 3, "sequential_streams": 1, "stream_bytes": len(body),
                                     "compared_with_sequential": sum(1 for i in conc if det.get(i) and i in seq), "differences": ndiff,
                                     "empty_answers_reported_defect": sum(1 for o in conc.values() if bulk_observe(o) == ("empty",))}
        return body
    finally:
        srv.close()


def run(c):
    quick = c.tier == "quick"
    if not std_builds(c, cli=True):
        return
    proved = c.prove()
    ok, out = build_oracle()
    if not ok:
        c.report("extraction/oracle build failed: " + out[-800:], {"machinery": "oracle"}, no_input=True)
        return
    # rich synthetic documents: every member of every registered type populated (reflection over the Go types of the
    # repository under test), the invoice and order also under every addon; their mutations are sampled by C14_RICH_STRIDE
    rich = os.path.join(WORK, "c14rich")
    rc, out, err = harness("c14rich", rich)
    GOENV["C14_EXTRA_DIR"] = rich
    GOENV["C14_RICH_STRIDE"] = "80" if quick else "1"          # per-addon variants (the slice taken rotates with the seed)
    GOENV["C14_RICH_BASE_STRIDE"] = "16" if quick else "1"
    c.cov["rich_documents"] = {"files": (out or "").strip(), "mutation_stride_addon_variants": GOENV["C14_RICH_STRIDE"],
                               "mutation_stride_base": GOENV["C14_RICH_BASE_STRIDE"]}
    # model vs implementation on the cores that are callable from outside (header validation)
    tie_cores(c, quick)
    run_corpus(c)
    summary_combos(c, REPO)
    t1 = time.time()
    lookup_combos(c, REPO, quick)
    c.cov.setdefault("lookup_combos", {})["wall_s"] = round(time.time() - t1, 1)
    t1 = time.time()
    stream = bulk_concurrency(c, REPO, quick)
    c.cov.setdefault("bulk_concurrency", {})["wall_s"] = round(time.time() - t1, 1)
    serve_requests(c, REPO, stream)
    seed = c.seed
    nrandom = 6000 if quick else 2000000
    t0 = time.time()
    if quick:
        # two disjoint seeded halves of the mutation list: the second half runs only if the first one took
        # less than 40 s (an idle 16-core machine does each half in ~20 s), so that the quick tier stays
        # within its budget on a loaded machine; the corpus above always exercises every recorded site
        off = seed & 1
        recs, tots, aborts = run_shards(REPO, 2, off, seed, nrandom, 600)
        passes = [tots]
        fraction = "1/2 (seeded half %d; first half took %.0f s)" % (off, time.time() - t0)
        if time.time() - t0 < 40:
            r2, t2, a2 = run_shards(REPO, 2, 1 - off, seed, 0, 600)
            recs, aborts = recs + r2, aborts + a2
            passes.append(t2)
            fraction = "all"
    else:
        recs, tots, aborts = run_shards(REPO, 1, 0, seed, nrandom, 14000)
        passes = [tots]
        fraction = "all"
    sweep_s = round(time.time() - t0, 1)
    tots = [t for ps in passes for t in ps]
    processed = sum(t["processed"] for t in tots)
    stages = {}
    kinds = {}
    for t in tots:
        for st, m in t["stages"].items():
            for k, v in m.items():
                stages.setdefault(st, {}).setdefault(k, 0)
                stages[st][k] += v
        for k, v in t["kinds"].items():
            kinds[k] = kinds.get(k, 0) + v
    total_enum = max([t["enumerated"] for t in tots] or [0])
    if len(tots) != NSHARDS * len(passes):
        c.report("only %d of %d sweep workers completed" % (len(tots), NSHARDS * len(passes)), {"machinery": "c14work"}, no_input=True)
    c.cov["sweep"] = {"inputs": processed, "mutations_enumerated": total_enum, "random_inputs": nrandom, "per_stage": stages,
                      "per_kind": kinds, "wall_s": sweep_s, "fraction_of_mutations_run": fraction, "workers": NSHARDS, "ulimit_v_kb": VLIMIT_KB}
    parsed = stages.get("calculate", {})
    nontrivial = sum(parsed.values())
    c.count("mutation-sweep", processed)
    for i in range(nontrivial):
        c._distinct.add(("sweep", i))
    c.cov["streams"]["mutation-sweep"]["nontrivial"] = nontrivial
    c.cov["rule"] = ("inputs = every single-member mutation (delete, null, retype to number/string/array/object, duplicate "
                     "array element, [null], empty/huge numbers and strings, unknown currency/country/regime/addon codes, "
                     "empty/null signatures, nil head links/stamps, deep nesting) of every example output document AND of rich synthetic documents (every member of every registered type populated by reflection; invoice and order also under every addon; their mutations sampled 1 in C14_RICH_STRIDE in the quick tier, all in the thorough tier), the same mutations applied to the header carried INSIDE a real signature (forged-* kinds: payload signed by the harness key, envelope header rich in stamps/links/tags/meta; verified with, without and with explicit keys), plus "
                     "seeded random bytes/JSON/YAML/corruptions; each is a distinct (document, member, mutation) triple by "
                     "construction; non-trivial = inputs that parse and reach calculation (the others exercise the parser only); "
                     "lookup-combos = distinct (document, regime state, currency state, add-on state); bulk-concurrent / bulk-sequential = "
                     "distinct requests (action, document, type spelling) answered inside one server process")
    judge_records(c, recs, "sweep")
    if aborts:
        inputs, _ = fetch_inputs(REPO, seed, nrandom, [a["n"] for a in aborts if a["n"] > 0])
        for a in aborts:
            inp = inputs.get(a["n"], {})
            c.report("worker process aborted (rc %s) while processing input %s: %s member %s mutation %s; stderr: %s" %
                     (a["rc"], a["n"], inp.get("doc"), inp.get("path"), inp.get("kind"), a["stderr"][-300:]),
                     dict(replay_obj(dict(inp, stage="abort", func="", msg=a["stderr"][-300:]))))
    cli_sample(c, REPO, seed, nrandom, total_enum + nrandom, quick)
    for r in recs[:3]:
        c.sample({k: r.get(k) for k in ("doc", "path", "kind", "stage", "func")})
    if not proved:
        pr = c.proof
        c.report("proof obligations of Props/C14.v no longer check: " + (pr.get("make_log") or pr.get("log", ""))[-600:],
                 {"theorem": "rocq/Props/C14.v", "failed_files": pr.get("failed_files"), "forbidden": pr.get("forbidden")},
                 no_input=True)


# ----------------------------------------------------------------------------------------------
# correspondence of the header-validation core (callable from outside the module)
# ----------------------------------------------------------------------------------------------

def tie_cores(c, quick):
    rng = c.rng
    lines = []
    n = 3000 if quick else 60000
    for _ in range(n):
        signed = rng.randint(0, 1)
        def lst(maxn, gen):
            return [gen() if rng.random() < 0.75 else [] for _ in range(rng.choice([0, 0, 1, 1, 2, 3, 4][:maxn + 3]))]
        stamps = lst(4, lambda: [rng.randint(0, 3), rng.randint(0, 2)])
        links = lst(4, lambda: [rng.randint(0, 3), rng.randint(0, 1), rng.randint(0, 2)])
        lines.append("c14 header %d %d %d %s %s" % (signed, rng.randint(0, 1) if rng.random() < 0.1 else 1,
                                                   rng.randint(0, 1) if rng.random() < 0.1 else 1, w(stamps), w(links)))
    go = run_go(lines, shards=1)
    mo = run_oracle(lines, shards=1)
    # the implementation must behave like the shipped model on every case, or like the repaired
    # model on every case (after the nil guards of fixes/C14-3 are applied)
    bad = {"shipped": None, "repaired": None}
    npanic = 0
    for l, g, m in zip(lines, go, mo):
        vs = parse_wire(g)
        cls = "x70616e6963" if is_err(vs, "panic") else g
        npanic += cls == "x70616e6963"
        ms = m.split()
        c.count("header-core", 1, l)
        if len(ms) != 2:
            c.report("oracle answer malformed: %r" % m, {"machinery": l}, no_input=True)
            return
        if cls != ms[0] and bad["shipped"] is None:
            bad["shipped"] = (l, g, ms[0])
        if cls != ms[1] and bad["repaired"] is None:
            bad["repaired"] = (l, g, ms[1])
    which = "shipped" if bad["shipped"] is None else ("repaired" if bad["repaired"] is None else None)
    c.cov["header_core"] = {"cases": len(lines), "implementation_panics": npanic, "agrees_with_model": which or "neither"}
    if which is None:
        l, g, m = bad["shipped"]
        l2, g2, m2 = bad["repaired"]
        c.report("header validation core agrees with neither model: on `%s` implementation `%s` shipped model `%s`; on `%s` "
                 "implementation `%s` repaired model `%s`" % (l, g[:80], m, l2, g2[:80], m2),
                 {"case": l, "implementation": g, "model_shipped": m, "case2": l2, "implementation2": g2, "model_repaired": m2,
                  "rerun": "echo '%s' | bin/vharness ; echo '%s' | bin/oracle" % (l, l)})


def replay(path):
    build_harness()
    rc, out, err = harness("c14files", path)
    print(out)
    return 0
