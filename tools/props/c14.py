"""C14 - no input crashes the library; failures are structured errors.

Proof part: rocq/Props/C14.v (nil/bounds-aware cores: each refuted for the code as shipped, proved
for the repaired core).  Tie/search part (a SEARCH, not a proof): structure-aware mutation sweep
of every example document through parse -> calculate -> validate -> digest -> sign -> verify ->
correct -> replicate in 16 worker processes (recover, per-input watchdog, ulimit -v); a panic, hang
or abort is directly the failing input; every returned error must be a *gobl.Error carrying a
documented key that serialises.  Sites recorded in findings/C14.json are matched narrowly by
(stage, top /repo frame function, mutation kind, member class)."""
import glob
import shutil
import json
import re
import subprocess
import tempfile
import threading
from vlib import *

LEVEL = "proof"
TRUSTED = ["partial: panic-freedom is PROVED only for the modelled cores (removePreviousScenarioNotes, "
           "calculateLineItemPrice, header validation, wrapError); for the rest of the library the mutation sweep is a "
           "search, not a proof",
           "hangs and memory exhaustion are runtime behaviour no Gallina model exhibits: watchdog + ulimit -v only",
           "sweep harness harness/c14.go (mutation enumeration, recover, top /repo frame extraction)"]
DOCUMENTED = {"no-document", "validation", "calculation", "marshal", "unmarshal", "signature", "digest", "internal",
              "unknown-schema"}
NSHARDS = 16
VLIMIT_KB = 4000000


def harness(*args, timeout=600, input=None):
    p = subprocess.run([os.path.join(BIN, "vharness")] + [str(a) for a in args], stdout=subprocess.PIPE,
                       stderr=subprocess.PIPE, text=True, timeout=timeout, env=GOENV, input=input)
    return p.returncode, p.stdout, p.stderr


def jlines(text):
    res = []
    for l in text.splitlines():
        l = l.strip()
        if l.startswith("{"):
            try:
                res.append(json.loads(l))
            except ValueError:
                pass
    return res


def gen_path(doc, path):
    if doc == "random":
        return ""
    return re.sub(r"/\d+(?=/|$)", "/N", path)


def match_finding(c, rec):
    """Finds the known finding whose narrow matcher covers this crash record, or None."""
    kind = rec.get("kind", "")
    rk = "random" if kind.startswith("random") else kind
    for f in c.findings:
        m = f.get("match")
        if not isinstance(m, dict):
            continue
        if m.get("result", "panic") != rec.get("type"):
            continue
        if m.get("func", "") != rec.get("func", ""):
            continue
        st = rec.get("stage", "")
        if st not in m.get("stages", []) and not (st in ("cli-build", "cli-validate") and rec.get("type") == "panic"):
            continue
        if rk not in m.get("kinds", []) and "*" not in m.get("kinds", []):
            continue
        if rk != "random" and m.get("path") and not re.search(m["path"], rec.get("path", "")):
            continue
        if m.get("msg") and m["msg"] not in rec.get("msg", ""):
            continue
        return f["id"]
    return None


def run_shards(repo, stride, offset, seed, nrandom, tlimit):
    """Runs the 16 workers; returns (records, totals, aborts). A worker that dies is restarted after
    the input it died on, which is returned in aborts with its data."""
    os.makedirs(WORK, exist_ok=True)
    results = [None] * NSHARDS

    def one(s):
        recs, tots, aborts = [], [], []
        skip = -1
        for attempt in range(6):
            cur = os.path.join(WORK, "c14.cur.%d.%d" % (os.getpid(), s))
            try:
                os.remove(cur)
            except OSError:
                pass
            cmd = "ulimit -v %d; exec %s c14work %s %d %d %d %d %d %d %s %d" % (
                VLIMIT_KB, os.path.join(BIN, "vharness"), repo, s, NSHARDS, stride, offset, seed, nrandom, cur, skip)
            try:
                p = subprocess.run(["bash", "-c", cmd], stdout=subprocess.PIPE, stderr=subprocess.PIPE, text=True,
                                   timeout=tlimit, env=GOENV)
                rc, out, err = p.returncode, p.stdout, p.stderr
            except subprocess.TimeoutExpired as e:
                rc, out, err = -9, (e.stdout or b"").decode() if isinstance(e.stdout, bytes) else (e.stdout or ""), "shard timeout"
            rs = jlines(out)
            recs += [r for r in rs if r.get("type") in ("panic", "baderr", "hang")]
            tots += [r for r in rs if r.get("type") == "totals"]
            if rc == 0:
                break
            # abort or hang: attribute to the input recorded in the cur file
            try:
                n = int(open(cur).read().strip() or "-1")
            except (OSError, ValueError):
                n = -1
            hang = [r for r in rs if r.get("type") == "hang"]
            if not hang:
                aborts.append({"n": n, "rc": rc, "stderr": err[-1500:], "shard": s})
            if n < 0:
                break
            skip = n
        try:
            os.remove(cur)
        except OSError:
            pass
        results[s] = (recs, tots, aborts)

    ths = [threading.Thread(target=one, args=(s,)) for s in range(NSHARDS)]
    [t.start() for t in ths]
    [t.join() for t in ths]
    recs, tots, aborts = [], [], []
    for r in results:
        if r:
            recs += r[0]
            tots += r[1]
            aborts += r[2]
    return recs, tots, aborts


def fetch_inputs(repo, seed, nrandom, ns):
    rc, out, err = harness("c14get", repo, seed, nrandom, ",".join(str(n) for n in ns))
    return {r["n"]: r for r in jlines(out) if "n" in r}, next((r["total"] for r in jlines(out) if "total" in r), 0)


def replay_obj(rec):
    r = {k: rec.get(k) for k in ("doc", "path", "kind", "stage", "func", "msg", "key", "n") if rec.get(k) not in (None, "")}
    if rec.get("hex"):
        r["hex"] = rec["hex"]
    r["data"] = rec.get("data", "")
    r["rerun"] = "tools/check C14 --replay <this file>   (runs bin/vharness c14files on it)"
    return r


def cli_sample(c, repo, seed, nrandom, total, quick):
    """A sample of inputs through the CLI binary: the error record must be a JSON object with a code and,
    when a key is present, a documented key; a crash of the binary is a failing input."""
    k = 48 if quick else 400
    ns = sorted(set([c.rng.randint(1, max(total, 1)) for _ in range(k)] + [1, 2]))
    inputs, _ = fetch_inputs(repo, seed, nrandom, ns)
    gobl = os.path.join(BIN, "gobl")
    bad = 0
    for n, inp in sorted(inputs.items()):
        data = bytes.fromhex(inp["hex"]) if inp.get("hex") else inp["data"].encode()
        for cmd in ("build", "validate"):
            try:
                p = subprocess.run([gobl, cmd, "-"], input=data, stdout=subprocess.PIPE, stderr=subprocess.PIPE, timeout=60)
            except subprocess.TimeoutExpired:
                c.report("gobl %s does not terminate within 60 s on %s %s (%s)" % (cmd, inp["doc"], inp["path"], inp["kind"]),
                         dict(replay_obj(inp), stage="cli-" + cmd))
                continue
            c.count("cli-sample", 1, (n, cmd))
            err = p.stderr.decode("utf-8", "replace")
            err = "\n".join(l for l in err.splitlines() if not l.startswith("WARNING conda"))
            if p.returncode == 0:
                continue
            if p.returncode == 1:
                try:
                    obj = json.loads(err)
                    ok = isinstance(obj, dict) and isinstance(obj.get("code"), int) and \
                        (obj.get("key") in DOCUMENTED if "key" in obj else bool(obj.get("message")))
                except ValueError:
                    ok = False
                if not ok:
                    bad += 1
                    rec = dict(inp, type="baderr", stage="cli-" + cmd, func="", msg="CLI error record: " + err[:200])
                    c.report("gobl %s prints an error record that is not a JSON object with code and documented key/message: %s"
                             % (cmd, err[:200]), replay_obj(rec), finding_id=match_finding(c, rec))
                continue
            # crash of the process
            m = re.search(r"^(github\.com/invopop/gobl[^\s(]*(?:\([^)]*\))?[^\s(]*)\(", err, re.M)
            fn = m.group(1) if m else ""
            mm = re.search(r"^(panic: .*|fatal error: .*)$", err, re.M)
            rec = dict(inp, type="panic", stage="cli-" + cmd, func=fn, msg=(mm.group(1) if mm else err[:120])[:160])
            c.report("gobl %s crashes (exit %d) in %s on %s member %s mutation %s: %s" %
                     (cmd, p.returncode, fn, inp["doc"], inp["path"], inp["kind"], rec["msg"]),
                     replay_obj(rec), finding_id=match_finding(c, rec))
    # usage / file errors of the command line itself: the record must still be {code, key|message}
    for args in (["nosuchcommand"], ["build", "--nosuchflag"], ["validate", "/nonexistent/input.json"],
                 ["sign", "-k", "/nonexistent/key.jwk", "/nonexistent/input.json"]):
        p = subprocess.run([gobl] + args, stdin=subprocess.DEVNULL, stdout=subprocess.PIPE, stderr=subprocess.PIPE, timeout=60)
        err = "\n".join(l for l in p.stderr.decode("utf-8", "replace").splitlines() if not l.startswith("WARNING conda"))
        c.count("cli-usage", 1, tuple(args))
        try:
            obj = json.loads(err)
            ok = p.returncode == 1 and isinstance(obj, dict) and isinstance(obj.get("code"), int) and \
                (obj.get("key") in DOCUMENTED if "key" in obj else bool(obj.get("message")))
        except ValueError:
            ok = False
        if not ok:
            rec = {"type": "baderr", "stage": "cli-usage", "func": "", "kind": "usage", "doc": "", "path": " ".join(args),
                   "msg": "CLI error record: " + " ".join(err.split())[:160], "data": ""}
            c.report("`gobl %s` (exit %d) prints an error record without code and key/message: %s" %
                     (" ".join(args), p.returncode, " ".join(err.split())[:160]),
                     {"command": "bin/gobl " + " ".join(args), "stderr": err[:400]}, finding_id=match_finding(c, rec))
    # flag values of the command line: every way of giving --set / --set-string / --set-file / -d / -t / -T / -k an empty,
    # dotted, clashing or dangling value - a result, or an error record; never a crash
    src = os.path.join(repo, "examples", "es", "out", "invoice-es-es.json")
    if not os.path.exists(src):
        import glob as _g
        fs = sorted(_g.glob(os.path.join(repo, "examples", "*", "out", "*.json")))
        src = fs[0] if fs else src
    sets = ["=ES", "=", ".=x", "a.=x", "a..b=x", ".a=x", "doc.=x", "a=b=c", "a= ", " =x", "lines.5.i=2", "lines=x", "lines.x=1", "lines.0=1",
            "lines.-1.i=1", "supplier.name.x=1", "a.b.c.d.e.f=1", "$schema=x", "doc=null", "currency=", "a=" + "9" * 400, "totals=~"]
    flagsets = []
    for v in sets:
        for fl in ("--set", "--set-string"):
            flagsets.append(("build", [fl, v]))
        flagsets.append(("sign", ["--set", v]))
    for v in ("=x", "a=/nonexistent/file.yaml", "=/nonexistent", ".=/dev/null", "a=/dev/null", "lines=" + src):
        flagsets.append(("build", ["--set-file", v]))
    for cmd in ("build", "sign"):
        flagsets += [(cmd, ["-T", "/nonexistent/template.yaml"]), (cmd, ["-T", "/dev/null"]), (cmd, ["-t", ""]), (cmd, ["-t", "nosuch/type"]),
                     (cmd, ["-t", "bill/invoice", "--set", "type=credit-note"])]
    for d in ("", "{", "null", "[]", "7", '{"type":7}', '{"type":null}', '{"stamps":[null]}', '{"ext":{"":""}}', '{"issue_date":"x"}', '{"type":"credit-note","ext":null}'):
        flagsets.append(("correct", ["-d", d]))
    flagsets += [("correct", ["--credit", "--debit"]), ("sign", ["-k", ""]), ("sign", ["-k", "/dev/null"]), ("verify", ["-k", ""]), ("verify", ["-k", "/dev/null"]),
                 ("validate", ["-t", "x"]), ("replicate", ["-t", ""])]
    for cmd, fl in flagsets:
        args = [cmd] + fl + [src]
        try:
            p = subprocess.run([gobl] + args, stdin=subprocess.DEVNULL, stdout=subprocess.PIPE, stderr=subprocess.PIPE, timeout=60)
        except subprocess.TimeoutExpired:
            c.report("`gobl %s` does not finish within 60 s" % " ".join(args[:-1]), {"command": "bin/gobl " + " ".join(args)})
            continue
        err = "\n".join(l for l in p.stderr.decode("utf-8", "replace").splitlines() if not l.startswith("WARNING conda"))
        c.count("cli-flags", 1, tuple(args[:-1]))
        if p.returncode not in (0, 1) or "panic:" in err or "goroutine " in err:
            m = re.search(r"^(github\.com/invopop/gobl[^\s(]*)\(", err, re.M)
            mm = re.search(r"^(panic: .*|fatal error: .*)$", err, re.M)
            c.report("`gobl %s <example>` crashes (exit %d) in %s: %s" % (" ".join(args[:-1]), p.returncode, m.group(1) if m else "?", (mm.group(1) if mm else err[:120])[:160]),
                     {"command": "bin/gobl " + " ".join(args), "stderr": err[:1500], "clause": "the command line returns a result or an error record; it never panics"})
            continue
        if p.returncode == 1:
            try:
                obj = json.loads(err)
                ok = isinstance(obj, dict) and isinstance(obj.get("code"), int) and (obj.get("key") in DOCUMENTED if "key" in obj else bool(obj.get("message")))
            except ValueError:
                ok = False
            if not ok:
                c.report("`gobl %s <example>` (exit 1) prints an error record without code and key/message: %s" % (" ".join(args[:-1]), " ".join(err.split())[:160]),
                         {"command": "bin/gobl " + " ".join(args), "stderr": err[:400]})
    return bad


def serve_requests(c, repo):
    """`gobl serve`: every endpoint with missing / null / ill-typed bodies and payload members, and the bulk actions with the
    same; the server answers every request and is still alive afterwards (a panic in a handler that is not recovered, or
    in a bulk goroutine, takes the process down)."""
    import socket, http.client, base64 as _b64, tempfile
    gobl = os.path.join(BIN, "gobl")
    src = os.path.join(repo, "examples", "es", "out", "invoice-es-es.json")
    doc64 = _b64.b64encode(open(src, "rb").read()).decode() if os.path.exists(src) else "e30="
    tmpd = tempfile.mkdtemp(prefix="c14serve", dir=WORK)
    key = os.path.join(tmpd, "key.jwk")
    subprocess.run([gobl, "keygen", key], stdout=subprocess.PIPE, stderr=subprocess.PIPE, env=GOENV)
    s0 = socket.socket()
    s0.bind(("127.0.0.1", 0))
    port = s0.getsockname()[1]
    s0.close()
    args = [gobl, "serve", "-p", str(port)] + (["-k", key] if os.path.exists(key) else [])
    log_ = open(os.path.join(tmpd, "serve.log"), "w")
    proc = subprocess.Popen(args, stdout=log_, stderr=log_, env=GOENV)

    def call(method, path, body, ctype="application/json"):
        h = http.client.HTTPConnection("127.0.0.1", port, timeout=30)
        h.request(method, path, body=body, headers={"Content-Type": ctype} if body is not None else {})
        r = h.getresponse()
        data = r.read()
        h.close()
        return r.status, data

    try:
        up = False
        for _ in range(100):
            time.sleep(0.05)
            if proc.poll() is not None:
                break
            try:
                if call("GET", "/", None)[0] == 200:
                    up = True
                    break
            except OSError:
                pass
        if not up:
            c.report("gobl serve did not come up", {"machinery": "serve"}, no_input=True)
            return
        payloads = [None, {}, {"data": doc64}, {"data": None}, {"data": ""}, {"data": "e30="}, {"data": 7}, {"data": [doc64]}, {"data": doc64, "privatekey": None},
                    {"data": doc64, "privatekey": {}}, {"data": doc64, "publickey": None}, {"data": doc64, "publickey": {}}, {"data": doc64, "options": None},
                    {"data": doc64, "options": "e30="}, {"data": doc64, "options": "bnVsbA=="}, {"data": doc64, "template": "e30="}, {"data": doc64, "template": None},
                    {"data": doc64, "type": ""}, {"data": doc64, "envelop": "x"}, {"path": None}, {"path": ""}, {"path": "nosuch/schema"}, {"code": None}, {"code": ""},
                    {"code": "ZZ"}, "x", 7, [], True]
        sent = []
        # single-request endpoints
        for ep in ("/build", "/verify", "/key", "/", "/nosuch"):
            for meth in ("POST", "GET"):
                for pl in payloads[:20] + ["{", "", "null"]:
                    body = pl if isinstance(pl, str) and pl in ("{", "", "null") else json.dumps(pl)
                    sent.append((meth, ep, body))
        # bulk: one stream per action so that a dying goroutine is attributed
        for act in ("build", "validate", "sign", "verify", "correct", "replicate", "schema", "regime", "keygen", "ping", "sleep", "nosuch", ""):
            lines = []
            for i, pl in enumerate(payloads):
                r = {"action": act, "req_id": "%s-%d" % (act, i)}
                if pl is not None:
                    r["payload"] = pl
                lines.append(json.dumps(r))
            sent.append(("POST", "/bulk", "\n".join(lines) + "\n"))
        for meth, ep, body in sent:
            c.count("serve-requests", 1, (meth, ep, body[:200]))
            try:
                st, data = call(meth, ep, body.encode())
            except OSError as e:
                alive = proc.poll() is None
                tail = open(os.path.join(tmpd, "serve.log")).read()[-3000:]
                m = re.search(r"^(github\.com/invopop/gobl[^\s(]*)\(", tail, re.M)
                mm = re.search(r"^(panic: .*|fatal error: .*)$", tail, re.M)
                c.report("gobl serve %s on %s %s (%r): %s in %s" % ("stops answering" if alive else "dies", meth, ep, e, mm.group(1) if mm else "no panic line",
                                                                     m.group(1) if m else "?"),
                         {"request": {"method": meth, "path": ep, "body": body[:4000]}, "server_log_tail": tail,
                          "clause": "the operation returns a result or an error; it never panics, hangs or aborts the process"})
                return
            if ep == "/bulk" and st == 200:
                outs_ = [json.loads(l) for l in data.decode("utf-8", "replace").splitlines() if l.strip().startswith("{")]
                want = body.count("\n")
                if not any(o.get("is_final") for o in outs_) or len([o for o in outs_ if not o.get("is_final")]) != want:
                    c.report("gobl serve /bulk answers %d of %d requests (final marker: %s)" % (len([o for o in outs_ if not o.get("is_final")]), want,
                                                                                               any(o.get("is_final") for o in outs_)),
                             {"request": {"method": meth, "path": ep, "body": body[:4000]}, "response": data.decode("utf-8", "replace")[:3000]})
        if proc.poll() is not None:
            c.report("gobl serve exited (%s) after the request sweep" % proc.returncode, {"server_log_tail": open(os.path.join(tmpd, "serve.log")).read()[-3000:]})
    finally:
        try:
            proc.kill()
        except OSError:
            pass
        log_.close()
        import shutil
        shutil.rmtree(tmpd, ignore_errors=True)


def judge_records(c, recs, where):
    seen = {}
    for r in recs:
        if r["type"] == "hang":
            c.report("%s: input does not finish within %s ms: %s member %s mutation %s" %
                     (where, r.get("limit_ms"), r["doc"], r["path"], r["kind"]), replay_obj(r))
            continue
        fid = match_finding(c, r)
        key = (r["type"], r["stage"], r["func"], r["kind"], gen_path(r["doc"], r["path"]), r.get("key", ""))
        if fid is None and key in seen and not r.get("data"):
            continue
        seen[key] = True
        if r["type"] == "panic":
            what = "%s: panic in %s at stage %s on %s member %s mutation %s: %s" % (
                where, r["func"] or "?", r["stage"], r["doc"], r["path"], r["kind"], r.get("msg", ""))
        else:
            what = "%s: stage %s returns an error that is not a structured *gobl.Error (%s) on %s member %s mutation %s" % (
                where, r["stage"], r.get("msg", ""), r["doc"], r["path"], r["kind"])
        c.report(what, replay_obj(r), finding_id=fid)


def run_corpus(c):
    files = sorted(glob.glob(os.path.join(VERIF, "corpus", "C14", "*.json")))
    if not files:
        return
    rc, out, err = harness("c14files", *files, timeout=600)
    if rc != 0:
        c.report("corpus run failed: " + err[-400:], {"machinery": "c14files"}, no_input=True)
        return
    for res in jlines(out):
        src = json.load(open(res["file"]))
        c.count("corpus", 1, res["file"])
        recs = []
        for o in res["outs"]:
            if o["result"] in ("panic", "baderr"):
                recs.append({"type": o["result"], "stage": o["stage"], "func": o.get("func", ""), "msg": o.get("msg", ""),
                             "key": o.get("key", ""), "doc": src.get("doc", ""), "path": src.get("path", ""),
                             "kind": src.get("kind", ""), "data": src.get("data", ""), "hex": src.get("hex", "")})
        judge_records(c, recs, "corpus " + os.path.basename(res["file"]))


def summary_combos(c, repo):
    """Payments whose lines carry hand-supplied tax summaries, and invoices whose preceding references do:
    every ordered pair (and some triples) of rate groups that differ in ONE respect (surcharge present or not,
    percentage, extension, country, exempt), inside one category or in two - what tax.Total.Merge /
    Total.Calculate see when the rows of different documents meet.  Whole pipeline, no panic allowed."""
    try:
        base = json.load(open(os.path.join(repo, "examples", "es", "out", "payment-with-tax.json")))
        inv = json.load(open(os.path.join(repo, "examples", "es", "out", "invoice-es-es.json")))
    except Exception as e:
        c.report("summary combos: example documents missing: %s" % e, {"machinery": "examples/es/out"}, no_input=True)
        return
    def rate(pct="21.0%", sur=None, ext=None, country=None, key=None, base_="100.00"):
        r = {"base": base_}
        if key:
            r["key"] = key
        if country:
            r["country"] = country
        if ext:
            r["ext"] = ext
        if pct:
            r["percent"] = pct
            r["amount"] = "21.00"
        if sur:
            r["surcharge"] = {"percent": sur, "amount": "5.20"}
        return r
    rates = [rate(), rate(sur="5.2%"), rate(sur="1.4%"), rate(pct="10.0%"), rate(pct="10.0%", sur="1.4%"), rate(pct=None, key="exempt"),
             rate(pct=None, key="exempt", ext={"es-tbai-exemption": "E1"}), rate(ext={"es-tbai-product": "services"}), rate(country="PT"),
             rate(country="PT", sur="5.2%"), rate(key="standard"), rate(key="standard", sur="5.2%"),
             rate(pct=None, key="exempt", sur="5.2%"), rate(pct=None, key="exempt", sur="1.4%"), rate(pct=None, sur="5.2%")]
    def summary(rs, cat="VAT", retained=False):
        ct = {"code": cat, "rates": rs, "amount": "21.00"}
        if retained:
            ct["retained"] = True
        if any("surcharge" in r for r in rs):
            ct["surcharge"] = "5.20"
        return {"categories": [ct], "sum": "21.00"}
    sums = [summary([r]) for r in rates] + [summary([rates[0], rates[1]]), summary([rates[1], rates[0]]), summary([rates[0]], "IRPF", True),
                                             summary([rates[1]], "IRPF", True), {"categories": [], "sum": "0.00"}, {"sum": "0.00"}]
    seqs = [(a, b) for a in range(len(sums)) for b in range(len(sums))]
    rng = c.rng
    seqs += [tuple(rng.randrange(len(sums)) for _ in range(3)) for _ in range(120)]
    tmpd = os.path.join(WORK, "c14combos")
    shutil.rmtree(tmpd, ignore_errors=True)
    os.makedirs(tmpd)
    files = []
    for n, seq in enumerate(seqs):
        for how in ("payment", "preceding"):
            if how == "payment":
                env = json.loads(json.dumps(base))
                line0 = env["doc"]["lines"][0]
                env["doc"]["lines"] = []
                for i, k in enumerate(seq):
                    ln = json.loads(json.dumps(line0))
                    ln["i"] = i + 1
                    ln["document"]["tax"] = sums[k]
                    env["doc"]["lines"].append(ln)
                env["doc"].pop("tax", None)
            else:
                env = json.loads(json.dumps(inv))
                env["doc"]["preceding"] = [{"type": "standard", "series": "S", "code": "%d" % (i + 1), "issue_date": "2021-01-01", "tax": sums[k]}
                                           for i, k in enumerate(seq)]
            f = os.path.join(tmpd, "%s-%04d.json" % (how, n))
            json.dump({"doc": "summary-combos", "kind": how, "path": "/".join(map(str, seq)), "data": json.dumps(env)}, open(f, "w"))
            files.append(f)
    for i in range(0, len(files), 400):
        rc, out, err = harness("c14files", *files[i:i + 400], timeout=900)
        if rc != 0:
            c.report("summary combos: run failed: " + err[-400:], {"machinery": "c14files"}, no_input=True)
            return
        for res in jlines(out):
            src = json.load(open(res["file"]))
            c.count("summary-combos", 1, (src["kind"], src["path"]))
            recs = []
            for o in res["outs"]:
                if o["result"] in ("panic", "baderr"):
                    recs.append({"type": o["result"], "stage": o["stage"], "func": o.get("func", ""), "msg": o.get("msg", ""),
                                 "key": o.get("key", ""), "doc": "summary-combos " + src["kind"], "path": src["path"],
                                 "kind": src["kind"], "data": src["data"], "hex": ""})
            judge_records(c, recs, "summary combos (%s, summaries %s)" % (src["kind"], src["path"]))
    shutil.rmtree(tmpd, ignore_errors=True)


def run(c):
    quick = c.tier == "quick"
    if not std_builds(c, cli=True):
        return
    proved = c.prove()
    ok, out = build_oracle()
    if not ok:
        c.report("extraction/oracle build failed: " + out[-800:], {"machinery": "oracle"}, no_input=True)
        return
    # rich synthetic documents: every member of every registered type populated (reflection over the Go types of the
    # repository under test), the invoice and order also under every addon; their mutations are sampled by C14_RICH_STRIDE
    rich = os.path.join(WORK, "c14rich")
    rc, out, err = harness("c14rich", rich)
    GOENV["C14_EXTRA_DIR"] = rich
    GOENV["C14_RICH_STRIDE"] = "80" if quick else "1"          # per-addon variants (the slice taken rotates with the seed)
    GOENV["C14_RICH_BASE_STRIDE"] = "16" if quick else "1"
    c.cov["rich_documents"] = {"files": (out or "").strip(), "mutation_stride_addon_variants": GOENV["C14_RICH_STRIDE"],
                               "mutation_stride_base": GOENV["C14_RICH_BASE_STRIDE"]}
    # model vs implementation on the cores that are callable from outside (header validation)
    tie_cores(c, quick)
    run_corpus(c)
    summary_combos(c, REPO)
    serve_requests(c, REPO)
    seed = c.seed
    nrandom = 6000 if quick else 2000000
    t0 = time.time()
    if quick:
        # two disjoint seeded halves of the mutation list: the second half runs only if the first one took
        # less than 40 s (an idle 16-core machine does each half in ~20 s), so that the quick tier stays
        # within its budget on a loaded machine; the corpus above always exercises every recorded site
        off = seed & 1
        recs, tots, aborts = run_shards(REPO, 2, off, seed, nrandom, 600)
        passes = [tots]
        fraction = "1/2 (seeded half %d; first half took %.0f s)" % (off, time.time() - t0)
        if time.time() - t0 < 40:
            r2, t2, a2 = run_shards(REPO, 2, 1 - off, seed, 0, 600)
            recs, aborts = recs + r2, aborts + a2
            passes.append(t2)
            fraction = "all"
    else:
        recs, tots, aborts = run_shards(REPO, 1, 0, seed, nrandom, 14000)
        passes = [tots]
        fraction = "all"
    sweep_s = round(time.time() - t0, 1)
    tots = [t for ps in passes for t in ps]
    processed = sum(t["processed"] for t in tots)
    stages = {}
    kinds = {}
    for t in tots:
        for st, m in t["stages"].items():
            for k, v in m.items():
                stages.setdefault(st, {}).setdefault(k, 0)
                stages[st][k] += v
        for k, v in t["kinds"].items():
            kinds[k] = kinds.get(k, 0) + v
    total_enum = max([t["enumerated"] for t in tots] or [0])
    if len(tots) != NSHARDS * len(passes):
        c.report("only %d of %d sweep workers completed" % (len(tots), NSHARDS * len(passes)), {"machinery": "c14work"}, no_input=True)
    c.cov["sweep"] = {"inputs": processed, "mutations_enumerated": total_enum, "random_inputs": nrandom, "per_stage": stages,
                      "per_kind": kinds, "wall_s": sweep_s, "fraction_of_mutations_run": fraction, "workers": NSHARDS, "ulimit_v_kb": VLIMIT_KB}
    parsed = stages.get("calculate", {})
    nontrivial = sum(parsed.values())
    c.count("mutation-sweep", processed)
    for i in range(nontrivial):
        c._distinct.add(("sweep", i))
    c.cov["streams"]["mutation-sweep"]["nontrivial"] = nontrivial
    c.cov["rule"] = ("inputs = every single-member mutation (delete, null, retype to number/string/array/object, duplicate "
                     "array element, [null], empty/huge numbers and strings, unknown currency/country/regime/addon codes, "
                     "empty/null signatures, nil head links/stamps, deep nesting) of every example output document AND of rich synthetic documents (every member of every registered type populated by reflection; invoice and order also under every addon; their mutations sampled 1 in C14_RICH_STRIDE in the quick tier, all in the thorough tier), the same mutations applied to the header carried INSIDE a real signature (forged-* kinds: payload signed by the harness key, envelope header rich in stamps/links/tags/meta; verified with, without and with explicit keys), plus "
                     "seeded random bytes/JSON/YAML/corruptions; each is a distinct (document, member, mutation) triple by "
                     "construction; non-trivial = inputs that parse and reach calculation (the others exercise the parser only)")
    judge_records(c, recs, "sweep")
    if aborts:
        inputs, _ = fetch_inputs(REPO, seed, nrandom, [a["n"] for a in aborts if a["n"] > 0])
        for a in aborts:
            inp = inputs.get(a["n"], {})
            c.report("worker process aborted (rc %s) while processing input %s: %s member %s mutation %s; stderr: %s" %
                     (a["rc"], a["n"], inp.get("doc"), inp.get("path"), inp.get("kind"), a["stderr"][-300:]),
                     dict(replay_obj(dict(inp, stage="abort", func="", msg=a["stderr"][-300:]))))
    cli_sample(c, REPO, seed, nrandom, total_enum + nrandom, quick)
    for r in recs[:3]:
        c.sample({k: r.get(k) for k in ("doc", "path", "kind", "stage", "func")})
    if not proved:
        pr = c.proof
        c.report("proof obligations of Props/C14.v no longer check: " + (pr.get("make_log") or pr.get("log", ""))[-600:],
                 {"theorem": "rocq/Props/C14.v", "failed_files": pr.get("failed_files"), "forbidden": pr.get("forbidden")},
                 no_input=True)


# ----------------------------------------------------------------------------------------------
# correspondence of the header-validation core (callable from outside the module)
# ----------------------------------------------------------------------------------------------

def tie_cores(c, quick):
    rng = c.rng
    lines = []
    n = 3000 if quick else 60000
    for _ in range(n):
        signed = rng.randint(0, 1)
        def lst(maxn, gen):
            return [gen() if rng.random() < 0.75 else [] for _ in range(rng.choice([0, 0, 1, 1, 2, 3, 4][:maxn + 3]))]
        stamps = lst(4, lambda: [rng.randint(0, 3), rng.randint(0, 2)])
        links = lst(4, lambda: [rng.randint(0, 3), rng.randint(0, 1), rng.randint(0, 2)])
        lines.append("c14 header %d %d %d %s %s" % (signed, rng.randint(0, 1) if rng.random() < 0.1 else 1,
                                                   rng.randint(0, 1) if rng.random() < 0.1 else 1, w(stamps), w(links)))
    go = run_go(lines, shards=1)
    mo = run_oracle(lines, shards=1)
    # the implementation must behave like the shipped model on every case, or like the repaired
    # model on every case (after the nil guards of fixes/C14-3 are applied)
    bad = {"shipped": None, "repaired": None}
    npanic = 0
    for l, g, m in zip(lines, go, mo):
        vs = parse_wire(g)
        cls = "x70616e6963" if is_err(vs, "panic") else g
        npanic += cls == "x70616e6963"
        ms = m.split()
        c.count("header-core", 1, l)
        if len(ms) != 2:
            c.report("oracle answer malformed: %r" % m, {"machinery": l}, no_input=True)
            return
        if cls != ms[0] and bad["shipped"] is None:
            bad["shipped"] = (l, g, ms[0])
        if cls != ms[1] and bad["repaired"] is None:
            bad["repaired"] = (l, g, ms[1])
    which = "shipped" if bad["shipped"] is None else ("repaired" if bad["repaired"] is None else None)
    c.cov["header_core"] = {"cases": len(lines), "implementation_panics": npanic, "agrees_with_model": which or "neither"}
    if which is None:
        l, g, m = bad["shipped"]
        l2, g2, m2 = bad["repaired"]
        c.report("header validation core agrees with neither model: on `%s` implementation `%s` shipped model `%s`; on `%s` "
                 "implementation `%s` repaired model `%s`" % (l, g[:80], m, l2, g2[:80], m2),
                 {"case": l, "implementation": g, "model_shipped": m, "case2": l2, "implementation2": g2, "model_repaired": m2,
                  "rerun": "echo '%s' | bin/vharness ; echo '%s' | bin/oracle" % (l, l)})


def replay(path):
    build_harness()
    rc, out, err = harness("c14files", path)
    print(out)
    return 0
