"""C04, extension-only inputs calculated repeatedly.

The other streams of C04 calculate every input once per process (three times for the process-independence sample) and
their documents carry an extension only together with the member it is normally derived from (a payment means `key`, a tax
`rate`, an invoice `type` ...).  What calculation does with a document in which ONLY the extension was given - the
reverse direction: work out the key from the code - was never exercised, and a derivation that walks a Go map shows only
when the very same input is calculated several times.

Stream `ext-only-repeat`: for every extension key that a regime, an add-on or a catalogue registers (vharness c04exts) and
every value it lists (keys with a pattern: one matching value), a bill/invoice, order, delivery and payment (the rich
synthetic documents of harness/c14rich.go made valid and cut down to one object per extension-carrying position and
shape) under the owner (add-on with its home regime; regime alone and with each of its add-ons; catalogue keys under
every add-on that has no extensions of its own) gets `ext: {key: value}` at EVERY position that has an `ext` member, in
two variants: beside the members the rich document has there, and with the members `key` / `type` / `rate` of those
objects (and the document's `type`) removed.  Each input is built (parse -> calculate -> serialise) six times in one
process from the same bytes - documents and digests must be byte-identical - and the result is fed back once (parse ->
serialise identity -> calculate -> byte comparison), `c04 rep` in harness/c04ext.go.  A failing input is cut down to a
single position before it is reported."""
import json
import re
import subprocess
import glob as _glob
from vlib import *
import richvalid

MARK = "__ext__"
KEEP = ("tax_id",)
KEYISH = ("key", "type", "rate")
DOCS = ("bill-invoice", "bill-order", "bill-delivery", "bill-payment")
REPEATS = 6


def _mark(x):
    if isinstance(x, dict):
        for v in x.values():
            _mark(v)
        if isinstance(x.get("ext"), dict):
            x[MARK] = True
    elif isinstance(x, list):
        for v in x:
            _mark(v)


def _has(x):
    if isinstance(x, dict):
        return MARK in x or any(_has(v) for v in x.values())
    if isinstance(x, list):
        return any(_has(v) for v in x)
    return False


def _shape(x):
    return tuple(sorted(x))


def _new_shapes(x, seen, top):
    if isinstance(x, dict):
        if MARK in x and (top, _shape(x)) not in seen:
            return True
        return any(_new_shapes(v, seen, top) for v in x.values())
    if isinstance(x, list):
        return any(_new_shapes(v, seen, top) for v in x)
    return False


def _prune(x, seen, top=None):
    """keeps scalars, and those objects / first list elements that lead to an extension-carrying object whose member set
    (its Go type, in effect) has not been kept yet under the same top-level member"""
    if isinstance(x, dict):
        out = {}
        if MARK in x:
            seen.add((top, _shape(x)))
        for k, v in x.items():
            t = top if top is not None else k
            if isinstance(v, (dict, list)):
                if k in KEEP or k == "ext":
                    out[k] = v
                elif _has(v) and _new_shapes(v, seen, t):
                    out[k] = _prune(v, seen, t)
            else:
                out[k] = v
        return out
    if isinstance(x, list):
        for v in x:
            if _has(v):
                return [_prune(v, seen, top)]
        return []
    return x


def _paths(x, p=()):
    if isinstance(x, dict):
        if MARK in x:
            yield p
        for k, v in x.items():
            yield from _paths(v, p + (k,))
    elif isinstance(x, list):
        for i, v in enumerate(x):
            yield from _paths(v, p + (i,))


def _strip(x):
    if isinstance(x, dict):
        return {k: _strip(v) for k, v in x.items() if k != MARK and k != "ext"}
    if isinstance(x, list):
        return [_strip(v) for v in x]
    return x


def bases(rich):
    """{doc type: (document without any ext, [paths of the objects that may carry one])}"""
    out = {}
    for n in DOCS:
        f = os.path.join(rich, "rich-%s.json" % n)
        try:
            d = json.load(open(f))
        except (OSError, ValueError):
            continue
        _mark(d)
        v = _prune(richvalid.make_valid(d), set())
        out[n] = (_strip(v), list(_paths(v)))
    return out


def build(base, paths, ext, cc, addons, bare, only=None, reg=None):
    # the regime's country, its own currency (no exchange rates needed) and a tax category it has, everywhere
    cur = ((reg or {}).get("currencies") or {}).get(cc) or "EUR"
    cats = ((reg or {}).get("categories") or {}).get(cc) or ["VAT"]
    d = json.loads(json.dumps(base).replace('"country": "ES"', '"country": "%s"' % cc).replace('"currency": "EUR"', '"currency": "%s"' % cur)
                   .replace('"cat": "VAT"', '"cat": "%s"' % ("VAT" if "VAT" in cats else cats[0])))
    d["$regime"] = cc
    if addons:
        d["$addons"] = list(addons)
    else:
        d.pop("$addons", None)
    for p in (paths if only is None else [only]):
        t = d
        for x in p:
            t = t[x]
        t["ext"] = dict(ext)
        if bare:
            for k in KEYISH:
                t.pop(k, None)
    if bare:
        d.pop("type", None)
    return d


def sample_for(pattern):
    for s in ("1234", "12345", "1234567", "12345678", "123", "12", "1", "A1", "ABC"):
        try:
            if re.fullmatch(pattern, s):
                return s
        except re.error:
            break
    return "1234"


def run_all(c, quick, rich):
    p = subprocess.run([os.path.join(BIN, "vharness"), "c04exts"], stdout=subprocess.PIPE, stderr=subprocess.PIPE, text=True, env=GOENV)
    try:
        reg = json.loads(p.stdout)          # {"defs": [...], "addons": [key...], "regimes": [country...]}
    except ValueError:
        reg = {"defs": [], "addons": [], "regimes": [], "currencies": {}, "categories": {}}
    defs = reg["defs"]
    bs = bases(rich)
    if len(defs) < 20 or len(bs) < 4 or len(reg["addons"]) < 5:
        c.report("extension definitions / rich bill documents / add-on list not found (%d definitions, %d documents, %d add-ons)" % (len(defs), len(bs), len(reg["addons"])),
                 {"machinery": "c04exts"}, no_input=True)
        return

    def native(a):
        cc = a.split("-", 1)[0].upper()
        cc = "EL" if cc == "GR" else cc
        return cc if cc in reg["regimes"] else None

    def home(a):
        return native(a) or "DE"
    own = set(e["owner"] for e in defs if e["kind"] == "addon")
    borrowers = [a for a in reg["addons"] if a not in own]      # add-ons that take all their extensions from the catalogues
    cap = {"addon": 10 ** 9, "regime": 24 if quick else 10 ** 9, "catalogue": 12 if quick else 10 ** 9}
    lines, names = [], []
    for e in defs:
        vals = list(e["values"]) or [sample_for(e.get("pattern") or "")]
        k = cap[e["kind"]]
        if len(vals) > k:
            r = (c.seed * 7) % len(vals)
            vals = (vals[r:] + vals[:r])[:k]
        if e["kind"] == "addon":
            ctxs = [(home(e["owner"]), [e["owner"]])]
        elif e["kind"] == "regime":
            ctxs = [(e["owner"], [])] + [(e["owner"], [a]) for a in reg["addons"] if native(a) == e["owner"]]
        else:
            ctxs = [(home(a), [a]) for a in borrowers]
        for v in vals:
            for cc, ads in ctxs:
                for n, (base, paths) in bs.items():
                    for bare in (False, True):
                        d = build(base, paths, {e["key"]: v}, cc, ads, bare, reg=reg)
                        lines.append("c04 rep " + w(json.dumps(d)) + " %d" % REPEATS)
                        names.append((e, v, cc, ads, n, bare))
    res = run_go(lines, shards=16, min_shard=200)
    shown = 0
    seen_fail = set()
    for (e, v, cc, ads, n, bare), line, r in zip(names, lines, res):
        pv = parse_wire(r)
        c.count("ext-only-repeat", 1, (e["key"], v, cc, tuple(ads), n, bare))
        if is_err(pv):
            c.count("ext-only-repeat-not-calculable", 1, (e["key"], v, cc, tuple(ads), n, bare))
            continue
        if not (pv and isinstance(pv[0], list) and pv[0] and pv[0][0] == b"diff"):
            continue
        rnd, where = int(pv[0][1]), pv[0][2].decode()
        fk = (e["key"], tuple(ads), n, bare, where.split(":")[1] if ":" in where else where)
        if fk in seen_fail or shown >= 4:
            continue
        seen_fail.add(fk)
        shown += 1
        # cut down: the first single position that alone still shows it
        base, paths = bs[n]
        doc, pos, r1 = build(base, paths, {e["key"]: v}, cc, ads, bare, reg=reg), None, r
        singles = [build(base, paths, {e["key"]: v}, cc, ads, bare, only=pth, reg=reg) for pth in paths]
        for pth, d1, rr in zip(paths, singles, run_go(["c04 rep " + w(json.dumps(d1)) + " %d" % (REPEATS * 2) for d1 in singles], shards=8, min_shard=8)):
            q = parse_wire(rr)
            if q and isinstance(q[0], list) and q[0] and q[0][0] == b"diff":
                doc, pos, r1 = d1, "/".join(map(str, pth)), rr
                rnd, where = int(q[0][1]), q[0][2].decode()
                break
        ctx = "%s under $regime %s%s" % (n.replace("-", "/", 1), cc, (" with $addons " + "+".join(ads)) if ads else "")
        how = "with" if not bare else "without"
        at = ("at %s" % (pos or "(document itself)")) if pos is not None else "at every extension position"
        if rnd == 0:
            what = ("calculating the SAME %s %d times in one process gives %s different documents / digests (first difference at %s): ext {%s: %s} %s, %s key/type/rate beside it "
                    "- the result depends on map iteration order" % (ctx, REPEATS, where.rsplit(":", 1)[-1], where.split(":")[1], e["key"], v, at, how))
            clause = "byte-identical JSON and therefore the same digest, regardless of process, repetition or map iteration order"
        else:
            what = ("%s with ext {%s: %s} %s, %s key/type/rate beside it: repeating serialise/parse/calculate changes the document at %s (round %d)"
                    % (ctx, e["key"], v, at, how, where, rnd))
            clause = "calculate -> serialise -> parse -> calculate yields byte-identical JSON"
        c.report(what, {"repeat_document": doc, "repeats": REPEATS * 2, "extension": {e["key"]: v}, "position": pos, "result": r1, "clause": clause})
    c.cov.setdefault("notes", {})["ext-only-repeat"] = (
        "%d extension keys (%d of add-ons, %d of regimes, %d of catalogues); per value 4 bill document types x 2 variants (members beside the extension kept / key,type,rate removed) "
        "x owner contexts; %d builds of each input in one process + one feed-back round; quick tier: at most %s values per regime key and %s per catalogue key, rotated by the seed"
        % (len(defs), sum(e["kind"] == "addon" for e in defs), sum(e["kind"] == "regime" for e in defs), sum(e["kind"] == "catalogue" for e in defs), REPEATS,
           cap["regime"], cap["catalogue"]))
