"""C17 - totals are symmetric under negation and independent of line order.
Relational harness: Go on d, Invert(d), Invert(Invert(d)), permutations of rows, RemoveIncludedTaxes(d);
correspondence with Calc/Symmetry.v; oracle P compares Go's own outputs pairwise."""
import copy
from fractions import Fraction
from vlib import *
import calcgen as cg
import c01

TRUSTED = c01.TRUSTED


def q(a):
    return None if a == [] else Fraction(a[0], 10 ** a[1])


def negv(x):
    """negate every amount in a projected result, leaving percentages and keys alone"""
    return x


def totals_q(t):
    """doc totals and tax groups as comparable values (tax groups as order-insensitive multisets)"""
    lines = [[q(l[1]), q(l[2]), [q(x) for x in l[3]], [q(x) for x in l[4]]] for l in t[0]]
    figs = [q(x) for x in t[1:11]]
    cats = {}
    for ct in t[15]:
        groups = sorted((((g[0], tuple(map(tuple, g[1])), q(g[2]), q(g[3])), q(g[4]), q(g[5]), q(g[6])) for g in ct[2]), key=repr)
        cats[ct[0]] = (ct[1], groups, q(ct[3]), q(ct[4]))
    return lines, figs, cats, q(t[16])


def neg_totals_q(x):
    lines, figs, cats, ts = x
    n = lambda v: None if v is None else -v
    return ([[n(a), n(b), [n(y) for y in c_], [n(y) for y in d]] for a, b, c_, d in lines], [n(v) for v in figs],
            {k: (r, sorted(((key, n(b), n(a), n(s)) for key, b, a, s in g), key=repr), n(a_), n(s_)) for k, (r, g, a_, s_) in cats.items()}, n(ts))


def has_feature(d, pred):
    for l in d["lines"]:
        for k in ("discounts", "charges"):
            for x in l.get(k, []):
                if pred(x):
                    return True
    for k in ("discounts", "charges"):
        for x in d.get(k, []):
            if pred(x):
                return True
    return False


def permute(rng, d):
    d2 = copy.deepcopy(d)
    perm = list(range(len(d2["lines"])))
    rng.shuffle(perm)
    d2["lines"] = [d2["lines"][i] for i in perm]
    for k in ("discounts", "charges"):
        if k in d2:
            rng.shuffle(d2[k])
    for l in d2["lines"]:
        for k in ("discounts", "charges"):
            if k in l:
                rng.shuffle(l[k])
    return d2, perm


_BASE = {"$schema": "https://gobl.org/draft-0/bill/invoice", "uuid": "3aea7b56-59d8-4beb-90bd-f8f280d852a0",
         "issue_date": "2022-02-01", "code": "S-1",
         "supplier": {"tax_id": {"country": "ES", "code": "B98602642"}, "name": "P"},
         "customer": {"tax_id": {"country": "ES", "code": "54387763P"}, "name": "C"}}
_PIT = {"prices_include": "VAT", "rounding": "precise"}
# RemoveIncludedTaxes corpus, first cases of every run (findings/C17.json):
#  1. C17-rit-not-a-fixpoint (fixed): the stripped document discount 0.38/1.21 was calculated as 0.3140 and presented as 0.31
#  2. the former witness of C17-rit-residue, which was of the same kind (charge 6105/1.24 = 4923.39 presented as 4923)
#  3. C17-rit-residue as it remains (known): the stripped total with tax is the tie 0.50, the original one is 0
#  4. its neighbour with original total 1: no discrepancy
RIT_CORPUS = [
    dict(_BASE, currency="EUR", tax=dict(_PIT),
         lines=[{"quantity": "3", "item": {"name": "A", "price": "1.00"}, "taxes": [{"cat": "VAT", "rate": "standard"}]},
                {"quantity": "7", "item": {"name": "B", "price": "1.37"}, "taxes": [{"cat": "VAT", "rate": "reduced"}]}],
         discounts=[{"reason": "d", "amount": "0.38", "taxes": [{"cat": "VAT", "rate": "standard"}]}]),
    dict(_BASE, currency="JPY", tax=dict(_PIT),
         lines=[{"quantity": "0.5", "item": {"name": "x", "price": "157878"}}],
         charges=[{"reason": "d", "taxes": [{"cat": "VAT", "percent": "6%"}], "percent": "12.5%", "base": "13592"},
                  {"reason": "d", "taxes": [{"cat": "VAT", "percent": "24%"}], "amount": "6105"}]),
    dict(_BASE, currency="JPY", tax=dict(_PIT),
         lines=[{"quantity": "1", "item": {"name": "A", "price": "3"}, "taxes": [{"cat": "VAT", "percent": "0%"}]}],
         discounts=[{"reason": "d", "amount": "3", "taxes": [{"cat": "VAT", "percent": "25%"}]}]),
    dict(_BASE, currency="JPY", tax=dict(_PIT),
         lines=[{"quantity": "1", "item": {"name": "A", "price": "4"}, "taxes": [{"cat": "VAT", "percent": "0%"}]}],
         discounts=[{"reason": "d", "amount": "3", "taxes": [{"cat": "VAT", "percent": "25%"}]}]),
]


def same_strict_sign_or_zero(t0, t1):
    """hypothesis of Props/C17.v remove_included_taxes_payable (Calc/RitProofs.v same_strict_sign_or_zero)"""
    return (t0 > 0 and t1 > 0) or (t0 < 0 and t1 < 0) or t1 == 0


def run(c):
    quick = c.tier == "quick"
    if not std_builds(c):
        return
    cg.reset_tables()
    proved = c.prove()
    ok, out = build_oracle()
    if not ok:
        c.report("extraction/oracle build failed: " + out[-800:], {"machinery": "oracle"}, no_input=True)
        return
    g = cg.Gen(c.rng)
    g.calc_only = True      # combos that calculate but would not validate (rate key under a country without regime)
    n = 2500 if quick else 100000
    docs = copy.deepcopy(RIT_CORPUS) + [g.doc() for _ in range(n)]
    # surcharge-heavy Spanish documents under the precise rule: different surcharged rates of one category on rows of
    # different precision (the category surcharge is an accumulation over the rates, its precision must not depend on which comes first)
    g.eqs_bias = 0.9
    g.price_decimals = [2, 2, 5, 6, 6]
    docs += [g.doc(force_rule=cg.PRECISE, regimes=("ES",), max_lines=3) for _ in range(300 if quick else 60000)]
    g.eqs_bias = 0
    g.price_decimals = None
    # ... and documents CONSTRUCTED to sit just under a rounding boundary of the category accumulation, in both row orders
    docs += cg.boundary_pair_docs(c.rng, 150 if quick else 5000)
    docs = [d for d in docs if cg.in_domain(d)[0]]
    base = cg.run3(docs)
    for r in base[:2]:
        c.sample({"document": r["doc"]}, limit=2)
    c01.judge(c, base, "calc", prop="C17")
    base_ok = [r for r in base if not is_err(r["go"]) and r["go"][0] == b"ok"]
    # ---- inversion ----
    for op_ in ("invert", "invert2"):
        res = cg.run3([r["doc"] for r in base_ok], prefix="c17", op_=op_)
        shown = 0
        for r0, r in zip(base_ok, res):
            d = r["doc"]
            c.count(op_, 1, json.dumps(d, sort_keys=True))
            if r["go"] != r["model"]:
                c.report("correspondence broken: %s in the model differs from the implementation" % op_,
                         {"correspondence": "corr:C17:" + op_, "document": d, "implementation": r["go_raw"], "model": r["model_raw"]}, no_input=True)
                break
            want = totals_q(r0["go"][1])
            if op_ == "invert":
                want = neg_totals_q(want)
            fid = None
            if cg.excess_fixed(d, r0["py"]):
                fid = "C17-excess-decimals-feed-back"
            if is_err(r["go"]):
                if shown < 3 or fid:
                    c.report("Invert refused a valid invoice", {"document": d, "operation": op_, "clause": "inverting an invoice succeeds"}, finding_id=fid)
                    shown += 0 if fid else 1
                continue
            got = totals_q(r["go"][1])
            # presented advance rows / dues are not part of the statement; compare lines, totals, tax groups
            if got[0] != want[0] or got[1] != want[1] or got[2] != want[2]:
                if shown < 3 or fid:
                    c.report("%s does not produce the %s figures" % (op_, "negated" if op_ == "invert" else "original"),
                             {"document": d, "operation": op_, "implementation": r["go_raw"], "original": r0["go_raw"],
                              "clause": "inverting produces exactly the negated line totals, tax amounts and document totals; twice restores them"}, finding_id=fid)
                    shown += 0 if fid else 1
    # ---- permutation of rows ----
    pdocs, perms, srcs = [], [], []
    for r in base_ok:
        for _ in range(2 if quick else 4):
            d2, perm = permute(c.rng, r["doc"])
            pdocs.append(d2)
            perms.append(perm)
            srcs.append(r)
    res = cg.run3(pdocs)
    c01.judge(c, res, "permuted-calc", prop="C17")
    shown = 0
    for r0, perm, r in zip(srcs, perms, res):
        c.count("permutation", 1, json.dumps(r["doc"], sort_keys=True))
        if is_err(r["go"]) or r["go"][0] != b"ok":
            c.report("a reordered document no longer calculates", {"document": r["doc"], "original": r0["doc"]})
            continue
        a, b = totals_q(r0["go"][1]), totals_q(r["go"][1])
        # line i of the permuted document is line perm[i] of the original; its discount/charge rows are shuffled too
        la = [[a[0][j][0], a[0][j][1], sorted(map(str, a[0][j][2])), sorted(map(str, a[0][j][3]))] for j in perm]
        lb = [[x[0], x[1], sorted(map(str, x[2])), sorted(map(str, x[3]))] for x in b[0]]
        if (la != lb or a[1] != b[1] or a[2] != b[2] or a[3] != b[3]) and shown < 3:
            shown += 1
            c.report("reordering rows changed a figure", {"document": r["doc"], "original": r0["doc"], "permutation": perm,
                                                         "implementation": r["go_raw"], "original_result": r0["go_raw"],
                                                         "clause": "reordering lines, discounts or charges changes no line figure, total or tax group amount"})
    # ---- removal of included taxes ----
    rdocs = [r for r in base_ok if (r["doc"].get("tax") or {}).get("prices_include")]
    res = cg.run3([r["doc"] for r in rdocs], prefix="c17", op_="rit")
    shown = 0
    corr_broken = False
    for r0, r in zip(rdocs, res):
        d = r["doc"]
        c.count("remove-included-taxes", 1, json.dumps(d, sort_keys=True))
        if r["go"] != r["model"] and not corr_broken:
            corr_broken = True      # reported once; the implementation's outputs are still judged below (oracle P)
            c.report("correspondence broken: RemoveIncludedTaxes in the model differs from the implementation",
                     {"correspondence": "corr:C17:rit", "document": d, "implementation": r["go_raw"], "model": r["model_raw"]}, no_input=True)
        if is_err(r["go"]):
            if shown < 3:
                shown += 1
                c.report("RemoveIncludedTaxes refused a valid invoice", {"document": d})
            continue
        twt0 = q(r0["go"][1][7])
        twt1 = q(r["go"][1][7])
        pay1 = q(r["go"][1][8])
        if twt0 != pay1:
            # the residue is a whole number of minor units; adding it pulls a tie of the stripped total across zero only
            # when the two totals with tax are not of the same strict sign (complement of the theorem's hypothesis)
            fid = None
            if abs(twt0 - pay1) <= Fraction(1, 10 ** cg.doc_meta(d)[2]) and not same_strict_sign_or_zero(twt0, twt1):
                fid = "C17-rit-residue"
            if shown < 3 or fid:
                shown += 0 if fid else 1
                c.report("after RemoveIncludedTaxes payable %s differs from the original total with tax %s" % (pay1, twt0),
                         {"document": d, "implementation": r["go_raw"], "original_result": r0["go_raw"],
                          "clause": "payable equals the original total with tax, residue recorded in rounding"}, finding_id=fid)
    # ---- ... and its result is a fixpoint: serialise, parse, calculate again changes no figure ----
    rit_ok = [(r0, r) for r0, r in zip(rdocs, res) if not is_err(r["go"])]
    res2 = cg.run3([r["doc"] for _, r in rit_ok], prefix="c17", op_="rit2")
    shown = 0
    for (r0, r1), r in zip(rit_ok, res2):
        d = r["doc"]
        c.count("remove-included-taxes-recalculated", 1, json.dumps(d, sort_keys=True))
        if r["go"] != r["model"] and not corr_broken:
            corr_broken = True
            c.report("correspondence broken: RemoveIncludedTaxes followed by a calculation in the model differs from the implementation",
                     {"correspondence": "corr:C17:rit2", "document": d, "implementation": r["go_raw"], "model": r["model_raw"]}, no_input=True)
        if r["go"] != r1["go"]:        # every projected figure, with its precision
            if shown < 3:
                shown += 1
                c.report("the document RemoveIncludedTaxes returns changes when it is calculated again",
                         {"document": d, "operation": "rit2", "implementation": r["go_raw"], "after_remove_included_taxes": r1["go_raw"],
                          "clause": "the result of RemoveIncludedTaxes is a fixpoint of calculation"})
    c.cov["rule"] = ("generated invoices (input variety of C01, both rules) inside the 2^52 domain; each is calculated, inverted once and twice, "
                     "reordered (lines, discounts, charges, line discount/charge rows) and, when prices include tax, stripped of included taxes and calculated once more; "
                     "distinct = distinct (operation, document); every case compares the implementation with the model and the implementation's outputs pairwise")
    if not proved:
        pr = c.proof
        c.report("proof obligations of Props/C17.v no longer check: " + (pr.get("make_log") or pr.get("log", ""))[-600:],
                 {"theorem": "rocq/Props/C17.v", "failed_files": pr.get("failed_files"), "forbidden": pr.get("forbidden")}, no_input=True)


def replay(path):
    r = json.load(open(path))["replay"]
    build_harness()
    d = r["document"]
    for op_ in ("calc", "invert", "rit", "rit2"):
        x = cg.run3([d], prefix="c01" if op_ == "calc" else "c17", op_=op_)[0]
        print(op_, "implementation:", x["go_raw"][:2000])
        print(op_, "model:         ", x["model_raw"][:2000])
    return 0
