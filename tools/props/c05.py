"""C05 - decimal amount arithmetic is exact with round-half-away-from-zero.
Tie: correspondence of num (Go) with Num/Amount.v (extracted) on the same cases; inside the
property's domain any difference is itself the failing input (P = "Go result = spec result").
Second tie: the implementation-faithful model Num/AmountImpl.v (int64 wrap + Flocq binary64,
`num impl_<op>`) on a sample of the same cases and on a boundary stream outside the domain
(2^52..2^63, MinInt64, zero divisors, exponents up to 70): wherever that model is Defined the Go
result must be the same; inside the domain the guards `num dom_<op>` of the exactness theorems
(Props/C05.v ..._impl_exact) must hold, so Go = spec = impl there."""
import itertools
import subprocess
from vlib import *

T52 = 2 ** 52
TRUSTED = ["modelled, not verified: AmountFromFloat64, Float64(), num/formatter.go"]
BIN2 = ["add", "sub", "mul", "div", "compare", "equals", "match_precision"]


def p10(e):
    return 10 ** e


def small(*zs):
    return all(abs(z) < T52 for z in zs)


def resc_ok(v, e, to):
    if to >= e:
        return small(v, v * p10(to - e))
    return small(v) and e - to <= 63   # intPow(10, d) wraps from d = 19 on (harmlessly) and is 0 from d = 64 on


def in_domain(op, a, b=None, n=None, n2=None):
    av, ae = a
    if op in ("add", "sub"):
        bv, be = b
        if not resc_ok(bv, be, ae):
            return False
        return small(av, av + bv * p10(max(ae - be, 0)), av - bv * p10(max(ae - be, 0)))
    if op in ("mul", "pct_of"):
        bv, be = b
        return small(av, bv, av * bv) and be <= 63
    if op == "div":
        bv, be = b
        return bv != 0 and small(av, bv, av * p10(be))
    if op in ("compare", "equals", "pct_compare", "pct_equals"):
        bv, be = b
        e = max(ae, be)
        return resc_ok(av, ae, e) and resc_ok(bv, be, e)
    if op == "match_precision":
        return resc_ok(av, ae, max(ae, b[1]))
    if op in ("rescale", "pct_rescale"):
        return resc_ok(av, ae, n)
    if op == "rescale_up":
        return resc_ok(av, ae, max(n, ae))
    if op == "rescale_down":
        return resc_ok(av, ae, min(n, ae))
    if op == "rescale_range":
        e1 = max(n, ae)
        return resc_ok(av, ae, e1) and resc_ok(av * p10(e1 - ae), e1, min(n2, e1))
    if op == "upscale":
        return resc_ok(av, ae, ae + n)
    if op == "downscale":
        return resc_ok(av, ae, max(ae - n, 0))
    if op == "split":
        return n >= 1 and small(av, n, av * max(n - 1, 1))
    if op in ("negate", "abs", "pct_negate"):
        return small(av)
    if op in ("remove", "pct_from"):
        pv, pe = b
        f = pv + p10(pe)
        return f != 0 and small(av, pv, f, av * p10(pe))
    if op == "factor":
        return small(av, av + p10(ae))
    if op == "pct_from_amount":
        return small(av * 10000)
    if op == "pct_amount":
        return small(av * 100)
    if op == "threshold":
        return True
    return False


IMPL_OPS = {"add", "sub", "mul", "div", "rescale", "rescale_up", "rescale_down", "rescale_range", "match_precision",
            "upscale", "downscale", "compare", "equals", "split", "negate", "abs", "remove", "pct_of", "pct_from",
            "factor", "pct_from_amount", "pct_amount"}
IMPL_ALIAS = {"pct_compare": "compare", "pct_equals": "equals", "pct_negate": "negate", "pct_rescale": "rescale"}
UNDEF = "( x657272 x756e646566696e6564 )"    # ( err undefined )
MIN64, MAX64 = -2 ** 63, 2 ** 63 - 1


def with_prefix(line, prefix):
    """`num <op> args` -> `num <prefix><op> args` for operations the implementation model has, else None."""
    t = line.split(" ", 2)
    op = IMPL_ALIAS.get(t[1], t[1])
    if op not in IMPL_OPS:
        return None
    return "num " + prefix + op + (" " + t[2] if len(t) > 2 else "")


def gen_boundary(c, quick):
    """Outside (and across) the magnitude domain: values 2^52..2^63, MinInt64/MaxInt64, zero divisors,
    exponents up to 70 (intPow wraps from 10^19 on and is 0 from 10^64 on)."""
    rng = c.rng
    out = []

    def emit(op, *args):
        out.append(("boundary", "num " + op + " " + " ".join(w(list(x)) if isinstance(x, tuple) else w(x) for x in args)))

    def bv():
        r = rng.random()
        if r < 0.12:
            return rng.choice([MIN64, MAX64, MIN64 + 1, 0, 0, 1, -1, T52, -T52, T52 - 1, 1 - T52, 2 ** 53, -2 ** 53, 2 ** 53 + 1, 2 ** 62, -2 ** 62])
        if r < 0.6:
            v = rng.getrandbits(rng.randint(52, 63))
        elif r < 0.8:
            v = rng.getrandbits(rng.choice([8, 16, 32, 48]))
        else:
            v = T52 + rng.randint(-4, 4)
        return rng.choice([1, -1]) * min(v, MAX64)

    def be():
        r = rng.random()
        if r < 0.6:
            return rng.randint(0, 9)
        if r < 0.85:
            return rng.randint(10, 20)
        return rng.randint(21, 70)
    ops2 = ["add", "sub", "mul", "div", "compare", "equals", "match_precision", "remove", "pct_of", "pct_from"]
    ops1n = ["rescale", "rescale_up", "rescale_down", "upscale", "downscale"]
    ops1 = ["negate", "abs", "factor", "pct_from_amount", "pct_amount"]
    N = 16000 if quick else 400000
    for _ in range(N):
        r = rng.random()
        a = (bv(), be())
        if r < 0.6:
            op = rng.choice(ops2)
            b = (bv() if rng.random() < 0.6 else rng.randint(-10 ** 4, 10 ** 4), be())
            if rng.random() < 0.06:
                b = (0, b[1])
            if op in ("remove", "pct_from") and rng.random() < 0.1:
                b = (-p10(b[1] % 19), b[1] % 19)      # factor 0: division by a zero amount
            emit(op, a, b)
        elif r < 0.8:
            emit(rng.choice(ops1n), a, be())
        elif r < 0.9:
            emit(rng.choice(ops1), a)
        else:
            emit("split", a, rng.choice([0, 1, 2, 3, 7, -1, -3, rng.randint(-10 ** 6, 10 ** 6), bv()]))
    # directed: the exponent boundary with in-domain magnitudes (10^18 fits, 10^19 wraps, 10^64 = 0 mod 2^64)
    for e in (17, 18, 19, 20, 23, 37, 44, 62, 63, 64, 65, 70):
        for v in (0, 1, -1, 5, 10 ** 15, T52 - 1, 1 - T52, 3 * 10 ** 15):
            emit("rescale", (v, e), 0)
            emit("mul", (v, 2), (1, e))
            emit("mul", (1, 2), (v, e))
            emit("div", (v, 2), (7, e))
            emit("add", (1, 0), (v, e))
            emit("compare", (v, 0), (1, e))
    return out


def gen(c, quick):
    rng = c.rng
    cases = []   # (stream, line)

    def emit(stream, op, *args):
        cases.append((stream, "num " + op + " " + " ".join(w(list(x)) if isinstance(x, tuple) else w(x) for x in args)))

    # exhaustive small grid
    R = 40 if quick else 150
    vals = list(range(-R, R + 1))
    for ea in range(4):
        for eb in range(4):
            for av in vals:
                for bv in vals:
                    if quick and (av * 7 + bv * 3 + ea + eb) % 3 and abs(av) > 12 and abs(bv) > 12:
                        continue
                    a, b = (av, ea), (bv, eb)
                    for op in ("add", "sub", "mul", "compare"):
                        emit("grid", op, a, b)
                    if bv != 0:
                        emit("grid", "div", a, b)
                        emit("grid", "remove", a, b) if bv + p10(eb) != 0 else None
                        emit("grid", "pct_from", a, b) if bv + p10(eb) != 0 else None
    for av in range(-1500, 1501):
        for ea in range(5):
            for to in range(7):
                emit("grid", "rescale", (av, ea), to)
            emit("grid", "rescale_range", (av, ea), 1, 3)
            emit("grid", "downscale", (av, ea), 2)
            emit("grid", "pct_from_amount", (av, ea))
            emit("grid", "pct_amount", (av, ea))
    for av in range(-300, 301):
        for x in range(1, 13):
            emit("grid", "split", (av, av % 4), x)
    # directed ties: products and quotients landing exactly on a half unit, both signs
    N = 30000 if quick else 600000
    for _ in range(N):
        e = rng.randint(1, 9)
        kind = rng.random()
        if kind < 0.35:     # mul tie: a*b = (2k+1) * 10^e / 2
            k = rng.randint(0, 10 ** rng.randint(1, 6))
            prod = (2 * k + 1) * p10(e) // 2
            # factor prod
            bv = rng.choice([1, 2, 4, 5, 8, 10, 20, 25, 50, 125, 5 ** rng.randint(1, e), 2 ** rng.randint(0, e - 1)])
            if prod % bv:
                bv = 5
            if prod % bv:
                continue
            av = prod // bv
            d = rng.choice([0, 0, 1, -1])
            a = (rng.choice([1, -1]) * (av + d), rng.randint(0, 9))
            b = (rng.choice([1, -1]) * bv, e)
            emit("tie", rng.choice(["mul", "pct_of"]), a, b)
        elif kind < 0.7:    # div tie: a*10^be / b = k + 1/2  -> b even, a*10^be = b*(2k+1)/2
            be = rng.randint(0, 6)
            bv = 2 * rng.randint(1, 10 ** rng.randint(1, 5))
            k = rng.randint(0, 10 ** rng.randint(0, 5))
            num_ = bv * (2 * k + 1) // 2
            if num_ % p10(be):
                num_ *= p10(be)
                bv *= p10(be)
            av = num_ // p10(be)
            d = rng.choice([0, 0, 1, -1])
            emit("tie", "div", (rng.choice([1, -1]) * (av + d), rng.randint(0, 9)), (rng.choice([1, -1]) * bv, be))
        else:               # rescale-down tie
            ae = rng.randint(1, 9)
            to = rng.randint(0, ae - 1)
            k = rng.randint(0, 10 ** rng.randint(0, 8))
            av = (2 * k + 1) * p10(ae - to) // 2 + rng.choice([0, 0, 1, -1])
            s = rng.choice([1, -1])
            op = rng.choice(["rescale", "add", "sub", "rescale_down", "compare"])
            if op in ("rescale", "rescale_down"):
                emit("tie", op, (s * av, ae), to)
            elif op == "compare":
                emit("tie", op, (s * av, ae), (rng.randint(-10 ** 6, 10 ** 6), to))
            else:
                emit("tie", op, (rng.randint(-10 ** 9, 10 ** 9), to), (s * av, ae))
    # random, magnitudes up to the 2^52 boundary, mixed exponents 0-9
    M = 60000 if quick else 1500000
    ops1 = ["rescale", "rescale_up", "rescale_down", "upscale", "downscale", "negate", "abs", "factor",
            "pct_from_amount", "pct_amount", "pct_rescale", "pct_negate"]
    ops2 = ["add", "sub", "mul", "div", "compare", "equals", "match_precision", "remove", "pct_of", "pct_from",
            "pct_compare", "pct_equals"]
    def rv():
        bits = rng.choice([3, 8, 16, 24, 32, 40, 48, 51, 52])
        v = rng.getrandbits(bits)
        if rng.random() < 0.15:
            v = T52 - 1 - rng.randint(0, 3)
        return rng.choice([1, -1]) * v
    for _ in range(M):
        r = rng.random()
        a = (rv(), rng.randint(0, 9))
        if r < 0.55:
            op = rng.choice(ops2)
            b = (rv() if rng.random() < 0.5 else rng.randint(-10 ** 4, 10 ** 4), rng.randint(0, 9))
            emit("random", op, a, b)
        elif r < 0.85:
            op = rng.choice(ops1)
            if op in ("rescale", "rescale_up", "rescale_down", "upscale", "downscale", "pct_rescale"):
                emit("random", op, a, rng.randint(0, 9))
            else:
                emit("random", op, a)
        elif r < 0.93:
            emit("random", "split", a, rng.randint(1, 50))
        else:
            o = rng.randint(0, 4)   # operator 4 (NotZero) has a fixed zero threshold
            emit("random", "threshold", o, (rng.randint(-50, 50), rng.randint(0, 3)) if o < 4 else (0, 0),
                 (rng.randint(-50, 50) if rng.random() < 0.8 else 0, rng.randint(0, 3)))
    return cases


def parse_case(line):
    vs = parse_wire(line)
    op = vs[1].decode()
    args = vs[2:]
    a = tuple(args[0]) if args and isinstance(args[0], list) else None
    b = tuple(args[1]) if len(args) > 1 and isinstance(args[1], list) else None
    n = args[1] if len(args) > 1 and isinstance(args[1], int) else None
    n2 = args[2] if len(args) > 2 and isinstance(args[2], int) else None
    return op, a, b, n, n2


def dom(line):
    op, a, b, n, n2 = parse_case(line)
    if op == "threshold":
        return True
    if op == "factor" or op.startswith("pct_") and op not in ("pct_of", "pct_from"):
        pass
    return in_domain(op, a, b, n, n2)


def shrink(line, differs):
    """Shrinks the integers of a failing case while it keeps failing."""
    vs = parse_wire(line)
    def render(v):
        return "num " + vs[1].decode() + " " + " ".join(w(x) for x in v[2:])
    cur = vs
    improved = True
    rounds = 0
    while improved and rounds < 200:
        improved = False
        rounds += 1
        for i in range(2, len(cur)):
            item = cur[i]
            cands = []
            if isinstance(item, list):
                v, e = item
                for nv in (0, int(v / 10), int(v / 2), (v - 1 if v > 0 else v + 1) if abs(v) < 50 else v):
                    if nv != v:
                        cands.append([nv, e])
                if e > 0:
                    cands.append([v, e - 1])
            elif isinstance(item, int) and item > 1:
                cands.append(item - 1)
            for cnd in cands:
                t = cur[:i] + [cnd] + cur[i + 1:]
                l = render(t)
                try:
                    ok = dom(l) and differs(l)
                except Exception:
                    ok = False
                if ok:
                    cur = t
                    improved = True
                    break
    return render(cur)


def run(c):
    quick = c.tier == "quick"
    if not std_builds(c):
        return
    proved = c.prove()
    ok, out = build_oracle()
    if not ok:
        c.report("extraction/oracle build failed: " + out[-800:], {"machinery": "oracle"}, no_input=True)
        return
    if not quick:
        # independent re-check of every compiled Props module (whole development) and the axioms of its context
        build_rocq([])
        r = subprocess.run([os.path.join(VERIF, "tools", "coqchk")], stdout=subprocess.PIPE, stderr=subprocess.STDOUT, text=True)
        c.cov["coqchk"] = r.stdout[-1200:]
        if r.returncode != 0:
            c.report("coqchk rejected the compiled development or found an axiom outside the allow-list: " + r.stdout[-600:],
                     {"theorem": "coqchk over rocq/Props/*.vo", "output": r.stdout[-3000:]}, no_input=True)
    cases = gen(c, quick) + gen_boundary(c, quick)
    lines = [l for _, l in cases]
    go = run_go(lines)
    mo = run_oracle(lines)
    mism_in, mism_out, ties = [], 0, 0
    doms = []
    for (stream, l), g, m in zip(cases, go, mo):
        d = dom(l)
        doms.append(d)
        key = l if stream != "grid" else None
        if d:
            c.count(stream, 1, l)
            if g != m:
                mism_in.append((l, g, m))
        else:
            c.count("out-of-domain(informational)", 1)
            if g != m:
                mism_out += 1
    # ---- the implementation-faithful model (Num/AmountImpl.v) on a sample of the same cases and on
    # the whole boundary stream: Go must equal it wherever it is Defined; inside the domain the guard
    # of the exactness theorem must hold (so Go = spec = impl there)
    budget = {"grid": 15000 if quick else 300000, "tie": 20000 if quick else 400000, "random": 25000 if quick else 600000}
    by_stream = {}
    for i, (stream, l) in enumerate(cases):
        by_stream.setdefault(stream, []).append(i)
    chosen = []
    for stream, idx in by_stream.items():
        if stream in budget and len(idx) > budget[stream]:
            idx = c.rng.sample(idx, budget[stream])
        chosen += idx
    chosen = sorted(i for i in chosen if with_prefix(cases[i][1], "impl_"))
    impl_out = run_oracle([with_prefix(cases[i][1], "impl_") for i in chosen])
    guard_out = run_oracle([with_prefix(cases[i][1], "dom_") for i in chosen])
    impl_breaks, guard_gaps, undef_out, out_defined_agree = [], [], 0, 0
    for i, im, gd in zip(chosen, impl_out, guard_out):
        stream, l = cases[i]
        g = go[i]
        if doms[i]:
            c.count("impl-model(in-domain)", 1, l)
            if gd != "1":
                guard_gaps.append((l, gd))
            if im != g:
                impl_breaks.append((l, g, im, True))
        else:
            c.count("impl-model(out-of-domain)", 1, l if im != UNDEF else None)
            if im == UNDEF:
                undef_out += 1
            elif im != g:
                impl_breaks.append((l, g, im, False))
            else:
                out_defined_agree += 1
    c.cov["impl_model"] = {
        "evaluations": len(chosen),
        "out_of_domain_model_defined_and_equal_to_go": out_defined_agree,
        "out_of_domain_model_undefined(go_result_platform_defined,informational)": undef_out,
        "differences_where_model_defined": len(impl_breaks),
        "in_domain_cases_outside_theorem_guard": len(guard_gaps)}
    c.cov["rule"] = ("cases = exhaustive small-value grid x exponent pairs for every operation, directed half-unit ties "
                     "(products, quotients and rescales constructed on a tie, +-1, both signs), random operands up to 2^52 "
                     "with exponents 0-9; distinct = distinct case lines inside the property's magnitude domain; "
                     "non-trivial = inside the domain (out-of-domain cases are informational and not counted); "
                     "boundary = magnitudes 2^52..2^63, MinInt64/MaxInt64, zero divisors, exponents up to 70, compared with the "
                     "implementation-faithful model only; impl-model streams = sample of all streams re-evaluated by "
                     "Num/AmountImpl.v (distinct out-of-domain = model Defined)")
    c.cov["out_of_domain_differences(informational)"] = mism_out
    for s, l in cases[:: max(1, len(cases) // 5)][:5]:
        c.sample({"stream": s, "case": l})
    # cross-check extraction on a sample inside Coq
    samp = [l for _, l in cases[:: max(1, len(cases) // 300)]][:300]
    try:
        inq = coq_eval(samp)
        mo_s = run_oracle(samp, shards=1)
        bad = [(l, a, b) for l, a, b in zip(samp, inq, mo_s) if a != b]
        c.cov["vm_compute_crosscheck"] = {"cases": len(samp), "differences": len(bad)}
        if bad:
            c.report("extracted model disagrees with vm_compute: %r" % (bad[0],), {"machinery": bad[0]}, no_input=True)
    except Exception as e:
        c.report("vm_compute cross-check failed: %r" % e, {"machinery": repr(e)}, no_input=True)
    if mism_in:
        def differs(l):
            return run_go([l], shards=1) != run_oracle([l], shards=1)
        seen = set()
        for l, g, m in mism_in[:40]:
            op = parse_case(l)[0]
            if op in seen:
                continue
            seen.add(op)
            s = shrink(l, differs)
            g2, m2 = run_go([s], shards=1)[0], run_oracle([s], shards=1)[0]
            c.report("num.%s differs from exact rational rounding: case `%s` implementation `%s` exact `%s` (%d differing cases in all)"
                     % (op, s, g2, m2, len(mism_in)),
                     {"case": s, "original_case": l, "implementation": g2, "specification": m2,
                      "clause": "result = exact rational rounded half away from zero at the documented precision",
                      "rerun": "echo '%s' | bin/vharness ; echo '%s' | bin/oracle" % (s, s)})
    if impl_breaks:
        l, g, im, ind = impl_breaks[0]
        c.report("correspondence stream impl-model: Num/AmountImpl.v is Defined (or the case is inside the domain) and differs from the implementation on %d cases, "
                 "e.g. `%s` implementation `%s` model `%s` (%s the magnitude domain): the model no longer transcribes num/amount.go"
                 % (len(impl_breaks), l, g, im, "inside" if ind else "outside"),
                 {"correspondence": "impl-model", "case": l, "implementation": g, "impl_model": im,
                  "rerun": "echo '%s' | bin/vharness ; echo '%s' | bin/oracle" % (l, with_prefix(l, "impl_"))}, no_input=True)
    if guard_gaps:
        l, gd = guard_gaps[0]
        c.report("check machinery: %d cases counted inside the domain are outside the guard of the exactness theorem, e.g. `%s` (guard `%s`)"
                 % (len(guard_gaps), l, gd), {"machinery": "tools/props/c05.py in_domain vs Num/AmountImpl.v in_domain_*", "case": l},
                 no_input=True)
    if not proved:
        pr = c.proof
        c.report("proof obligations of Props/C05.v no longer check: " + (pr.get("make_log") or pr.get("log", ""))[-600:],
                 {"theorem": "rocq/Props/C05.v", "failed_files": pr.get("failed_files"), "forbidden": pr.get("forbidden")},
                 no_input=not mism_in)


def replay(path):
    r = json.load(open(path))["replay"]
    l = r["case"]
    build_harness()
    print("implementation:", run_go([l], shards=1)[0])
    print("model:         ", run_oracle([l], shards=1)[0])
    return 0
