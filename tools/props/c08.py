"""C08 - the header digest makes every change to the document evident.

Tie / sweep.  For every example envelope of the repository and for generated calculated invoices
(calcgen.Gen -> gobl.Parse -> gobl.Envelop):
  (1) the envelope validates as it is; content-preserving re-encodings of the serialised text
      (member order at every level, whitespace, string escapes) still validate;
  (2) every single edit of the serialised document (every leaf value replaced type-preserving and
      type-changing, every member removed, every absent schema-defined member added with a
      schema-conforming value, an unknown member added, every array reordered / duplicated /
      truncated; every extension member set to every other code its registered definition lists: leaf-code-list),
      applied to the TEXT, then gobl.Parse + Validate.  The parsed document is serialised BEFORE Validate is called
      (and once more afterwards: validate_rewrote_the_parsed_document);
  (3) per source one sequence of validate requests to ONE long-lived `gobl serve` process (POST /bulk, one request per
      POST): original, edited copies with the same header, a re-encoding, the same texts again, in both orders; every
      answer must be what the library said about that text on its own (request_sequences).
Oracle P (judged here, from the implementation's observations only):
      evident      = unmarshal error, or any validation error, or the digest error
      no effect    = validates AND the parsed document, serialised again by Go, has the same canonical
                     bytes as the original's - allowed only for the edit kinds that by construction do
                     not touch schema-defined content (unknown member added; `$regime` equal to the
                     supplier's tax country removed: derived while parsing, DESIGN.md row 29);
      anything else (validates although the re-serialised parsed document differs; or a
      schema-defined edit that leaves no trace in the parsed document) is a VIOLATION.
  then Calculate: the new digest differs from the original one iff the recalculated document's
  canonical bytes differ.
Independent of the implementation: sha256 (hashlib) over the canonical bytes, a python printer of
canonical JSON compared with the implementation's bytes (sample + every original), and the check
that Go's re-serialisation of each unedited original loses no member (marshal_lossless_on).
Correspondence: Digest/Envelope.v (extracted) run on the observed abstraction (structural verdict,
header digest, canonical bytes, H given as the hashlib table) must return the implementation's
verdict class and the implementation's recalculated digest.
Correspondence of the canonicaliser of the `_real` theorems (stream real-canon): Digest/Link.real_canon
(extracted, wire op `c08 realcanon`) on json.Marshal(parsed document) must give byte for byte the
canonical JSON the implementation hashes - for every original (there also: hashlib's sha256 of the
MODEL's bytes must be the value the implementation's own Envelope.Digest() answers, `c08 hashed`) and
for every edited document observed in detail; each such document must lie in the theorems' domain
(in_domain; outside = a float failing C07's float premise or a string that is not clean UTF-8:
counted, not compared)."""
import glob
import hashlib
from fractions import Fraction

import subprocess
from vlib import *
import calcgen as cg

TRUSTED = ["the premises of the generic theorems (canonical JSON invariant under and injective up to norm) are discharged for "
           "Digest/Link.real_canon = C07's model of c14n on the domain in_domain (theorems ..._real); real_canon is tied to the "
           "bytes the implementation hashes by the stream real-canon (differential, not proved); C07's float premise (strconv) "
           "is part of the domain",
           "not proved, established by the sweep (search): json.Marshal of the parsed document loses no schema-defined member "
           "(marshal_lossless_on) and every Validate method is what `structural` abstracts",
           "modelling decision: logical content = the PARSED document; members unknown to the Go type and a `$regime` equal to the "
           "supplier's tax country are not content (every_text_edit_evident_refuted)"]

# examples shipped for a schema the code no longer registers (gobl.Parse: unknown-schema); skipped, counted
STALE = {"examples/pt/out/receipt.json"}
SCHEMAS = os.path.join(REPO, "data", "schemas")
BASE = "https://gobl.org/draft-0/"


# ----------------------------------------------------------------------------------------------
# JSON text: canonical printer (independent of c14n), re-encoder
# ----------------------------------------------------------------------------------------------
class HasFloat(Exception):
    pass


def canon_str(s):
    out = ['"']
    for ch in s:
        o = ord(ch)
        if ch in '"\\':
            out.append("\\" + ch)
        elif o < 0x20:
            out.append({"\n": "\\n", "\r": "\\r", "\t": "\\t", "\f": "\\f", "\b": "\\b"}.get(ch, "\\u00%02X" % o))
        else:
            out.append(ch)
    out.append('"')
    return "".join(out)


def canon(v):
    """GOBL canonical JSON (c14n/README): members sorted bytewise, null members dropped, no space."""
    if v is None:
        return "null"
    if v is True:
        return "true"
    if v is False:
        return "false"
    if isinstance(v, int):
        return str(v)
    if isinstance(v, float):
        raise HasFloat()
    if isinstance(v, str):
        return canon_str(v)
    if isinstance(v, list):
        return "[" + ",".join(canon(x) for x in v) + "]"
    items = sorted(((k.encode(), k, x) for k, x in v.items() if x is not None), key=lambda t: t[0])
    return "{" + ",".join(canon_str(k) + ":" + canon(x) for _, k, x in items) + "}"


def norm(v):
    if isinstance(v, list):
        return [norm(x) for x in v]
    if isinstance(v, dict):
        return {k: norm(v[k]) for k in sorted(v, key=lambda k: k.encode()) if v[k] is not None}
    return v


def _mark_raw(v):
    if isinstance(v, RawNumber):
        return "\x01RAWNUM:" + str(v) + "\x01"
    if isinstance(v, dict):
        return {k: _mark_raw(x) for k, x in v.items()}
    if isinstance(v, list):
        return [_mark_raw(x) for x in v]
    return v


def dumps(v):
    t = json.dumps(_mark_raw(v), ensure_ascii=False, separators=(",", ":"))
    if "\\u0001RAWNUM:" in t:
        t = re.sub(r'"\\u0001RAWNUM:([^"\\]*)\\u0001"', lambda m: m.group(1), t)
    return t


WS = ["", "", " ", "\n", "\t", "\r\n  ", "   "]


AMOUNT_LIKE = re.compile(r"^-?[0-9]+(\.[0-9]+)?%?$")


def reencode(v, rng, escape_amounts):
    """same JSON value, different text: member order, whitespace, escapes.  escape_amounts=False keeps
    strings that look like an amount or percentage free of escapes (see finding C08-amount-escapes)."""
    def ws():
        return rng.choice(WS)

    def s(x):
        if not escape_amounts and AMOUNT_LIKE.match(x):
            return '"' + x + '"'
        out = ['"']
        for ch in x:
            o = ord(ch)
            r = rng.random()
            if ch in '"\\':
                out.append("\\" + ch if r < 0.7 else "\\u%04x" % o)
            elif o < 0x20:
                short = {"\n": "\\n", "\r": "\\r", "\t": "\\t", "\f": "\\f", "\b": "\\b"}.get(ch)
                out.append(short if short and r < 0.6 else "\\u%04X" % o)
            elif ch == "/" and r < 0.4:
                out.append("\\/")
            elif r < 0.12:
                if o > 0xFFFF:
                    o -= 0x10000
                    out.append(("\\u%04x\\u%04X") % (0xD800 + (o >> 10), 0xDC00 + (o & 0x3FF)))
                else:
                    out.append(("\\u%04x" if r < 0.06 else "\\u%04X") % o)
            else:
                out.append(ch)
        out.append('"')
        return "".join(out)

    def go(x):
        if isinstance(x, dict):
            items = list(x.items())
            rng.shuffle(items)
            return "{" + ws() + ",".join(ws() + s(k) + ws() + ":" + ws() + go(y) + ws() for k, y in items) + "}"
        if isinstance(x, list):
            return "[" + ws() + ",".join(ws() + go(y) + ws() for y in x) + "]"
        if isinstance(x, str):
            return s(x)
        return json.dumps(x)
    return ws() + go(v) + ws()


# ----------------------------------------------------------------------------------------------
# published JSON Schemas: which members an object may have, and a conforming value for them
# ----------------------------------------------------------------------------------------------
_files = {}


def schema_file(url):
    url = url.split("#")[0]
    if not url.startswith(BASE):
        return None
    p = os.path.join(SCHEMAS, url[len(BASE):] + ".json")
    if p not in _files:
        _files[p] = json.load(open(p)) if os.path.exists(p) else None
    return _files[p]


def resolve(node, root, depth=0):
    """follows $ref chains; returns (schema node, root document of that node)"""
    while isinstance(node, dict) and "$ref" in node and depth < 20:
        ref = node["$ref"]
        depth += 1
        if ref.startswith("#/"):
            tgt = root
        else:
            tgt = schema_file(ref)
            if tgt is None:
                return node, root
            root = tgt
            ref = "#" + ref.split("#")[1] if "#" in ref else tgt.get("$ref", "#")
            if ref == "#":
                return tgt, root
        cur = tgt
        for part in ref[2:].split("/"):
            cur = cur.get(part) if isinstance(cur, dict) else None
            if cur is None:
                return node, root
        extra = {k: v for k, v in node.items() if k != "$ref"}
        node = dict(cur, **extra) if extra else cur
    return node, root


def sample_value(node, root, rng, depth=0):
    node, root = resolve(node, root)
    if not isinstance(node, dict):
        return "x"
    if "const" in node:
        return node["const"]
    for alt in ("oneOf", "anyOf"):
        if alt in node and node[alt] and all(isinstance(a, dict) and "const" in a for a in node[alt]):
            return rng.choice(node[alt])["const"]
    if "enum" in node and isinstance(node["enum"], list) and node["enum"]:
        return rng.choice(node["enum"])
    t = node.get("type")
    if t == "string":
        f, p = node.get("format"), node.get("pattern", "")
        if f == "uuid":
            return "0190a6b8-3a4e-7c3a-9f1e-2b5c6d7e8f9%d" % rng.randrange(10)
        if f == "date" or "0-9]{4}" in p:
            return "2024-0%d-1%d" % (rng.randint(1, 9), rng.randint(0, 9))
        if f == "uri":
            return "https://example.com/%d" % rng.randrange(100)
        if "%" in p:
            return "%d.5%%" % rng.randint(1, 30)
        if p.startswith("^\\-?[0-9]+"):
            return "%d.%02d" % (rng.randint(1, 99), rng.randrange(100))
        if "a-z" in p and "A-Z" not in p:
            return rng.choice(["abc", "k-%d" % rng.randrange(10), "zz"])
        if "A-Z" in p:
            return rng.choice(["ABC", "C%d" % rng.randrange(100)])
        return rng.choice(["x", "added text", "Zoë"])
    if t == "boolean":
        return True
    if t == "integer":
        return rng.randint(1, 9)
    if t == "number":
        return rng.randint(1, 9)
    if t == "array":
        return [sample_value(node.get("items", {}), root, rng, depth + 1)] if depth < 4 else []
    if t == "object" or "properties" in node or "patternProperties" in node:
        out = {}
        if depth < 4:
            for k in node.get("required", []):
                if k in node.get("properties", {}):
                    out[k] = sample_value(node["properties"][k], root, rng, depth + 1)
            for pat, sub in node.get("patternProperties", {}).items():
                out["zz-k%d" % rng.randrange(10)] = sample_value(sub, root, rng, depth + 1)
        return out
    return "x"


class RawNumber(str):
    """a JSON number given by its text (dumps writes it bare)"""


def leaf_is_amount(node, root):
    try:
        n, _ = resolve(node, root)
    except Exception:
        return True
    if not isinstance(n, dict):
        return True             # no schema knowledge: do not claim a number spelling is a change
    txt = json.dumps(n)[:600]
    return "num/amount" in txt or "num/percentage" in txt or "\\-?[0-9]+" in n.get("pattern", "") or n.get("type") in ("number", "integer")


def object_schema(obj, node, root):
    """schema of a JSON object: its own $schema member wins (schema.Object payloads)"""
    if isinstance(obj, dict) and isinstance(obj.get("$schema"), str):
        f = schema_file(obj["$schema"])
        if f is not None:
            return resolve(f, f)
    if node is None:
        return None, None
    return resolve(node, root)


# ----------------------------------------------------------------------------------------------
# edits
# ----------------------------------------------------------------------------------------------
def change_string(s, rng):
    idx = [i for i, ch in enumerate(s) if ch.isascii() and ch.isalnum()]
    if not idx:
        return s + "x"
    i = rng.choice(idx)
    ch = s[i]
    if ch.isdigit():
        n = str((int(ch) + rng.randint(1, 9)) % 10)
    elif ch.islower():
        n = chr((ord(ch) - 97 + rng.randint(1, 25)) % 26 + 97)
    else:
        n = chr((ord(ch) - 65 + rng.randint(1, 25)) % 26 + 65)
    return s[:i] + n + s[i + 1:]


def other_type(v, rng):
    if isinstance(v, str):
        return rng.choice([17, True, {"x": "y"}, ["x"], False, 0])
    if isinstance(v, bool):
        return rng.choice(["true", 1, ["x"]])
    if isinstance(v, int):
        return rng.choice([str(v), True, {"x": "y"}])
    return "x"


def spelling_note(v, op, payload):
    """edits that spell the same amount differently (num.Amount/Percentage read bare JSON numbers; a value-typed amount
    member that is absent or null is the zero amount, which is printed as "0"): decided from the edit alone"""
    if not (isinstance(v, str) and AMOUNT_LIKE.match(v)):
        return None
    pct = v.endswith("%")
    zero = Fraction(v.rstrip("%")) == 0
    if op == "del":
        return "zero-amount-absent" if zero else None
    if payload is None:
        return "zero-amount-null" if zero else None
    if isinstance(payload, int) and not isinstance(payload, bool):
        if (zero and payload == 0) or (not pct and Fraction(v) == payload):
            return "amount-as-number"
    return None


SPELLINGS = ("zero-amount-absent", "zero-amount-null", "amount-as-number", "uuid-spelling", "datetime-spelling")


def enumerate_edits(env, rng):
    """every single edit of env['doc']; yields (kind, op, path, payload, note)"""
    doc = env["doc"]
    root_node, root_doc = object_schema(doc, None, None)
    supplier_cc = None
    try:
        supplier_cc = doc["supplier"]["tax_id"]["country"]
    except Exception:
        pass

    def walk(v, path, node, root):
        if isinstance(v, dict):
            node, root = object_schema(v, node, root)
            props = (node or {}).get("properties", {}) if isinstance(node, dict) else {}
            patt = (node or {}).get("patternProperties", {}) if isinstance(node, dict) else {}
            for k, x in v.items():
                note = None
                if k == "$regime" and len(path) == 1 and isinstance(x, str) and x == supplier_cc:
                    note = "derived-regime"
                yield ("member-remove", "del", path + [k], None, note or ("null-member" if x is None else spelling_note(x, "del", None)))
                sub = props.get(k)
                if sub is None and patt:
                    sub = next(iter(patt.values()))
                yield from walk(x, path + [k], sub, root)
            if node is not None:
                for k, sub in props.items():
                    if k not in v:
                        yield ("member-add-schema", "add", path, (k, sample_value(sub, root, rng)), None)
                if patt:
                    sub = next(iter(patt.values()))
                    yield ("map-entry-add", "add", path, ("zz-new", sample_value(sub, root, rng)), None)
                else:
                    yield ("member-add-unknown", "add", path, ("zz_unknown_member", rng.choice(["x", 1, {"a": "b"}])), "unknown")
        elif isinstance(v, list):
            items = None
            if isinstance(node, dict):
                node, root = resolve(node, root)
                items = node.get("items") if isinstance(node, dict) else None
            for i, x in enumerate(v):
                yield from walk(x, path + [i], items, root)
            if len(v) >= 2:
                r = list(v)
                i = rng.randrange(len(r) - 1)
                r[i], r[i + 1] = r[i + 1], r[i]
                if r != v:
                    yield ("array-reorder", "set", path, r, None)
                r = list(reversed(v))
                if r != v and len(v) > 2:
                    yield ("array-reorder", "set", path, r, None)
            if v:
                i = rng.randrange(len(v))
                yield ("array-duplicate", "set", path, v[:i + 1] + v[i:], None)
                yield ("array-truncate", "set", path, v[:-1], None)
                if len(v) > 1:
                    yield ("array-truncate", "set", path, v[1:], None)
        else:
            if isinstance(v, str):
                yield ("leaf-same-type", "set", path, change_string(v, rng), None)
                # variants a forgiving reader might fold back onto the old value: trailing / leading junk, time suffixes,
                # other letter case, and the bare JSON number with the same text (an amount or percentage may be written
                # as a number: that is another spelling; anything else - codes, dates, keys - may not)
                amountish = leaf_is_amount(node, root)
                vs = [v + "T23:59:59", v + "T", v + "Z", v + " ", " " + v, v + "\t", v + ".0", v + "+", "0" + v,
                      v.upper(), v.lower(), v[:1].upper() + v[1:], v + v[-1:], "urn:uuid:" + v, "{" + v + "}"]
                vs = [x for i, x in enumerate(vs) if x != v and x not in vs[:i]]
                for x in (rng.sample(vs, 4) if len(vs) > 4 else vs):
                    if amountish and AMOUNT_LIKE.match(x) and AMOUNT_LIKE.match(v) and x.rstrip("%") and v.rstrip("%"):
                        try:
                            if Fraction(x.rstrip("%")) == Fraction(v.rstrip("%")) and x.endswith("%") == v.endswith("%"):
                                continue        # the same amount with other zeros
                        except (ValueError, ZeroDivisionError):
                            pass
                    unote = None
                    if re.fullmatch(r"[0-9a-fA-F]{8}-[0-9a-fA-F]{4}-[0-9a-fA-F]{4}-[0-9a-fA-F]{4}-[0-9a-fA-F]{12}", v):
                        y = x.lower()
                        y = y[9:] if y.startswith("urn:uuid:") else y
                        y = y[1:-1] if y.startswith("{") and y.endswith("}") else y
                        if y == v.lower():
                            unote = "uuid-spelling"     # the same identifier written in another of the RFC 4122 text forms
                    if re.fullmatch(r"[0-9]{4}-[0-9]{2}-[0-9]{2}T[0-9]{2}:[0-9]{2}:[0-9]{2}", v) and \
                            (re.fullmatch(re.escape(v) + r"\.0+", x) or x == v.replace("T", "t")):
                        unote = "datetime-spelling"     # the same instant with a zero fraction of a second
                    yield ("leaf-variant", "set", path, x, unote)
                if re.fullmatch(r"-?[0-9]+(\.[0-9]+)?", v) and not amountish and not (v.startswith("0") and len(v) > 1 and not v.startswith("0.")):
                    yield ("leaf-number-same-text", "set", path, RawNumber(v), None)
            elif isinstance(v, bool):
                yield ("leaf-same-type", "set", path, not v, None)
            elif isinstance(v, int):
                yield ("leaf-same-type", "set", path, v + rng.choice([1, -1, 10]), None)
                if v != 0:
                    yield ("leaf-sign-flip", "set", path, -v, None)
            elif isinstance(v, float):
                yield ("leaf-same-type", "set", path, v + rng.choice([0.5, -0.25, 1.0]), None)
                if v != 0:
                    yield ("leaf-sign-flip", "set", path, -v, None)
            if v is not None:
                yield ("leaf-type-change", "set", path, None,
                       "derived-regime" if path == ["doc", "$regime"] and v == supplier_cc else spelling_note(v, "set", None))
                nv = other_type(v, rng)
                yield ("leaf-type-change", "set", path, nv, spelling_note(v, "set", nv))
    yield from walk(doc, ["doc"], root_node, root_doc)


KEYLIKE = re.compile(r"^[a-z][a-z0-9]*([-+][a-z0-9]+)*$")
_LITS = []


def go_literals():
    """key-like string literals of the non-test Go source of the repository under test"""
    if not _LITS:
        import glob as _g
        found = set()
        for f in _g.glob(os.path.join(REPO, "**", "*.go"), recursive=True):
            if f.endswith("_test.go") or "/examples/" in f:
                continue
            try:
                src = open(f, encoding="utf-8", errors="replace").read()
            except OSError:
                continue
            for m in re.finditer(r'"([a-z][a-z0-9]*(?:[-+][a-z0-9]+)*)"', src):
                if 3 <= len(m.group(1)) <= 40:
                    found.add(m.group(1))
        _LITS.extend(sorted(found))
    return _LITS


def string_leaves(v, path):
    if isinstance(v, dict):
        for k, x in v.items():
            yield from string_leaves(x, path + [k])
    elif isinstance(v, list):
        for i, x in enumerate(v):
            yield from string_leaves(x, path + [i])
    elif isinstance(v, str):
        yield path, v


def apply_edit(env, op, path, payload):
    """path-copying application of one edit; env itself is not touched"""
    def go(v, i):
        if i == len(path):
            if op == "set":
                return payload
            if op == "add":
                c = dict(v)
                c[payload[0]] = payload[1]
                return c
            raise AssertionError(op)
        k = path[i]
        if op == "del" and i == len(path) - 1:
            c = dict(v)
            del c[k]
            return c
        c = dict(v) if isinstance(v, dict) else list(v)
        c[k] = go(v[k], i + 1)
        return c
    return go(env, 0)


# ----------------------------------------------------------------------------------------------
# judging
# ----------------------------------------------------------------------------------------------
class Obs:
    def __init__(self, v):
        self.parse, self.validate = v[0].decode(), v[1].decode()
        self.structural, self.same = bool(v[2]), bool(v[3])
        self.calc = v[4].decode()
        self.new = tuple(x.decode() for x in v[5]) if v[5] else ("", "")
        self.same_calc = bool(v[6])
        self.head = tuple(x.decode() for x in v[7]) if v[7] else ("", "")
        self.sha, self.sha_calc = v[8].decode(), v[9].decode()
        self.rewrote = bool(v[10])      # Validate changed the document it was asked about (serialised before / after)
        self.detail = len(v) > 11
        if self.detail:
            self.canon, self.canon_calc, self.raw = v[11], v[12], v[13]


EVIDENT = "evident"


def judge_edit(o, orig, kind, note):
    """returns (class, violation text or None)"""
    if o.parse != "ok":
        return "evident:" + ("panic" if o.parse == "panic" else "unmarshal"), None
    if o.validate == "digest":
        if o.same:
            return "digest-error-on-unchanged-content", "the digest error is raised although the parsed document is unchanged"
        return "evident:digest", None
    if o.validate != "ok":
        return "evident:" + ("panic" if o.validate == "panic" else "validation" if o.validate == "validation" else "other-error"), None
    if not o.same:
        return "UNDETECTED", "the edited envelope validates although its parsed document differs from the original"
    if note == "derived-regime":
        return "no-effect:derived-regime", None
    if note == "unknown":
        return "no-effect:unknown-member", None
    if note == "null-member":
        # a member whose value is null and the member's absence are the same content (canonical JSON drops null members)
        return "no-effect:null-member-removed", None
    if note in SPELLINGS:
        # not a change of content but another spelling of the same amount: num.Amount reads bare JSON numbers, and null
        # leaves the zero amount; only reached when the parsed document is byte-identical
        return "no-effect:" + note, None
    return "BLIND", "an edit of schema-defined content (%s) leaves no trace in the parsed document: it validates and re-serialises to the original bytes" % kind


def judge_calc(o, orig):
    if o.parse != "ok" or o.calc != "ok":
        return "recalc-refused", None
    if o.same_calc:
        if o.new != orig.head:
            return "recalc", "recalculation of unchanged content produced a different digest"
        return "recalc-same-content", None
    if o.new == orig.head:
        return "recalc", "after recalculating a changed document the digest equals the previous one"
    return "recalc-digest-differs", None


def model_lines(o, with_calc=True):
    """wire lines for Digest/Envelope.v from one observation.  The document is named by a short token
    standing for its canonical bytes (distinct bytes <-> distinct tokens), H is the table
    token -> sha256 of those bytes: hashlib's where the bytes were returned (detail), else the
    harness's own crypto/sha256 (never the implementation's dsig)."""
    lines = []
    if o.parse != "ok" or o.validate not in ("ok", "digest", "validation") or not o.sha or (o.detail and not o.canon):
        return lines
    h = hashlib.sha256(o.canon).hexdigest() if o.detail else o.sha
    tok = "doc:" + h[:20]
    dig = [o.head[0], o.head[1]] if o.head != ("", "") else []
    lines.append(("validate", "c08 validate %s %s %s %s" % (w(o.structural), w(dig), w(tok), w([[tok, h]])),
                  "x" + b"ok".hex() if o.validate == "ok" else w(["err", o.validate])))
    if with_calc and o.calc == "ok" and o.sha_calc and (not o.detail or o.canon_calc):
        h2 = hashlib.sha256(o.canon_calc).hexdigest() if o.detail else o.sha_calc
        tok2 = "doc:" + h2[:20]
        lines.append(("calculate", "c08 calculate %s %s %s %s" % (w(dig), w(tok), w([tok2]), w([[tok2, h2]])),
                      "%s %s %s" % (w("ok"), w([o.new[0], o.new[1]]), w(tok2))))
    return lines


def contains(big, small, path="doc"):
    """first path at which `small` (norm'd text content) is not carried by `big` (Go's re-serialisation)"""
    if isinstance(small, dict):
        if not isinstance(big, dict):
            return path
        for k, v in small.items():
            if k not in big:
                return path + "." + k
            r = contains(big[k], v, path + "." + k)
            if r:
                return r
        return None
    if isinstance(small, list):
        if not isinstance(big, list) or len(big) != len(small):
            return path
        for i, (a, b) in enumerate(zip(big, small)):
            r = contains(a, b, "%s[%d]" % (path, i))
            if r:
                return r
        return None
    return None if big == small else path


# ----------------------------------------------------------------------------------------------
# the long-lived entry point: `gobl serve`, action "validate" of POST /bulk (internal/cli.Validate; `gobl bulk` itself is
# not a registered command).  One request per POST, the next one sent after the answer: the order is ours.
# ----------------------------------------------------------------------------------------------
class ServeSession:
    def __init__(self):
        import socket, tempfile
        self.gobl = os.path.join(BIN, "gobl")
        self.tmpd = tempfile.mkdtemp(prefix="c08serve", dir=WORK)
        key = os.path.join(self.tmpd, "key.jwk")
        subprocess.run([self.gobl, "keygen", key], stdout=subprocess.PIPE, stderr=subprocess.PIPE, env=GOENV)
        s0 = socket.socket()
        s0.bind(("127.0.0.1", 0))
        self.port = s0.getsockname()[1]
        s0.close()
        self.log = open(os.path.join(self.tmpd, "serve.log"), "w")
        self.proc = subprocess.Popen([self.gobl, "serve", "-p", str(self.port), "-k", key], stdout=self.log, stderr=self.log, env=GOENV)
        self.up = False
        for _ in range(200):
            time.sleep(0.05)
            if self.proc.poll() is not None:
                break
            try:
                h = self.connect()
                h.request("GET", "/")
                r = h.getresponse()
                r.read()
                h.close()
                if r.status == 200:
                    self.up = True
                    break
            except OSError:
                pass

    def connect(self):
        import http.client
        return http.client.HTTPConnection("127.0.0.1", self.port, timeout=60)

    def validate(self, h, text):
        """verdict of one validate request: 'ok', the error key ('digest', 'validation', ...), 'error' (no key) or 'no-answer'"""
        import base64
        body = json.dumps({"action": "validate", "req_id": "r", "payload": {"data": base64.b64encode(text.encode()).decode()}}) + "\n"
        h.request("POST", "/bulk", body=body.encode(), headers={"Content-Type": "application/json"})
        r = h.getresponse()
        data = r.read().decode("utf-8", "replace")
        for l in data.split("\n"):
            try:
                j = json.loads(l)
            except ValueError:
                continue
            if isinstance(j, dict) and j.get("req_id") == "r":
                if j.get("error"):
                    return j["error"].get("key") or "error"
                return "ok" if (j.get("payload") or {}).get("ok") is True else "error"
        return "no-answer"

    def close(self):
        try:
            self.proc.kill()
            self.proc.wait(timeout=10)
        except Exception:
            pass
        self.log.close()
        sh("rm -rf " + self.tmpd)


def fresh_verdict(text):
    """the same request as the first and only one of a new process"""
    s = ServeSession()
    try:
        if not s.up:
            return "no-server"
        h = s.connect()
        v = s.validate(h, text)
        h.close()
        return v
    except OSError:
        return "no-answer"
    finally:
        s.close()


def request_sequences(c, good, seq_pool, rng, quick):
    """Per source one sequence of validate requests to ONE server process: the untouched envelope, edited copies of it with the
    same header (edits the one-shot sweep above saw refused with the digest error / a validation error, and edits without effect),
    a re-encoding, the same texts again - half of the sequences open with the original, half with an edited copy.  Expected of
    every answer: what the library said about that text on its own (oracle P: an edited document is refused, with the digest
    error where the library names the digest; the original, its re-encoding and the no-effect spellings are accepted) -
    whatever was asked of the process before."""
    import threading
    ok_, out_ = build_cli()
    if not ok_:
        c.report("cmd/gobl no longer builds: " + out_[-800:], {"correspondence": "go build ./cmd/gobl"}, no_input=True)
        return
    idx = list(range(len(good)))
    if quick:
        # 80 sources: one per (document type, regime, add-ons) first (seeded order), then a seeded sample of the rest
        rng.shuffle(idx)
        first, rest, seen = [], [], set()
        for si in idx:
            d = good[si][2]["doc"]
            k = (d.get("$schema"), d.get("$regime"), tuple(d.get("$addons") or [])) if isinstance(d, dict) else None
            (rest if k in seen else first).append(si)
            seen.add(k)
        idx = (first + rest)[:80]
    seqs = []
    for si in idx:
        name, text, env, o = good[si]
        pool = seq_pool.get(si, {})

        def pick(g, n):
            l = pool.get(g, [])
            return [(g, e, dumps(apply_edit(env, e[2], e[3], e[4]))) for e in (rng.sample(l, n) if len(l) > n else list(l))]
        dg, vl, ne = pick("digest", 2), pick("validation", 1), pick("noeffect", 1)
        orig = ("original", None, text)
        steps = [orig] + dg[:1] + [("re-encoding", None, reencode(env, rng, False))] + (vl if len(seqs) % 2 else ne) + dg[1:] + dg[:1] + [orig]
        if dg and rng.random() < 0.5:
            steps = dg[:1] + steps          # the edited copy is the first thing the process hears of this envelope
        seqs.append((si, steps))
    c.cov["request_sequences"] = {"sources": len(seqs), "requests": sum(len(s) for _, s in seqs),
                                  "with_a_digest_edit": sum(1 for _, s in seqs if any(g == "digest" for g, _, _ in s))}
    if not any(g == "digest" for _, s in seqs for g, _, _ in s):
        c.report("stream request-sequence is vacuous: no sequence contains an edit the library refuses with the digest error", {"machinery": "request-sequence"}, no_input=True)
        return
    srv = ServeSession()
    if not srv.up:
        srv.close()
        c.report("gobl serve did not come up: the long-lived entry point cannot be observed", {"machinery": "serve"}, no_input=True)
        return
    results = {}
    lock = threading.Lock()
    work = list(seqs)

    def worker():
        h = srv.connect()
        while True:
            with lock:
                if not work:
                    break
                si, steps = work.pop()
            got = []
            for g, e, t in steps:
                try:
                    got.append(srv.validate(h, t))
                except OSError:
                    got.append("no-answer")
                    try:
                        h.close()
                    except OSError:
                        pass
                    h = srv.connect()
            results[si] = got
        h.close()
    ths = [threading.Thread(target=worker) for _ in range(4)]
    for t in ths:
        t.start()
    for t in ths:
        t.join()
    alive = srv.proc.poll() is None
    srv.close()
    nrep = 0
    want = {"original": "ok", "re-encoding": "ok", "noeffect": "ok", "digest": "digest", "validation": "validation"}
    diffs = {}
    for si, steps in seqs:
        name, text, env, o = good[si]
        got = results.get(si, [])
        for n, ((g, e, t), v) in enumerate(zip(steps, got)):
            c.count("request-sequence:" + g, 1, (name, n, hashlib.sha1(t.encode()).hexdigest()))
            if v == want[g]:
                continue
            edited = g in ("digest", "validation")
            if edited and v not in ("ok", "no-answer"):
                # refused, under another error key than the library's (the command line reads its input through YAML): counted
                diffs[(want[g], v)] = diffs.get((want[g], v), 0) + 1
                continue
            alone = fresh_verdict(t) if nrep < 3 else "not asked"
            if edited:
                what = ("request %d of a sequence to one `gobl serve` process: an edited copy of %s (%s at %s) is answered `%s`; the library refuses the "
                        "same text with `%s`, a fresh process answers `%s`" % (n + 1, name, e[1], "/".join(str(x) for x in e[3]), v, want[g], alone))
                clause = "if the logical content is changed without recalculating, validation fails with a digest error"
            else:
                what = ("request %d of a sequence to one `gobl serve` process: %s of %s is answered `%s`; the library validates the same text, "
                        "a fresh process answers `%s`" % (n + 1, g if g != "noeffect" else "a spelling without effect (%s)" % e[1], name, v, alone))
                clause = "a calculated envelope validates, and continues to validate after being re-serialised"
            nrep += 1
            if nrep <= 3:
                c.report(what, {"source": name, "request_sequence": [x[2] for x in steps[:n + 1]],
                                "answers": got[:n + 1], "expected_of_the_last": want[g], "fresh_process_answers": alone,
                                "edit": None if e is None else {"kind": e[1], "op": e[2], "path": e[3], "value": e[4]},
                                "clause": clause,
                                "rerun": "gobl serve; POST /bulk {\"action\":\"validate\",\"payload\":{\"data\":base64(text)}} for each text of request_sequence, in order, one POST each"})
            break
    c.cov["request_sequences"]["refused_under_another_key(library,serve)"] = {"%s->%s" % k: n for k, n in diffs.items()}
    c.cov["request_sequences"]["deviations"] = nrep
    if not alive:
        c.report("gobl serve died while answering validate requests", {"machinery": "serve", "log": "work/c08serve*/serve.log"}, no_input=True)


def example_files():
    fs = sorted(glob.glob(os.path.join(REPO, "**", "out", "*.json"), recursive=True))
    return [f for f in fs if "/node_modules/" not in f]


def run(c):
    quick = c.tier == "quick"
    if not std_builds(c):
        return
    cg.reset_tables()
    proved = c.prove()
    ok, out = build_oracle()
    if not ok:
        c.report("extraction/oracle build failed: " + out[-800:], {"machinery": "oracle"}, no_input=True)
        return
    log("builds and proofs done", round(time.time() - T0, 1))
    rng = c.rng
    classes, kinds, calc_classes = {}, {}, {}
    c.cov["verdict_classes"], c.cov["edit_kinds"], c.cov["recalculation"] = classes, kinds, calc_classes

    # ---- sources: example envelopes + generated calculated invoices ----
    sources = []   # (name, text)
    skipped = []
    for f in example_files():
        rel = os.path.relpath(f, REPO)
        if rel in STALE:
            skipped.append(rel)
            continue
        sources.append((rel, open(f, "rb").read().decode()))
    c.cov["examples"] = len(sources)
    c.cov["examples_skipped_stale_schema"] = skipped
    g = cg.Gen(rng)
    ngen = 40 if quick else 600
    docs = [g.doc(big=(i % 10 == 9)) for i in range(ngen)]
    for d in docs:   # valid by construction where cheap: regime currency conversion, no negative quantities/prices
        if d["currency"] != "EUR":
            d.setdefault("exchange_rates", []).append({"from": d["currency"], "to": "EUR", "amount": "1.1"})
        for l in d["lines"]:
            l["quantity"] = l["quantity"].lstrip("-")
            l["item"]["price"] = l["item"]["price"].lstrip("-")
            for sl in l.get("breakdown", []):
                sl["quantity"] = sl["quantity"].lstrip("-")
                sl["item"]["price"] = sl["item"]["price"].lstrip("-")
    for d in docs:   # something for the add/remove edits to bite on
        if rng.random() < 0.6:
            d["lines"][0]["notes"] = [{"key": "general", "text": "line note %d" % rng.randrange(1000)}]
        if rng.random() < 0.5:
            d["notes"] = [{"key": "general", "text": "Zoë \"quoted\" / slash\ttab é\U0001F600"}]
        if rng.random() < 0.5:
            d["meta"] = {"order-ref": "M%d" % rng.randrange(1000)}
        if rng.random() < 0.6:   # the only bare JSON numbers of a document: coordinates (floats of either sign)
            d["supplier"]["addresses"] = [{"locality": "Madrid", "country": "ES",
                                           "coords": {"lat": round(rng.uniform(-80, 80), rng.randint(1, 5)) or 1.5,
                                                      "lon": round(rng.uniform(-170, 170), rng.randint(1, 5)) or -3.7}}]
    outs = run_go(["c08 envelop " + w(json.dumps(d)) for d in docs], shards=16)
    ngen_ok = 0
    for i, (d, o) in enumerate(zip(docs, outs)):
        v = parse_wire(o)
        if v and v[0] == b"ok":
            sources.append(("generated:%d" % i, v[1].decode()))
            ngen_ok += 1
    # rich synthetic documents (every member of every registered type populated, repaired into valid ones): envelopes of them
    import richvalid, glob as _gl
    richdir = os.path.join(WORK, "c14rich")
    subprocess.run([os.path.join(BIN, "vharness"), "c14rich", richdir], stdout=subprocess.PIPE, stderr=subprocess.PIPE, env=GOENV)
    rdocs = []
    for f in sorted(_gl.glob(os.path.join(richdir, "rich-*.json"))):
        if "+" in os.path.basename(f):
            continue
        try:
            rdocs.append((os.path.basename(f), richvalid.make_valid(json.load(open(f)))))
        except ValueError:
            pass
    nrich = 0
    if quick:
        rdocs = [x for x in rdocs if any(k in x[0] for k in ("bill-invoice", "bill-payment", "bill-order", "bill-delivery.", "org-party", "pay-", "note-"))]
    for (rn, d), o in zip(rdocs, run_go(["c08 envelop " + w(json.dumps(d)) for _, d in rdocs], shards=16)):
        v = parse_wire(o)
        if v and v[0] == b"ok":
            sources.append(("rich:" + rn, v[1].decode()))      # (kept only if it validates, like every generated one)
            nrich += 1
    c.cov["rich_envelopes"] = nrich
    c.cov["generated_envelopes"] = ngen_ok
    if ngen_ok < ngen // 2:
        c.report("generator broken: only %d of %d generated invoices could be enveloped" % (ngen_ok, ngen), {"machinery": "generator"}, no_input=True)

    # ---- (0) the originals: validate, independent digest, lossless re-serialisation ----
    origs = run_go(["c08 orig " + w(t) for _, t in sources], shards=16)
    good = []
    mlines = []
    real_cases, real_seen = [], set()     # (source, kind, json.Marshal(parsed doc), canonical bytes Go hashes)
    dropped = 0
    for (name, text), ol in zip(sources, origs):
        o = Obs(parse_wire(ol)[0])
        env = json.loads(text)
        if name.startswith("rich:") and o.parse == "ok" and o.validate == "validation":
            continue          # a rich document the name rules did not manage to make valid
        if name.startswith("generated:") and o.parse == "ok" and o.validate == "validation":
            dropped += 1      # the generator aims at calculation, not validity: the property's domain is valid documents
            continue
        c.count("original-validates", 1, name)
        if o.parse != "ok" or o.validate != "ok":
            c.report("a calculated envelope does not validate as it is: %s (parse %s, validate %s)" % (name, o.parse, o.validate),
                     {"source": name, "envelope": text, "clause": "a calculated envelope validates",
                      "rerun": "bin/gobl validate <file with this envelope>"})
            continue
        try:
            pc = canon(env["doc"]).encode()
        except HasFloat:
            c.count("float-in-document(skipped for the independent printer)", 1)
            pc = None
        if pc is not None:
            if pc != o.canon:
                lost = contains(json.loads(o.raw), norm(env["doc"]))
                c.report("the parsed document of %s, serialised again, is not the document of the text (first difference at %s): "
                         "json.Marshal(parse(text)) loses or changes a member, so an edit there cannot be evident" % (name, lost),
                         {"source": name, "envelope": text, "reserialised_document": o.raw, "first_difference": lost,
                          "clause": "marshal_lossless_on: the digest covers every member of the serialised document"})
                continue
            if hashlib.sha256(pc).hexdigest() != o.head[1] or o.head[0] != "sha256":
                c.report("head.dig of %s is not sha256 over the canonical JSON of its document" % name,
                         {"source": name, "envelope": text, "expected": hashlib.sha256(pc).hexdigest(), "head": o.head})
                continue
        good.append((name, text, env, o))
        mlines += [(name, "original") + m for m in model_lines(o, with_calc=False)]
        if o.raw and o.canon and o.raw not in real_seen:
            real_seen.add(o.raw)
            real_cases.append((name, "original", o.raw, o.canon))
    c.cov["originals_checked"] = len(good)
    c.cov["generated_dropped_invalid"] = dropped
    if dropped > ngen_ok // 2:
        c.report("generator broken: %d of %d generated envelopes are invalid" % (dropped, ngen_ok), {"machinery": "generator"}, no_input=True)
    log("originals done", round(time.time() - T0, 1))

    # ---- (1) re-encodings ----
    nre = 4 if quick else 25
    re_lines, re_meta = [], []
    for name, text, env, o in good:
        texts = [reencode(env, rng, i % 2 == 1) for i in range(nre)]
        re_lines.append("c08 sweep %s %s 0" % (w(text), w(texts)))
        re_meta.append((name, texts))
    for (name, texts), ol in zip(re_meta, run_go(re_lines, shards=16)):
        res = parse_wire(ol)
        for i, (t, v) in enumerate(zip(texts, res[1])):
            o = Obs(v)
            c.count("re-encoding" + (":amounts-escaped" if i % 2 else ""), 1, t)
            if o.parse != "ok" or o.validate != "ok" or not o.same:
                # narrow matcher of the recorded finding: only the flavour that escapes characters inside amount/percentage
                # strings, only when the text is then refused by the parser
                fid = "C08-amount-escapes" if (i % 2 == 1 and o.parse == "unmarshal") else None
                c.report("a content-preserving re-encoding of %s no longer validates (parse %s, validate %s, same content %s)"
                         % (name, o.parse, o.validate, o.same),
                         {"source": name, "envelope": t, "clause": "continues to validate after being re-serialised with different member order, whitespace or string escapes"},
                         finding_id=fid)

    # the same through the command line (`gobl validate` reads its input itself): a sample of the re-encodings that the
    # library accepted, plus forms with every solidus escaped and with a surrogate-pair escape for a non-BMP character
    build_cli()
    cli_cases = []
    for (name, texts) in re_meta[:: max(1, len(re_meta) // (12 if quick else 200))]:
        env0 = json.loads(texts[0])
        cli_cases.append((name, texts[0]))
        cli_cases.append((name, json.dumps(env0).replace("/", "\\/")))
    tmpf = os.path.join(WORK, "c08cli.%d.json" % os.getpid())
    for name, t in cli_cases:
        open(tmpf, "w").write(t)
        p_ = subprocess.run([os.path.join(BIN, "gobl"), "validate", tmpf], stdout=subprocess.PIPE, stderr=subprocess.PIPE, text=True, env=GOENV)
        c.count("re-encoding:cli", 1, t)
        if p_.returncode != 0:
            err_ = " ".join(l for l in p_.stderr.split("\n") if not l.startswith("WARNING conda"))[:300]
            c.report("`gobl validate` refuses a content-preserving re-encoding of %s that the library accepts: %s" % (name, err_),
                     {"source": name, "envelope": t, "stderr": err_, "command": "bin/gobl validate <file>",
                      "clause": "continues to validate after being re-serialised with different member order, whitespace or string escapes"})
            break
    try:
        os.remove(tmpf)
    except OSError:
        pass
    log("re-encodings done", round(time.time() - T0, 1))
    # ---- (2) single edits ----
    all_edits = []    # (source index, kind, op, path, payload, note)
    for si, (name, text, env, o) in enumerate(good):
        for e in enumerate_edits(env, rng):
            all_edits.append((si,) + e)
    c.cov["edits_enumerated"] = len(all_edits)
    if quick:
        # the rich documents are large: a seeded sample of their edits in the quick tier
        rich_e = [e for e in all_edits if good[e[0]][0].startswith("rich:")]
        rng.shuffle(rich_e)
        keep_r = set(id(e) for e in rich_e[:3000])
        all_edits = [e for e in all_edits if not good[e[0]][0].startswith("rich:") or id(e) in keep_r]
    budget = 25000 if quick else len(all_edits)
    if len(all_edits) > budget:
        # stratified by kind: rare kinds are kept completely
        by = {}
        for e in all_edits:
            by.setdefault(e[1], []).append(e)
        chosen = []
        share = budget // len(by)
        rest = []
        for k, l in by.items():
            rng.shuffle(l)
            chosen += l[:share]
            rest += l[share:]
        rng.shuffle(rest)
        chosen += rest[:budget - len(chosen)]
        all_edits = chosen
    c.cov["exhaustive"] = len(all_edits) == c.cov["edits_enumerated"]
    # literal edits: every key-like string literal of the repository's Go source (legacy names, aliases, keys of other
    # members) as the new value of every key-valued leaf position - a value the parser quietly maps back to the old
    # one would go unnoticed by the digest
    pool = go_literals()
    seen_gp = set()
    nlit = 0
    for si, (name, text, env, o) in enumerate(good):
        for path, v in string_leaves(env["doc"], ["doc"]):
            if not KEYLIKE.match(v):
                continue
            gp = tuple("*" if isinstance(x, int) else x for x in path)
            if gp in seen_gp and quick:
                continue
            if quick and (len(seen_gp) >= 70 or name.startswith("rich:")):
                continue                    # bounded in the quick tier: the example positions first
            if len(seen_gp) >= 400:
                continue
            seen_gp.add(gp)
            for lit in pool:
                if lit != v:
                    all_edits.append((si, "leaf-literal", "set", path, lit, "derived-regime" if path == ["doc", "$regime"] else None))
                    nlit += 1
    c.cov["literal_edits"] = {"pool": len(pool), "positions": len(seen_gp), "edits": nlit}
    # code-list edits: every extension member (any `ext` object of any document type) gets every OTHER code its registered
    # definition lists (tax.ExtensionForKey, asked of the implementation: regimes and add-ons alike).  A valid value in the
    # place of another valid value is the edit a rule that derives / repairs / defaults the member is most likely to absorb;
    # a random change of a character (leaf-same-type) almost never produces one.
    ext_leaves = []
    for si, (name, text, env, o) in enumerate(good):
        for path, v in string_leaves(env["doc"], ["doc"]):
            if len(path) >= 2 and path[-2] == "ext" and isinstance(path[-1], str):
                ext_leaves.append((si, path, v))
    ext_keys = sorted({p[-1] for _, p, _ in ext_leaves})
    ext_values = {}
    if ext_keys:
        ev = parse_wire(run_go(["c08 extvalues " + w(ext_keys)], shards=1)[0])
        if ev and isinstance(ev[0], list) and len(ev[0]) == len(ext_keys):
            ext_values = {k: [x.decode() for x in vals] for k, vals in zip(ext_keys, ev[0])}
        else:
            c.report("harness op `c08 extvalues` failed: %r" % (ev,), {"machinery": "extvalues"}, no_input=True)
    ncl, cl_seen = 0, {}
    cl_cap = 6 if quick else 10 ** 6        # quick: at most 6 instances of the same (document type, position, key, old, new)
    for si, path, v in ext_leaves:
        alts = [x for x in ext_values.get(path[-1], []) if x != v]
        if quick and len(alts) > 4:
            alts = rng.sample(alts, 4)
        dtype = good[si][2]["doc"].get("$schema", "") if isinstance(good[si][2]["doc"], dict) else ""
        gp = tuple("*" if isinstance(x, int) else x for x in path)
        for x in alts:
            kx = (dtype, gp, v, x)
            if cl_seen.get(kx, 0) >= cl_cap:
                continue
            cl_seen[kx] = cl_seen.get(kx, 0) + 1
            all_edits.append((si, "leaf-code-list", "set", path, x, None))
            ncl += 1
    c.cov["code_list_edits"] = {"extension_members": len(ext_leaves), "keys": len(ext_keys),
                                "keys_with_listed_codes": sum(1 for k in ext_keys if ext_values.get(k)), "edits": ncl}
    if ext_leaves and not ncl:
        c.report("stream leaf-code-list is vacuous: no extension member of any source has another listed code", {"machinery": "code-list"}, no_input=True)
    per_source = {}
    for e in all_edits:
        per_source.setdefault(e[0], []).append(e)
    lines, meta = [], []
    CH = 8
    dstep = 10 if quick else 40       # every dstep-th chunk is observed in detail (model + independent printer)
    nchunk = 0
    for si, es in per_source.items():
        name, text, env, o = good[si]
        for i in range(0, len(es), CH):
            chunk = es[i:i + CH]
            texts = [dumps(apply_edit(env, e[2], e[3], e[4])) for e in chunk]
            detail = 1 if nchunk % dstep == 0 else 0
            nchunk += 1
            lines.append("c08 sweep %s %s %d" % (w(text), w(texts), detail))
            meta.append((si, chunk, texts))
    log("edits prepared", len(all_edits), round(time.time() - T0, 1))
    outs = run_go(lines, shards=16)
    log("edits run", round(time.time() - T0, 1))
    reported = {}
    seq_pool = {}        # source index -> library verdict group -> judged edits (for the request sequences below)
    rewrote = 0
    printer_checked = 0
    for (si, chunk, texts), ol in zip(meta, outs):
        name, text, env, orig = good[si]
        res = parse_wire(ol)
        for e, t, v in zip(chunk, texts, res[1]):
            _, kind, op, path, payload, note = e
            o = Obs(v)
            cls, bad = judge_edit(o, orig, kind, note)
            classes[cls] = classes.get(cls, 0) + 1
            kinds[kind] = kinds.get(kind, 0) + 1
            grp = {"evident:digest": "digest", "evident:validation": "validation"}.get(cls, "noeffect" if cls.startswith("no-effect") else None)
            if grp and kind != "leaf-literal":
                seq_pool.setdefault(si, {}).setdefault(grp, []).append(e)
            c.count("edit:" + kind, 1, (name, op, tuple(path), dumps(payload)))
            if o.rewrote:
                rewrote += 1
            ccls, cbad = judge_calc(o, orig)
            calc_classes[ccls] = calc_classes.get(ccls, 0) + 1
            for b, clause in ((bad, "if the logical content is changed without recalculating, validation fails with a digest error"),
                              (cbad, "after recalculating, the digest differs from the previous one")):
                if b and reported.get((b, kind), 0) < 2:
                    reported[(b, kind)] = reported.get((b, kind), 0) + 1
                    c.report("%s: %s at %s of %s" % (b, kind, "/".join(str(p) for p in path), name),
                             {"source": name, "original_envelope": text, "edit": {"kind": kind, "op": op, "path": path, "value": payload},
                              "edited_envelope": t, "observed": {"parse": o.parse, "validate": o.validate, "same_parsed_content": o.same,
                                                                 "validate_rewrote_the_document": o.rewrote, "recalculated_digest": o.new, "original_digest": orig.head},
                              "clause": clause, "rerun": "echo 'c08 sweep x<original hex> ( x<edited hex> ) 0' | bin/vharness"})
                elif b:
                    c.violations_suppressed = getattr(c, "violations_suppressed", 0) + 1
            mlines += [(name, kind) + m for m in model_lines(o)]
            if o.detail and o.parse == "ok" and o.canon and o.raw and o.raw not in real_seen:
                real_seen.add(o.raw)
                real_cases.append((name, kind, o.raw, o.canon))
            if o.detail and o.parse == "ok" and o.canon:
                if hashlib.sha256(o.canon).hexdigest() != o.sha:
                    c.report("harness sha256 differs from hashlib", {"machinery": "sha"}, no_input=True)
                try:
                    pc = canon(json.loads(o.raw)).encode()
                    printer_checked += 1
                    if pc != o.canon:
                        c.report("independent canonical printer differs from c14n on a parsed document (C07's subject; breaks the tie's notion of content)",
                                 {"correspondence": "c08:printer", "document": o.raw, "c14n": o.canon, "python": pc}, no_input=True)
                except HasFloat:
                    pass
    c.cov["independent_printer_checked"] = printer_checked
    c.cov["validate_rewrote_the_parsed_document"] = rewrote
    c.cov["violations_not_listed_individually"] = getattr(c, "violations_suppressed", 0)
    if len(all_edits) and not (classes.get("evident:digest", 0) and classes.get("evident:unmarshal", 0) and classes.get("evident:validation", 0)):
        c.report("sweep is vacuous: an expected verdict class never occurred: %r" % classes, {"machinery": "classes"}, no_input=True)

    # ---- (3) sequences of validate requests inside one long-lived process ----
    request_sequences(c, good, seq_pool, rng, quick)
    log("request sequences done", round(time.time() - T0, 1))

    # ---- correspondence with the model ----
    log("edits judged; model lines", len(mlines), round(time.time() - T0, 1))
    mo = run_oracle([m[3] for m in mlines], shards=16)
    log("model run", round(time.time() - T0, 1))
    mism = 0
    for (name, kind, opn, line, expect), got in zip(mlines, mo):
        c.count("model:" + opn, 1, line if len(line) < 400 else hashlib.sha1(line.encode()).hexdigest())
        if got.strip() != expect.strip():
            mism += 1
            if mism <= 2:
                c.report("correspondence broken: Digest/Envelope.v %s gives `%s`, the implementation `%s` (%s, %s)" % (opn, got[:200], expect[:200], name, kind),
                         {"correspondence": "c08:model:" + opn, "case": line, "model": got, "implementation": expect, "source": name}, no_input=True)
    c.cov["go_model_differences"] = mism

    # ---- correspondence of real_canon (the canonicaliser of the `_real` theorems) with the bytes Go hashes ----
    hashed = {}
    for (name, text, env, o), hl in zip(good, run_go(["c08 hashed " + w(t) for _, t, _, _ in good], shards=16)):
        hv = parse_wire(hl)
        if hv and hv[0] == b"ok":
            hashed[hv[1]] = (hv[3].decode(), hv[4].decode(), hv[2])
        else:
            c.report("Envelope.Digest() of the parsed original %s fails (%s)" % (name, hl[:100]), {"source": name, "envelope": text})
    rmo = run_oracle(["c08 realcanon " + w(raw) for _, _, raw, _ in real_cases], shards=16)
    rmism = outside = 0
    for (name, kind, raw, gocanon), got in zip(real_cases, rmo):
        rv = parse_wire(got)
        rv = rv[0] if rv else None
        if rv and rv[0] == b"outside":
            outside += 1
            c.count("real-canon:outside-the-domain(not compared)", 1, hashlib.sha1(raw).hexdigest())
            continue
        c.count("real-canon" + (":original" if kind == "original" else ":edited"), 1, hashlib.sha1(raw).hexdigest())
        bad = None
        if not rv or rv[0] != b"ok":
            bad = "the model's reader refuses json.Marshal's text (%s)" % got[:80]
        elif rv[1] != gocanon:
            bad = "Digest/Link.real_canon differs from the canonical JSON the implementation hashes"
        elif rv[2] != 1:
            bad = "a good value was translated to a document outside in_domain (contradicts every_good_text_is_a_document)"
        elif kind == "original" and raw in hashed:
            dv, alg, hc = hashed[raw]
            c.count("real-canon:sha256(model bytes)=Envelope.Digest()", 1, dv)
            if alg != "sha256" or hashlib.sha256(rv[1]).hexdigest() != dv:
                bad = "sha256 over the model's canonical bytes is not the value Envelope.Digest() answers"
        if rv and rv[0] == b"ok" and len(rv) > 3 and rv[3] != 1:
            c.count("real-canon:duplicate-member-names-in-json.Marshal-output", 1)
        if bad:
            rmism += 1
            if rmism <= 2:
                c.report("correspondence broken: %s (%s, %s)" % (bad, name, kind),
                         {"correspondence": "c08:real_canon", "case": "c08 realcanon " + w(raw), "document": raw,
                          "model": got[:4000], "implementation": gocanon, "source": name}, no_input=True)
    c.cov["real_canon_differences"] = rmism
    c.cov["real_canon_outside_domain"] = outside
    if real_cases and outside * 2 > len(real_cases):
        c.report("stream real-canon is vacuous: %d of %d documents are outside the domain of the `_real` theorems" % (outside, len(real_cases)),
                 {"machinery": "real-canon"}, no_input=True)
    log("real_canon compared", len(real_cases), round(time.time() - T0, 1))
    c.cov["rule"] = ("sources = every example envelope under **/out/*.json that the code can still parse + generated invoices (calcgen.Gen, with notes/meta) "
                     "enveloped by the implementation; cases = re-encodings of the whole envelope text (shuffled members, whitespace, escapes) and single "
                     "edits of the serialised document enumerated over its JSON tree (kinds in edit_kinds; schema-defined additions from data/schemas); "
                     "quick samples the enumeration stratified by kind, thorough takes all; distinct = distinct (source, edit) pairs; non-trivial = the edited "
                     "text differs from the original as a JSON value (no-op reorders are not generated)")
    for e in all_edits[:3]:
        c.sample({"source": good[e[0]][0], "kind": e[1], "op": e[2], "path": e[3], "value": e[4]})
    if not proved:
        pr = c.proof
        c.report("proof obligations of Props/C08.v no longer check: " + (pr.get("make_log") or pr.get("log", ""))[-600:],
                 {"theorem": "rocq/Props/C08.v", "failed_files": pr.get("failed_files"), "forbidden": pr.get("forbidden")}, no_input=True)


def replay(path):
    r = json.load(open(path))["replay"]
    build_harness()
    if "edited_envelope" in r:
        out = run_go(["c08 sweep %s %s 0" % (w(r["original_envelope"]), w([r["edited_envelope"]]))], shards=1)[0]
        res = parse_wire(out)
        o = Obs(res[1][0])
        print("edit:", json.dumps(r.get("edit")))
        print("implementation: parse=%s validate=%s same-parsed-content=%s recalculated=%s digest %s" % (o.parse, o.validate, o.same, o.calc, o.new))
    elif "request_sequence" in r:
        build_cli()
        srv = ServeSession()
        try:
            h = srv.connect()
            for i, t in enumerate(r["request_sequence"]):
                print("request %d: %s%s" % (i + 1, srv.validate(h, t), "   (expected: %s)" % r["expected_of_the_last"] if i + 1 == len(r["request_sequence"]) else ""))
            h.close()
        finally:
            srv.close()
        print("the last text as the only request of a fresh process:", fresh_verdict(r["request_sequence"][-1]))
    elif "envelope" in r:
        out = run_go(["c08 orig " + w(r["envelope"])], shards=1)[0]
        o = Obs(parse_wire(out)[0])
        print("implementation: parse=%s validate=%s head=%s sha256(canon doc)=%s" % (o.parse, o.validate, o.head, o.sha))
    elif "case" in r:
        print("model:", run_oracle([r["case"]], shards=1)[0])
        print("implementation:", r.get("implementation"))
    return 0
