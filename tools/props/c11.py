import time
"""C11 - published JSON Schemas are valid and every valid document conforms.

Proof part (rocq/Props/C11.v): matcher and validator agree with their specifications; every shipped
schema file is well formed (except the recorded finding), every $ref resolves, every pattern is in
the supported subset; the schema's key / code patterns are the ones the Go code uses.

Sweep part (this file):
  (i)  every schema file: the Coq well-formedness report, cross-checked with python jsonschema's
       meta-schema check; unresolved references by the extracted model
  (ii) documents: every example output, generated invoices, field-level mutations of the examples.
       Each is run through Go (gobl.Parse -> Envelop/Calculate -> Validate -> json.Marshal).
       P: Go accepted  =>  the published schemas accept the serialised envelope and its document,
       judged by the EXTRACTED validator (bin/oracle) and by python jsonschema over the same files.
       The two validators are also compared on documents Go rejected (as given).
       Also: a sub-key at every enumerated key position of every document type (examples and rich documents), and
       documents written WITHOUT $regime with the supplier under every country code a regime answers to (own and
       alternative codes), through gobl.Parse and as a Go program assembles them (`c11 runapi`).
  (iii) the shipped patterns on generated strings: extracted matcher vs python re vs Go regexp."""
import copy
import glob
import re
import subprocess
import threading

from vlib import *
import vlib
import calcgen as cg
import c11lib as cl

LEVEL = "proof"
TRUSTED = [
    "translator harness/gen_schemas.go: JSON text -> Coq terms and the regular-expression parser (ECMA subset; cross-checked against python re and Go regexp on generated strings)",
    "python jsonschema 4.26 (draft 2020-12, FormatChecker: date and uuid checked, uri not) as the independent reading of the schema files",
    "document-level conformance (Go accepted => schema accepts) is established by sweep, not by theorem: it would need a model of every Validate method",
    "formats: date = YYYY-MM-DD calendar-valid with year >= 1 (python's reading; RFC 3339 also allows year 0000), uuid = 8-4-4-4-12 hex; "
    "$ in patterns is end of text (ECMA/Go), python's re also accepts a final newline - strings ending in a newline are not generated",
]
GOBL = "https://gobl.org/draft-0/"
PYJS = os.path.join(VERIF, "tools", "lib", "c11_pyjs.py")

F_DELIVERY = "C11-delivery-enum"
F_MXTAXID = "C11-mx-taxid-chars"
F_REGIME = "C11-regime-unchecked"
F_NULLELEM = "C11-null-list-element"
F_CATALOGUE = "C11-catalogue-def-not-validated"
F_NILSLICE = "C11-nil-slice-null"
F_UNVALIDATED = "C11-field-not-validated"


# ----------------------------------------------------------------------------------------------
# running the three sides
# ----------------------------------------------------------------------------------------------
def go_run(docs, op="run"):
    """[json-able] -> [(accepted, output envelope or None, kind)]; op: run (gobl.Parse of the JSON text) or runapi (the
    document as a Go program assembles it, see harness/c11.go)"""
    lines = ["c11 " + op + " x" + json.dumps(d, ensure_ascii=False).encode("utf-8", "surrogatepass").hex() for d in docs]
    res = []
    for o in run_go(lines):
        v = parse_wire(o)
        if len(v) == 2 and v[0] == b"ok":
            res.append((True, json.loads(v[1].decode()), "ok"))
        elif is_err(v):
            res.append((False, None, v[0][1].decode() if len(v[0]) > 1 else "err"))
        else:
            res.append((False, None, "unexpected:" + o[:80]))
    return res


def model_validate(pairs):
    """[(schema id, json)] -> ['valid'|'invalid'|'undetermined'|'unknown-schema'|...]"""
    lines = [cl.validate_line(i, j) for i, j in pairs]
    out = []
    for o in run_oracle(lines):
        v = parse_wire(o)
        if v == [1]:
            out.append("valid")
        elif v == [0]:
            out.append("invalid")
        elif is_err(v):
            out.append(v[0][1].decode())
        else:
            out.append("unexpected:" + o[:60])
    return out


def py_validate(pairs, nproc=8):
    """python jsonschema over the same files (python3-vt subprocesses). -> [{'v':..., 'errors': [...]}]"""
    if not pairs:
        return []
    lines = [json.dumps({"id": i, "doc": j}) for i, j in pairs]
    nproc = max(1, min(nproc, len(lines) // 50 + 1))
    n = (len(lines) + nproc - 1) // nproc
    parts = [lines[k:k + n] for k in range(0, len(lines), n)]
    outs = [None] * len(parts)

    def work(k, part):
        p = subprocess.run(["python3-vt", PYJS, REPO, "validate"], input="\n".join(part) + "\n",
                           stdout=subprocess.PIPE, stderr=subprocess.PIPE, text=True, timeout=3000)
        if p.returncode != 0:
            raise RuntimeError("python jsonschema worker failed: " + p.stderr[-800:])
        outs[k] = [json.loads(l) for l in p.stdout.splitlines() if l.strip()]
    ths = [threading.Thread(target=work, args=(k, part)) for k, part in enumerate(parts)]
    [t.start() for t in ths]
    [t.join() for t in ths]
    res = []
    for o, part in zip(outs, parts):
        if o is None or len(o) != len(part):
            raise RuntimeError("python jsonschema worker: %s results for %d requests" % (None if o is None else len(o), len(part)))
        res.extend(o)
    return res


def py_meta():
    p = subprocess.run(["python3-vt", PYJS, REPO, "meta"], stdout=subprocess.PIPE, stderr=subprocess.PIPE, text=True, timeout=600)
    if p.returncode != 0:
        raise RuntimeError("python metaschema check failed: " + p.stderr[-800:])
    return json.loads(p.stdout)


def coq_malformed_report():
    """Evaluates WellFormed.malformed_report on Gen.SchemasJson inside Coq. -> {path: [keyword, ...]}"""
    os.makedirs(WORK, exist_ok=True)
    name = "C11wf%d" % os.getpid()
    path = os.path.join(WORK, name + ".v")
    with open(path, "w") as f:
        f.write("From Coq Require Import List Strings.Byte NArith.\n"
                "From Verif Require Import Base.Wire Schema.WellFormed Gen.SchemasJson.\nImport ListNotations.\nOpen Scope N_scope.\n"
                "Definition outs := Eval vm_compute in map Byte.to_N (malformed_report shipped_schema_json).\nPrint outs.\n")
    with Lock("rocq"):
        rc, out = sh("timeout 600 coqc -Q %s Verif -Q %s W %s" % (ROCQ, WORK, path), timeout=700)
    for ext in (".v", ".vo", ".glob", ".vok", ".vos"):
        try:
            os.remove(os.path.join(WORK, name + ext))
        except OSError:
            pass
    try:
        os.remove(os.path.join(WORK, "." + name + ".aux"))
    except OSError:
        pass
    if rc != 0:
        raise RuntimeError("coq evaluation of malformed_report failed: " + out[-1500:])
    m = re.search(r"outs\s*=\s*\[(.*?)\]\s*%?N?\s*:\s*list", out, re.S)
    text = bytes(int(x) for x in re.findall(r"\d+", m.group(1))).decode()
    v = parse_wire(text)
    return {f[0].decode(): [k.decode() for k in f[1]] for f in v[0]}


# ----------------------------------------------------------------------------------------------
# documents
# ----------------------------------------------------------------------------------------------
def example_outputs():
    res = []
    for p in sorted(glob.glob(os.path.join(REPO, "**", "out", "*.json"), recursive=True)):
        if "/data/" in p or "/wasm/" in p or "/build/" in p:
            continue
        try:
            res.append((os.path.relpath(p, REPO), json.load(open(p))))
        except ValueError:
            pass
    return res


DATE_RE = re.compile(r"^\d{4}-\d{2}-\d{2}$")
AMOUNT_RE = re.compile(r"^-?[0-9]+(\.[0-9]+)?$")
PCT_RE = re.compile(r"^-?[0-9]+(\.[0-9]+)?%$")
KEY_RE = re.compile(r"^(?:[a-z]|[a-z0-9][a-z0-9-+]*[a-z0-9])$")
CODE_RE = re.compile(r"^[A-Za-z0-9]+([\.\-\/ _\:]?[A-Za-z0-9]+)*$")
UUID_RE = re.compile(r"^[0-9a-f]{8}-[0-9a-f]{4}-[0-9a-f]{4}-[0-9a-f]{4}-[0-9a-f]{12}$")

POOL = {
    "date": (["2024-02-29", "2000-02-29", "1900-02-28", "0001-01-01", "9999-12-31", "2023-12-31", "2022-02-01", "1999-01-01"],
             ["2023-02-29", "1900-02-29", "2023-04-31", "2023-13-01", "2023-00-10", "2023-01-00", "0000-01-01", "23-01-01", "2023-1-1",
              "2023-01-01T00:00:00", "２０２３-01-01", "2023-01-01 ", "2023/01/01", ""]),
    "datetime": (["2024-02-29T23:59:59", "0001-01-01T00:00:00", "2023-12-31T00:00:00"],
                 ["2022-01-01T10:00:00.5", "2022-01-01T10:00:00.000000001", "2022-01-01T10:00:00Z", "2022-01-01T10:00:00+01:00", "2022-01-01 10:00:00",
                  "2022-01-01T10:00", "2022-01-01T24:00:00", "2022-13-01T10:00:00", "2022-01-01t10:00:00", "2022-01-01", ""]),
    "amount": (["0", "-0", "-12.50", "0.000001", "123456789.12", "-0.5", "00012.30", "1", "99.999", "-1000000"],
               ["", "1.", ".5", "+5", "--5", "1e3", "1,5", "1.-5", " 1", "1 ", "１２", "NaN", "1.2.3"]),
    "percent": (["21%", "-5.5%", "0%", "21.0%", "100%", "0.001%"], ["21", "%", "21%%", "2 1%", "-%", "1.%"]),
    "key": (["a", "a1", "abc-def", "a+b", "a--b", "a-+b", "9a", "x" * 64, "standard", "reduced", "note"],
            ["A", "Ab", "a_b", "-a", "a-", "+a", "a+", "", "x" * 65, "a b", "ñ", "a.b"]),
    "code": (["A", "a1", "A-1", "A.B/C D_E:F", "Z" * 32, "0", "INV-001", "F1"],
             ["", "-A", "A-", "A--B", "Z" * 33, "A&B", "Ñ", "A  B", "A\tB", "K&A010301I16", "ÑAB010301I16"]),
    "uuid": (["0190d8e2-3b4c-7a6f-8d2e-0123456789ab", "3aea7b56-59d8-4beb-90bd-f8f280d852a0", "00000000-0000-0000-0000-000000000000",
              "6ba7b810-9dad-11d1-80b4-00c04fd430c8", "1ec9414c-232a-6b00-b3c8-9e6bdeced846"],
             ["3AEA7B56-59D8-4BEB-90BD-F8F280D852A0", "3aea7b56-59d8-4beb-90bd-f8f280d852a", "3aea7b5659d84beb90bdf8f280d852a0",
              "{3aea7b56-59d8-4beb-90bd-f8f280d852a0}", "urn:uuid:3aea7b56-59d8-4beb-90bd-f8f280d852a0", "g0000000-0000-0000-0000-000000000000", ""]),
    "currency": (["EUR", "USD", "JPY", "KWD", "MXN", "GBP"], ["eur", "EU", "EURO", "XXX", "", "E1R"]),
    "country": (["ES", "PT", "MX", "DE", "FR", "EL", "GB", "US"], ["es", "E", "ESP", "XX", "E1", ""]),
    "text": (["x", "Café Ñandú", "日本語", "a\nb", "\U0001f600", " "], [""]),
}
CUR_RE = re.compile(r"^[A-Z]{3}$")
CC_RE = re.compile(r"^[A-Z]{2}$")


DATETIME_RE = re.compile(r"^[0-9]{4}-[0-9]{2}-[0-9]{2}T[0-9]{2}:[0-9]{2}:[0-9]{2}$")


def classes_of(name, val):
    cs = []
    if DATETIME_RE.match(val):
        return ["datetime"]
    if DATE_RE.match(val):
        cs.append("date")
    if PCT_RE.match(val):
        cs.append("percent")
    if AMOUNT_RE.match(val):
        cs.append("amount")
    if UUID_RE.match(val) or name == "uuid":
        cs.append("uuid")
    if CUR_RE.match(val) and name in ("currency", "from", "to"):
        cs.append("currency")
    if CC_RE.match(val) and name in ("country", "$regime"):
        cs.append("country")
    if KEY_RE.match(val) and not cs:
        cs.append("key")
    if CODE_RE.match(val) and len(val) <= 32 and not DATE_RE.match(val):
        cs.append("code")
    if not cs:
        cs.append("text")
    return cs


ENUMS = {}


def load_enums():
    """member name -> the const values the published schemas enumerate for it (oneOf / anyOf of const, directly,
    in the items, or behind a $ref to a definition of this or another schema file)"""
    ENUMS.clear()
    files = {}
    for p in glob.glob(os.path.join(REPO, "data", "schemas", "**", "*.json"), recursive=True):
        try:
            j = json.load(open(p))
        except Exception:
            continue
        files[j.get("$id", p)] = j

    def resolve(root, ref):
        if not isinstance(ref, str):
            return None, None
        base, _, frag = ref.partition("#")
        doc = files.get(base) if base else root
        if doc is None:
            return None, None
        node = doc
        if frag:
            for part in frag.strip("/").split("/"):
                if isinstance(node, dict) and part in node:
                    node = node[part]
                else:
                    return None, None
        return doc, node

    def consts(root, holder, depth=0):
        out = []
        if not isinstance(holder, dict) or depth > 5:
            return out
        for k in ("oneOf", "anyOf"):
            if isinstance(holder.get(k), list):
                out += [y["const"] for y in holder[k] if isinstance(y, dict) and isinstance(y.get("const"), str)]
        if "$ref" in holder:
            doc, node = resolve(root, holder["$ref"])
            if node is not None and node is not holder:
                out += consts(doc, node, depth + 1)
        return out

    for root in files.values():
        def walk(x):
            if isinstance(x, dict):
                props = x.get("properties")
                if isinstance(props, dict):
                    for name, sub in props.items():
                        for holder in (sub, sub.get("items") if isinstance(sub, dict) else None):
                            cs = consts(root, holder)
                            if cs:
                                ENUMS.setdefault(name, set()).update(cs)
                for v in x.values():
                    walk(v)
            elif isinstance(x, list):
                [walk(y) for y in x]
        walk(root)
    for k in list(ENUMS):
        ENUMS[k] = sorted(ENUMS[k])


DROP = object()


def systematic(rng, bases, quick, rich_rot=0):
    """ONE change per document, enumerated rather than sampled: for every distinct member position (array indices
    generalised) of the examples, every rejected-class value and the length boundaries of its text class, and every
    value the published schemas enumerate for a member of that name.  Returns [(label, document)]."""
    items = []
    seen = {}
    per_key = 1 if quick else 4
    for name, b in bases:
        for path, parent, key, val in leaves(b):
            if not path or path[0] == "$schema" or path[-1] == "$schema":
                continue
            gp = tuple("*" if isinstance(x, int) else x for x in path)
            nm = key if isinstance(key, str) else (path[-2] if len(path) > 1 and isinstance(path[-2], str) else "")
            cands = [("drop", DROP)] if isinstance(key, str) else []      # a member left out (array elements are not members)
            if not isinstance(val, str):
                # objects, arrays, numbers, booleans: only their absence is probed here
                if quick and name.startswith("rich:") and (sum(map(ord, "/".join(map(str, gp)))) + rich_rot) % 6 != 0:
                    continue
                for tag, v in cands:
                    k = (gp, tag)
                    if seen.get(k, 0) >= per_key:
                        continue
                    seen[k] = seen.get(k, 0) + 1
                    m = copy.deepcopy(b)
                    pp = m
                    for x in path[:-1]:
                        pp = pp[x]
                    del pp[path[-1]]
                    items.append(("systematic:%s:%s" % (name, json.dumps([(tag, path, None)], default=str)[:300]), m))
                continue
            for cls in classes_of(nm, val):
                good, bad = POOL[cls]
                cands += [(cls + "-", v) for v in (bad if not (quick and cls == "code") else ["", "A-", "Z" * 33, "A&B", "A  B"])]
            # look-alikes outside ASCII (upper-case letters / digits of other scripts, 2-3 BYTES long): what a hand-written
            # unicode.IsUpper / IsDigit / len() test accepts where the published pattern is written over [A-Z0-9] / [a-z0-9]
            if re.fullmatch(r"[A-Za-z0-9+-]{1,16}", val):
                cands += [("uni", v) for v in ("\u03a9", "\u00d1A", "\u0661A", "\u00f1", "\u00e91")]
            # length boundaries of codes, keys and free text, whatever the class of the present value
            for v in (("A" * 33, "A" * 64, "A" * 65, "a" * 65, "A" * 256) if quick else
                      ("A" * 32, "A" * 33, "A" * 64, "A" * 65, "a" * 64, "a" * 65, "A" * 255, "A" * 256, "a" * 256)):
                cands.append(("len%d" % len(v), v))
            ev = ENUMS.get(nm, [])
            if quick and len(ev) > 100:
                ev = rng.sample(ev, 6)
            for v in ev:
                cands.append(("enum", v))
            if quick and name.startswith("rich:") and (sum(map(ord, "/".join(map(str, gp)))) + rich_rot) % 6 != 0:
                continue                    # a rotating sixth of the rich positions per quick run
            if quick and name.startswith("rich:"):
                # the rich documents have thousands of positions: three probes per position in the quick tier
                cands = [x for x in cands if x[0] == "drop"] + ([cands[rng.randrange(len(cands))]] if cands else []) + [("empty", "")]
            for tag, v in cands:
                # quick: every enumerated value once per member NAME (large enumerations sampled per position);
                # thorough: once per member position
                k = ((nm if quick and len(ENUMS.get(nm, [])) <= 100 else gp) if tag == "enum" else gp, tag, v)
                if (v is not DROP and v == val) or seen.get(k, 0) >= per_key:
                    continue
                seen[k] = seen.get(k, 0) + 1
                m = copy.deepcopy(b)
                pp = m
                for x in path[:-1]:
                    pp = pp[x]
                if v is DROP:
                    del pp[path[-1]]
                else:
                    pp[path[-1]] = v
                items.append(("systematic:%s:%s" % (name, json.dumps([(tag, path, None if v is DROP else v)], default=str)[:300]), m))
    return items


KEYLIKE_LIT = re.compile(r'"([a-z][a-z0-9]*(?:-[a-z0-9]+)*)"')
_LITS = []


def go_key_literals():
    """key-like string literals (no `+`) of the non-test Go source of the repository under test: the words an
    add-on or regime could accept as a sub-key"""
    if not _LITS:
        found = set()
        for f in glob.glob(os.path.join(REPO, "**", "*.go"), recursive=True):
            if f.endswith("_test.go") or "/examples/" in f:
                continue
            try:
                src = open(f, encoding="utf-8", errors="replace").read()
            except OSError:
                continue
            for m in KEYLIKE_LIT.finditer(src):
                if 3 <= len(m.group(1)) <= 24:
                    found.add(m.group(1))
        _LITS.extend(sorted(found))
    return _LITS


def schema_of(name, b):
    s = (doc_of(b) or b).get("$schema") if isinstance(b, dict) else None
    return s if isinstance(s, str) else name


def without_uuids(x):
    """a document without the identifiers the library makes up afresh on every run"""
    if isinstance(x, dict):
        return {k: without_uuids(v) for k, v in x.items() if k != "uuid"}
    if isinstance(x, list):
        return [without_uuids(v) for v in x]
    return x


def enum_subkeys(rng, docs, quick, rot=0):
    """Every member position (array indices generalised) of every document TYPE that holds a key and whose values the
    published schemas enumerate, with the present value extended by a sub-key (`note` -> `note+zz`): the key rules of the
    library (cbc.HasValidKeyIn and friends) look at the first component only, so wherever the library takes sub-keys the
    schema must leave the member open. A made-up sub-key or a key-like word of the Go source per position; the document's
    own `type` gets both and more words, once per add-on set (add-ons refine exactly these keys). Positions are counted
    per document type, so that no type is starved by the many invoices; quick tier: of the positions that only the rich
    documents have, a third per run (rotating with the seed), everything else on every run.  -> [(label, document)]"""
    items, seen = [], set()
    lits = go_key_literals()
    for name, b in docs:
        sid = schema_of(name, b)
        addons = tuple((doc_of(b) or b).get("$addons") or []) if isinstance(b, dict) else ()
        for path, parent, key, val in leaves(b):
            nm = key if isinstance(key, str) else (path[-2] if len(path) > 1 and isinstance(path[-2], str) else "")
            if nm not in ENUMS or not isinstance(val, str) or not KEY_RE.match(val) or "+" in val:
                continue
            gp = tuple("*" if isinstance(x, int) else x for x in path)
            top = gp in (("type",), ("doc", "type"))
            k = (sid, gp, addons if top else None)
            if k in seen:
                continue
            seen.add(k)
            if quick and not top and name.startswith("rich:") and (sum(map(ord, "/".join(gp))) + rot) % 3 != 0:
                continue            # positions only the (large) rich documents have: a rotating third per quick run
            made_up = rng.choice(["zz", "wallet", "x1"])
            if top:
                subs = [made_up] + rng.sample(lits, min(len(lits), 5 if quick else 40))
            else:
                subs = [made_up if rng.random() < 0.5 or not lits else rng.choice(lits)] if quick else [made_up] + rng.sample(lits, min(len(lits), 4))
            for sk in subs:
                m = copy.deepcopy(b)
                pp = m
                for x in path[:-1]:
                    pp = pp[x]
                pp[path[-1]] = val + "+" + sk
                items.append(("subkey:%s:%s" % (name, json.dumps([("enum-subkey+", path, val + "+" + sk)], default=str)[:300]), m))
    return items


STRUCTURED = ("complements", "identities", "ext", "tax_id")


def go_rematch(pairs):
    """[(pattern text, string)] -> [True | False | None (Go's regexp refuses the pattern text)]"""
    pairs = list(pairs)
    outs = run_go(["c11 rematch x%s x%s" % (p.encode().hex(), s.encode("utf-8", "surrogatepass").hex()) for p, s in pairs]) if pairs else []
    return [True if o.strip() == "1" else False if o.strip() == "0" else None for o in outs]


def regex_shaped(c, docs, quick):
    """Members that a regime or add-on validates with its OWN regular expression: the expression literals of the Go files
    under regimes/<cc> and addons/<cc> (tools/lib/c11rx.py), and for every string member position (indices generalised,
    per schema and country) of the documents of that country (examples and rich documents; by $regime, supplier country,
    add-on prefix or directory name):
      - an expression the PRESENT value satisfies (the one that may well govern the member): strings of the expression's
        language with one / every position taken from outside the code alphabet where the expression offers it, and the
        present value with one character replaced by a non-alphanumeric character the expression still allows;
      - any other expression of the country, at the members of complements / identities / extensions / tax ids and of
        the regime's own document types: one string of its language.
    Every string is confirmed by Go's regexp. Go first; what the library accepts gets the schema's verdict.
    -> ([(label, document)], coverage)"""
    import c11rx
    rng = c.rng
    pats = c11rx.harvest(REPO)
    ok = go_rematch([(p, "") for cc in sorted(pats) for p in pats[cc]])
    it = iter(ok)
    pats = {cc: [p for p in pats[cc] if next(it) is not None] for cc in sorted(pats)}
    pos, seen = [], set()
    for name, d in docs:
        if not isinstance(d, dict):
            continue
        sup = d.get("supplier") if isinstance(d.get("supplier"), dict) else {}
        tid = sup.get("tax_id") if isinstance(sup.get("tax_id"), dict) else {}
        ccs = {str(d.get("$regime")), str(tid.get("country"))} | {str(a)[:2].upper() for a in (d.get("$addons") or [])}
        ccs |= {x.upper() for x in re.findall(r"(?<![a-z0-9])([a-z]{2})(?![a-z0-9])", name.split(":", 1)[-1])}
        ccs = sorted(x for x in ccs if pats.get(x))
        if not ccs:
            continue
        sid = schema_of(name, d)
        own_type = "/regimes/" in sid or "/addons/" in sid
        for path, parent, key, val in leaves(d):
            if not isinstance(val, str) or not val or path[-1] == "$schema" or key == "uuid" or len(val) > 200:
                continue
            gp = tuple("*" if isinstance(x, int) else x for x in path)
            for cc in ccs:
                if (sid, gp, cc) in seen:
                    continue
                seen.add((sid, gp, cc))
                pos.append((name, d, path, val, cc, own_type or any(x in STRUCTURED for x in gp)))
    present = [(p, val) for (_, _, _, val, cc, _) in pos for p in pats[cc]]
    uniq = sorted(set(present))
    match = dict(zip(uniq, go_rematch(uniq)))
    cand = []                       # (position index, pattern, string, kind)
    for i, (name, d, path, val, cc, structured) in enumerate(pos):
        for p in pats[cc]:
            if match.get((p, val)):
                cand += [(i, p, s, "rx-sample") for s in c11rx.samples(rng, p, 2 if quick else 6)]
                cand += [(i, p, s, "rx-neighbour") for s in c11rx.neighbours(rng, p, val, 24 if quick else 200)]
            elif structured:
                cand += [(i, p, s, "rx-sample") for s in c11rx.samples(rng, p, 1)[:1]]
    uniq = sorted({(p, s) for _, p, s, _ in cand})
    okm = dict(zip(uniq, go_rematch(uniq)))
    items, nb = [], {}
    for i, p, s, kind in cand:
        name, d, path, val, cc, structured = pos[i]
        if not okm.get((p, s)) or s == val:
            continue
        if kind == "rx-neighbour":
            if nb.get((i, p), 0) >= (2 if quick else 12):
                continue
            nb[(i, p)] = nb.get((i, p), 0) + 1
        m = copy.deepcopy(d)
        pp = m
        for x in path[:-1]:
            pp = pp[x]
        pp[path[-1]] = s
        items.append(("regex-shaped:%s:%s" % (name, json.dumps([(kind, path, s, p)], ensure_ascii=False, default=str)[:400]), m))
    cov = {"expressions": {cc: len(v) for cc, v in pats.items()}, "positions": len(pos),
           "positions_whose_value_satisfies_an_expression": len({i for i, (_, _, _, val, cc, _) in enumerate(pos) if any(match.get((p, val)) for p in pats[cc])}),
           "strings_confirmed_by_go_regexp": sum(1 for v in okm.values() if v), "strings_refused": sum(1 for v in okm.values() if not v)}
    return items, cov


def go_regimes():
    """[(own code, [alternative codes])] of every regime registered in the repository under test"""
    v = parse_wire(run_go(["c11 regimes"])[0])
    return [(r[0].decode(), [x.decode() for x in r[1:]]) for r in v[0]]


def minimal_documents():
    """the four document kinds as a user first writes them: nothing the calculation derives ($regime, currency, type,
    dates, totals) is present"""
    sup = {"name": "Supplier Ltd", "tax_id": {"country": "ES"}}
    cust = {"name": "Customer"}
    line = {"quantity": "3", "item": {"name": "Crate", "price": "10.00"}}
    return [
        ("minimal:bill/invoice", {"$schema": GOBL + "bill/invoice", "code": "INV-1", "supplier": sup, "customer": cust,
                                  "lines": [dict(line, taxes=[{"cat": "VAT", "rate": "standard"}])]}),
        ("minimal:bill/invoice-untaxed", {"$schema": GOBL + "bill/invoice", "code": "INV-1", "supplier": sup, "customer": cust, "lines": [line]}),
        ("minimal:bill/order", {"$schema": GOBL + "bill/order", "code": "ORD-1", "supplier": sup, "customer": cust, "lines": [line]}),
        ("minimal:bill/delivery", {"$schema": GOBL + "bill/delivery", "code": "DLV-1", "supplier": sup, "customer": cust, "lines": [line]}),
        ("minimal:bill/payment", {"$schema": GOBL + "bill/payment", "code": "PAY-1", "issue_date": "2024-06-13", "supplier": sup, "customer": cust,
                                  "method": {"key": "credit-transfer"}, "lines": [{"document": {"code": "INV-1"}, "credit": "10.00"}]}),
    ]


def derived_regime(rng, regs, docs, quick):
    """Documents written WITHOUT `$regime` (the calculation derives it from the supplier's tax country), the supplier
    placed in every country code a regime is registered under. Every document: every ALTERNATIVE code, the code of its
    own regime and one country without a regime; the minimal documents (and every document in the thorough tier): every
    regime's own code as well, the others three of them drawn from the seed.  -> [(label, document)] (bare documents)"""
    items = []
    own = [o for o, _ in regs]
    alts = [a for _, al in regs for a in al]
    for name, d in docs:
        if not isinstance(d, dict) or not isinstance(d.get("supplier"), dict):
            continue
        tid = d["supplier"].get("tax_id") if isinstance(d["supplier"].get("tax_id"), dict) else {}
        codes = alts + ["JP"] + (own if (not quick or name.startswith("minimal:")) else
                                 sorted({c for c in (tid.get("country"), d.get("$regime")) if c in own} | set(rng.sample(own, min(3, len(own))))))
        for code in codes:
            m = copy.deepcopy(d)
            m.pop("$regime", None)
            # the tax code belongs to the original country: kept only there
            m["supplier"]["tax_id"] = dict(tid, country=code) if tid.get("country") == code else {"country": code}
            items.append(("derived-regime:%s:%s" % (name, json.dumps([("supplier-country", ["supplier", "tax_id", "country"], code), ("drop", ["$regime"], None)])), m))
    return items


def leaves(j, path=()):
    """all (path, parent, key, value) positions of a JSON value"""
    if isinstance(j, dict):
        for k, v in j.items():
            yield (path + (k,), j, k, v)
            yield from leaves(v, path + (k,))
    elif isinstance(j, list):
        for i, v in enumerate(j):
            yield (path + (i,), j, i, v)
            yield from leaves(v, path + (i,))


def mutate(rng, doc, stats):
    """returns a deep copy of doc with 1-3 field-level changes and the list of changes made"""
    d = copy.deepcopy(doc)
    changes = []
    for _ in range(rng.choice([1, 1, 1, 2, 3])):
        pos = [p for p in leaves(d) if p[0] and p[0][0] not in ("$schema",) and p[0][-1] != "$schema"]
        if not pos:
            break
        path, parent, key, val = rng.choice(pos)
        r = rng.random()
        if r < 0.18:
            del parent[key]
            changes.append(("drop", path))
            stats["drop"] = stats.get("drop", 0) + 1
            continue
        if isinstance(val, str):
            name = key if isinstance(key, str) else (path[-2] if len(path) > 1 and isinstance(path[-2], str) else "")
            cls = rng.choice(classes_of(name, val))
            good, bad = POOL[cls]
            valid = rng.random() < 0.7
            nv = rng.choice(good if valid else bad)
            if cls == "date" and valid and rng.random() < 0.5:
                y, m = rng.randint(1, 9999), rng.randint(1, 12)
                dim = [31, 29 if (y % 4 == 0 and y % 100 != 0) or y % 400 == 0 else 28, 31, 30, 31, 30, 31, 31, 30, 31, 30, 31][m - 1]
                nv = "%04d-%02d-%02d" % (y, m, rng.randint(1, dim))
            if cls == "amount" and valid and rng.random() < 0.5:
                nv = cg.fmt(cg.A(rng.randrange(-10 ** rng.randint(1, 9), 10 ** rng.randint(1, 9)), rng.randint(0, 6)))
            if name in ENUMS and rng.random() < 0.4:
                # another value the published schema enumerates for this member
                cls, valid, nv = "enum", True, rng.choice(ENUMS[name])
            parent[key] = nv
            changes.append((cls + ("+" if valid else "-"), path, nv))
            stats[cls] = stats.get(cls, 0) + 1
        elif isinstance(val, bool):
            parent[key] = not val
            changes.append(("flip", path))
        elif isinstance(val, (int, float)):
            parent[key] = rng.choice([0, 1, -1, 7, 1.5, 1e3, 2 ** 40, "1"])
            changes.append(("num", path, parent[key]))
            stats["number"] = stats.get("number", 0) + 1
        elif isinstance(val, dict) and key in ("ext", "meta") and r < 0.7:
            good, bad = POOL["key"]
            k2 = rng.choice(good + bad)
            val[k2] = rng.choice(POOL["code"][0] + POOL["code"][1]) if key == "ext" else rng.choice(POOL["text"][0])
            changes.append(("map-entry", path, k2, val[k2]))
            stats["map-entry"] = stats.get("map-entry", 0) + 1
        elif isinstance(val, list) and val and r < 0.6:
            val.append(copy.deepcopy(rng.choice(val)))
            changes.append(("dup-elem", path))
        else:
            parent[key] = rng.choice([None, "", [], {}, "x", 1])
            changes.append(("retype", path))
            stats["retype"] = stats.get("retype", 0) + 1
    return d, changes


def doc_of(env):
    d = env.get("doc") if isinstance(env, dict) else None
    return d if isinstance(d, dict) else None


def targets(env):
    """the (schema id, instance) pairs an envelope gives rise to"""
    t = []
    if isinstance(env, dict) and isinstance(env.get("$schema"), str):
        t.append((env["$schema"], env))
        d = doc_of(env)
        if d is not None and isinstance(d.get("$schema"), str):
            t.append((d["$schema"], d))
        # embedded objects that carry their own $schema (complements): the enclosing schema only says "an object"
        root = d if d is not None else env

        def nested(x, top):
            if isinstance(x, dict):
                if not top and isinstance(x.get("$schema"), str):
                    t.append((x["$schema"], x))
                for v in x.values():
                    nested(v, False)
            elif isinstance(x, list):
                for v in x:
                    nested(v, False)
        nested(root, True)
    return t


_LEAF = {}


def leaf_ok(kind, value):
    """the value type's own rule in Go: cbc.Code(v).Validate() / cbc.Key(v).Validate()"""
    k = (kind, value)
    if k not in _LEAF:
        o = run_go(["c11 leaf %s x%s" % (kind, value.encode("utf-8", "surrogatepass").hex())])[0]
        _LEAF[k] = parse_wire(o) == [1]
    return _LEAF[k]


_RULES = {}


def go_rules():
    """cbc.KeyPattern / cbc.CodePattern as the repository under test defines them (read from the
    schema files' own definitions would beg the question: these come from the Go source text)."""
    if not _RULES:
        for name, f, var in (("key", "cbc/key.go", "KeyPattern"), ("code", "cbc/code.go", "CodePattern")):
            src = open(os.path.join(REPO, f)).read()
            m = re.search(r"\b%s\s*=\s*`([^`]*)`" % var, src)
            _RULES[name] = m.group(1) if m else None
    return _RULES


def at_value(inst, at):
    x = inst
    for k in at:
        x = x[int(k)] if isinstance(x, list) else x[k]
    return x


# the recorded call sites of C11-field-not-validated (findings/C11.json witness.locations): a Code / Key typed member
# that no Validate method reaches.  An unvalidated member ANYWHERE ELSE is a new violation.
UNVALIDATED_LOCS = [re.compile(x) for x in (
)]


def classify(e, inst, sid):
    """maps ONE schema error on a Go-accepted document to the recorded finding it is an instance of,
    or None (= a new failing input)."""
    at = e.get("at", [])
    kw = e.get("kw")
    if e.get("malformed"):
        # an error produced by an ill-typed keyword: only the recorded one is excused
        return F_DELIVERY if (sid == GOBL + "bill/delivery" and kw == "enum" and at == ["type"]) else None
    try:
        val = at_value(inst, at)
    except (KeyError, IndexError, ValueError, TypeError):
        return None
    # C11-mx-taxid-chars: pattern of tax_id.code, country MX, code with & or N-tilde
    if kw == "pattern" and len(at) >= 2 and at[-1] == "code" and at[-2] == "tax_id":
        try:
            tid = at_value(inst, at[:-1])
        except (KeyError, IndexError, ValueError, TypeError):
            tid = None
        if isinstance(tid, dict) and tid.get("country") == "MX" and isinstance(val, str) and re.search("[&Ñ]", val) \
                and re.fullmatch("[A-ZÑ&0-9]+", val):
            return F_MXTAXID
    # C11-catalogue-def-not-validated: tax.CatalogueDef has no Validate method
    if sid == GOBL + "tax/catalogue-def" and (not at or at[0] in ("key", "name", "description", "extensions")):
        return F_CATALOGUE
    # C11-regime-unchecked (DESIGN section 8 #24): $regime is never checked by the library
    if at and at[-1] == "$regime" and isinstance(val, str):
        return F_REGIME
    # C11-null-list-element: a null element of a list of objects is accepted and serialised as null
    if kw == "type" and val is None and at and at[-1].isdigit():
        return F_NULLELEM
    # C11-nil-slice-null: a nil slice in a member without omitempty is serialised as null
    if kw == "type" and val is None and e.get("kw_value") == "array" and at and not at[-1].isdigit() \
            and re.fullmatch(r"bill/payment:(lines/\*/document/)?tax/categories/\*/rates",
                             "%s:%s" % (sid[len(GOBL):] if sid.startswith(GOBL) else sid, "/".join("*" if x.isdigit() else x for x in at))):
        return F_NILSLICE
    # C11-field-not-validated: a Code / Key typed field that the library does not validate - the
    # value type's OWN Validate() rejects the value, the parent never calls it
    loc = "%s:%s" % (sid[len(GOBL):] if sid.startswith(GOBL) else sid, "/".join("*" if x.isdigit() else x for x in at))
    if kw in ("pattern", "minLength", "maxLength") and isinstance(val, str) and any(r.fullmatch(loc) for r in UNVALIDATED_LOCS):
        rules = go_rules()
        for kind in ("code", "key"):
            # (an empty value passes the type's own rule - presence is the parent's `Required` - so an
            # empty Code / Key in a member without omitempty is the same missing parent validation)
            if e.get("leaf_pattern") is not None and e.get("leaf_pattern") == rules.get(kind) and (val == "" or not leaf_ok(kind, val)):
                return F_UNVALIDATED
    return None


def is_year0(e):
    """python's datetime has no year 0000 (RFC 3339 allows it): a format error on an otherwise real date of year 0000 is
    python's divergence, not the document's fault - but 0000-00-00 (the zero date) is no date in any year"""
    v = e.get("value")
    if not (e.get("kw") == "format" and isinstance(v, str) and v.startswith("0000-")):
        return False
    m = re.match(r"^0000-(\d\d)-(\d\d)", v)
    if not m:
        return False
    try:
        import datetime
        datetime.date(2000, int(m.group(1)), int(m.group(2)))      # 0000 is a leap year in the proleptic calendar, like 2000
        return True
    except ValueError:
        return False


def py_effective(p):
    """python's verdict without its year-0000 format errors (python's datetime cannot represent year
    0000, which RFC 3339 allows: the one known divergence). -> (verdict, number of such errors)"""
    errs = p.get("errors", [])
    y0 = [e for e in errs if is_year0(e)]
    if not y0 or p["v"] not in ("invalid",):
        return p["v"], 0
    rest = [e for e in errs if not is_year0(e)]
    if any(not e.get("malformed") for e in rest):
        return "invalid", len(y0)
    if rest or p.get("crashed"):
        return "undetermined", len(y0)
    return "valid", len(y0)


def shrink(doc, still_fails, budget=80):
    """greedy removal of members / elements while the failure persists"""
    cur = copy.deepcopy(doc)
    n = 0
    changed = True
    while changed and n < budget:
        changed = False
        for path, parent, key, val in sorted(leaves(cur), key=lambda p: -len(json.dumps(p[3]))):
            if n >= budget:
                break
            if path[-1] == "$schema":
                continue
            cand = copy.deepcopy(cur)
            x = cand
            for k in path[:-1]:
                x = x[k]
            del x[path[-1]]
            n += 1
            if still_fails(cand):
                cur = cand
                changed = True
                break
    return cur


def fails_P(c, doc, op="run"):
    """Go accepts doc and a published schema rejects its output (model and python agree) with at least one
    error that is not an instance of a recorded finding. -> (bool, detail)"""
    acc, out, kind = go_run([doc], op)[0]
    if not acc:
        return False, None
    tg = targets(out)
    mv = model_validate(tg)
    pv = py_validate(tg, nproc=1)
    for (sid, inst), m, p in zip(tg, mv, pv):
        if m == "invalid" and p["v"] == "invalid":
            new = [e for e in p["errors"] if not is_year0(e) and not (classify(e, inst, sid) and c.known(classify(e, inst, sid)))]
            if new:
                return True, {"schema": sid, "output": out, "model": m, "python": dict(p, errors=new[:6])}
    return False, None


# ----------------------------------------------------------------------------------------------
# the check
# ----------------------------------------------------------------------------------------------
def check_schema_files(c):
    """(i) every schema file"""
    files = sorted(os.path.relpath(p, os.path.join(REPO, "data", "schemas")).replace(os.sep, "/")
                   for p in glob.glob(os.path.join(REPO, "data", "schemas", "**", "*.json"), recursive=True))
    known = c.known(F_DELIVERY)
    try:
        coq = coq_malformed_report()
    except RuntimeError as e:
        c.report("well-formedness report could not be evaluated in Coq: %s" % e, {"theorem": "rocq/Schema/WellFormed.v malformed_report"}, no_input=True)
        coq = None
    meta = py_meta()
    c.cov["schema_files"] = len(files)
    c.cov["malformed"] = {}
    for f in files:
        c.count("schema-files", 1, f)
        bad_coq = coq.get(f) if coq is not None else None
        bad_py = meta.get(f)
        if coq is not None and f not in coq:
            c.report("schema file %s is not in the generated Gen/SchemasJson.v" % f, {"correspondence": "translator:schema-files", "file": f}, no_input=True)
            continue
        if coq is not None and bool(bad_coq) != bool(bad_py):
            c.report("oracle disagreement on schema file %s: Coq well-formedness says %s, python jsonschema check_schema says %s" % (f, bad_coq, bad_py),
                     {"correspondence": "oracle:C11:schema-files", "file": f, "coq": bad_coq, "python": bad_py}, no_input=True)
        kws = bad_coq if bad_coq else ([bad_py["path"][-1]] if bad_py and bad_py.get("path") else (["?"] if bad_py else []))
        for kw in kws:
            c.cov["malformed"].setdefault(f, []).append(kw)
            what = "published schema %s is not a valid JSON Schema: keyword `%s` has a value of the wrong type (%s)" % (
                f, kw, (bad_py or {}).get("message", "see Coq report"))
            fid = F_DELIVERY if (f == "bill/delivery.json" and kw == "enum") else None
            c.report(what, {"schema_file": "data/schemas/" + f, "keyword": kw, "metaschema_error": bad_py,
                            "clause": "each published schema file is itself a valid JSON Schema (draft 2020-12)"}, finding_id=fid)
    # references, by the extracted model
    outs = run_oracle(["c11 refs x" + f.encode().hex() for f in files], shards=1)
    for f, o in zip(files, outs):
        v = parse_wire(o)
        if is_err(v):
            c.report("schema file %s unknown to the extracted model (%s)" % (f, o), {"correspondence": "translator:schema-files", "file": f}, no_input=True)
            continue
        for r in v[0]:
            c.report("published schema %s has a $ref that does not resolve: %s" % (f, r.decode()),
                     {"schema_file": "data/schemas/" + f, "ref": r.decode(), "clause": "resolvable references"})
    # registered types and files
    ids = [x.decode() for x in parse_wire(run_go(["c11 types"])[0])[0]]
    have = {GOBL + f[:-5] for f in files}
    for i in ids:
        if i not in have:
            c.report("registered type %s has no published schema file" % i, {"schema_id": i, "clause": "the published schema for its type"})
    c.cov["registered_types"] = len(ids)
    c.cov["files_without_registered_type"] = sorted(have - set(ids))
    return files


def judge(c, stream, items, state, pre=None, doc_only=False, op="run"):
    """items: [(label, input document)]. Runs Go (or takes its results from pre), validates outputs (accepted) or inputs
    (rejected). doc_only: the envelope around the document is not validated again (its schema says nothing about the document).
    op: the entry point the documents went / go through (go_run)."""
    res = pre if pre is not None else go_run([d for _, d in items], op)
    pairs, meta = [], []
    for (label, d), (acc, out, kind) in zip(items, res):
        state["go"][kind] = state["go"].get(kind, 0) + 1
        if acc:
            tg = targets(out)
            if doc_only and len(tg) > 1 and tg[0][0].endswith("/envelope"):
                tg = tg[1:]
            for sid, inst in tg:
                pairs.append((sid, inst))
                meta.append((label, d, True, out))
        else:
            for sid, inst in (targets(d) if isinstance(d, dict) else []):
                pairs.append((sid, inst))
                meta.append((label, d, False, None))
    def _model():
        try:
            return model_validate(pairs)
        except cl.BadNumber:
            out_ = []
            for p in pairs:
                try:
                    out_.extend(model_validate([p]))
                except cl.BadNumber:
                    out_.append("skipped-number")
            return out_
    box = {}
    th_ = threading.Thread(target=lambda: box.__setitem__("mv", _model()))
    th_.start()                                  # the two readings of the schema side by side
    pv = py_validate(pairs, nproc=16)
    th_.join()
    mv = box.get("mv")
    if mv is None:
        mv = _model()
    for (sid, inst), (label, d, acc, out), m, p in zip(pairs, meta, mv, pv):
        if m == "skipped-number":
            continue
        key = json.dumps(inst, sort_keys=True)
        c.count(stream + ("/go-accepted" if acc else "/go-rejected(validators compared)"), 1, (sid, key))
        pvv, ny0 = py_effective(p)
        if ny0:
            state["python_year0"] = state.get("python_year0", 0) + 1
            p = dict(p, errors=[e for e in p["errors"] if not is_year0(e)])
        state["verdicts"][(acc, m, pvv)] = state["verdicts"].get((acc, m, pvv), 0) + 1
        if m == "unknown-schema" and pvv == "unknown-schema":
            if acc:
                c.report("Go accepted a document whose schema %s is not published" % sid, {"document": d, "schema": sid})
            continue
        if p.get("crashed") and m in ("invalid", "undetermined") and pvv == "undetermined":
            # python stops at the first unresolvable reference / ill-typed keyword it trips over; the model's
            # three-valued evaluation may already know the document is invalid for another reason
            pvv = m
        if m != pvv:
            # the two readings of the schema disagree
            if state["disagree"] < 3:
                c.report("validator disagreement on (%s, %s document): extracted model says %s, python jsonschema says %s %s" % (
                    sid, "Go-accepted" if acc else "Go-rejected", m, pvv, p.get("errors", [])[:2]),
                    {"correspondence": "oracle:C11:%s" % stream, "schema": sid, "instance": inst, "model": m, "python": dict(p, errors=p.get("errors", [])[:6]), "label": label}, no_input=True)
            state["disagree"] += 1
            continue
        if not acc or m == "valid":
            continue
        if m == "undetermined":
            fid = F_DELIVERY if (sid == GOBL + "bill/delivery" and all(classify(e, inst, sid) == F_DELIVERY for e in p.get("errors", []))
                                 and p.get("errors") and not p.get("crashed")) else None
            if fid is None:
                state["undetermined"] = state.get("undetermined", 0) + 1
                if state["undetermined"] > 2:
                    continue
            c.report("the published schema %s has no defined verdict on a document the library accepted (ill-typed keyword or unresolvable reference): %s" % (
                sid, [e["msg"] for e in p.get("errors", [])[:1]] or p.get("crashed")),
                {"document": d, "schema": sid, "python": dict(p, errors=p.get("errors", [])[:6])}, finding_id=fid)
            continue
        # Go accepted, both validators reject
        new = []
        for e in p["errors"]:
            fid = classify(e, inst, sid)
            if fid and c.known(fid):
                loc = "%s:%s" % (sid[len(GOBL):], "/".join("*" if x.isdigit() else x for x in e["at"]))
                state["finding_locations"].setdefault(fid, {})
                state["finding_locations"][fid][loc] = state["finding_locations"][fid].get(loc, 0) + 1
                c.report("%s at %s: %s" % (sid[len(GOBL):], "/".join(e["at"]), e["msg"]), {"document": d}, finding_id=fid)
            else:
                new.append(e)
        if not new:
            continue
        for e in new:
            loc = "%s:%s:%s" % (sid[len(GOBL):], "/".join("*" if x.isdigit() else x for x in e.get("at", [])), e.get("kw"))
            ul = state.setdefault("unexplained_locations", {})
            if loc not in ul:
                ul[loc] = {"count": 0, "example_value": repr(e.get("value"))[:80], "label": label[:160]}
            ul[loc]["count"] += 1
        # a failing input that no recorded finding explains
        if state["reported"] >= 3:
            state["reported"] += 1
            continue
        state["reported"] += 1
        f0, det0 = fails_P(c, d, op)
        small = shrink(d, lambda x: fails_P(c, x, op)[0]) if f0 else d
        f, det = fails_P(c, small, op)
        if not f:
            small, det = d, {"schema": sid, "output": out, "model": m, "python": dict(p, errors=new[:6])}
        c.report("the library accepted a document that its published schema %s rejects: %s" % (det["schema"], [e["msg"] for e in det["python"].get("errors", [])[:2]]),
                 {"document": small, "schema": det["schema"], "go": "accepted", "serialised_output": det["output"], "model_validator": det["model"],
                  "python_jsonschema": det["python"], "label": label, "entry_point": op,
                  "clause": "every envelope or document that calculates and validates successfully serialises to JSON that the published schema for its type accepts"})


def pattern_strings(rng, src, n):
    alpha = "abcxyzABCXYZ0123456789-+._/: %ñÑ&日T\t"
    out = []
    seeds = {"^(?:[a-z]|[a-z0-9][a-z0-9-+]*[a-z0-9])$": ["a", "standard", "a-b", "a+b", "9z"],
             "^[A-Za-z0-9]+([\\.\\-\\/ _\\:]?[A-Za-z0-9]+)*$": ["A", "A-1", "INV 001", "a.b/c:d_e"],
             "^\\-?[0-9]+(\\.[0-9]+)?$": ["0", "-1.50", "12"], "^\\-?[0-9]+(\\.[0-9]+)?%$": ["21%", "-0.5%"],
             "^[0-9]{4}-[0-9]{2}-[0-9]{2}T[0-9]{2}:[0-9]{2}:[0-9]{2}$": ["2023-01-01T10:00:00"]}.get(src, ["AB", "ab", "A1"])
    for _ in range(n):
        r = rng.random()
        if r < 0.3:
            s = "".join(rng.choice(alpha) for _ in range(rng.randint(0, 12)))
        else:
            s = list(rng.choice(seeds))
            for _ in range(rng.choice([0, 1, 1, 2])):
                k = rng.random()
                i = rng.randint(0, len(s))
                if k < 0.4:
                    s.insert(i, rng.choice(alpha))
                elif k < 0.7 and s:
                    s.pop(min(i, len(s) - 1))
                elif s:
                    s[min(i, len(s) - 1)] = rng.choice(alpha)
            s = "".join(s)
        out.append(s)
    return out


def check_patterns(c, n):
    """(iii) the shipped patterns: extracted matcher vs python re vs Go regexp"""
    pats = set()
    for p in glob.glob(os.path.join(REPO, "data", "schemas", "**", "*.json"), recursive=True):
        def walk(x):
            if isinstance(x, dict):
                for k, v in x.items():
                    if k == "pattern" and isinstance(v, str):
                        pats.add(v)
                    if k == "patternProperties" and isinstance(v, dict):
                        pats.update(v.keys())
                    walk(v)
            elif isinstance(x, list):
                [walk(y) for y in x]
        walk(json.load(open(p)))
    c.cov["patterns"] = sorted(pats)
    bad = 0
    for src in sorted(pats):
        strs = pattern_strings(c.rng, src, n)
        mo = run_oracle(["c11 match x%s x%s" % (src.encode().hex(), s.encode().hex()) for s in strs], shards=1)
        go = run_go(["c11 rematch x%s x%s" % (src.encode().hex(), s.encode().hex()) for s in strs], shards=1)
        pyre = re.compile(src)
        for s, a, b in zip(strs, mo, go):
            py = "1" if pyre.search(s) else "0"
            c.count("patterns", 1, (src, s))
            if not (a == b == py) and bad < 3:
                bad += 1
                c.report("pattern %r on %r: extracted matcher %s, Go regexp %s, python re %s" % (src, s, a, b, py),
                         {"correspondence": "oracle:C11:patterns", "pattern": src, "string": s, "model": a, "go": b, "python": py}, no_input=True)
    # formats through the real schemas cal/date (format date) and head/header's uuid
    dates = POOL["date"][0] + POOL["date"][1] + ["%04d-%02d-%02d" % (c.rng.randint(0, 2400), c.rng.randint(0, 13), c.rng.randint(0, 32)) for _ in range(n)]
    pairs = [(GOBL + "cal/date", d) for d in dates]
    for (sid, d), m, p in zip(pairs, model_validate(pairs), py_validate(pairs, nproc=1)):
        c.count("formats", 1, d)
        if m != p["v"] and not (m == "valid" and d.startswith("0000-")) and bad < 6:
            bad += 1
            c.report("format date on %r: extracted model %s, python jsonschema %s" % (d, m, p["v"]),
                     {"correspondence": "oracle:C11:formats", "string": d, "model": m, "python": p}, no_input=True)


T0 = time.time()


def run(c):
    quick = c.tier == "quick"
    if not std_builds(c):
        return
    ok, out = vlib.translate()
    if not ok:
        c.report("the translator refused the repository's schema files (outside the modelled subset, or unreadable): " + out[-800:],
                 {"theorem": "harness/gen_schemas.go -> rocq/Gen/Schemas.v", "translator_output": out[-2000:]}, no_input=True)
        return
    proved = c.prove()
    if not proved:
        pr = c.proof
        log_ = (pr.get("make_log") or pr.get("log", ""))
        m = re.search(r'File "[^"]*Props/C11.v", line (\d+)', log_)
        thm = None
        if m:
            src = open(os.path.join(ROCQ, "Props", "C11.v")).read().split("\n")[:int(m.group(1))]
            names = [re.match(r"\s*(?:Theorem|Example)\s+([A-Za-z0-9_']+)", l) for l in src]
            names = [x.group(1) for x in names if x]
            thm = names[-1] if names else None
        c.report("proof obligations of Props/C11.v no longer check%s: %s" % (" (theorem %s)" % thm if thm else "", log_[-500:]),
                 {"theorem": "rocq/Props/C11.v" + (":" + thm if thm else ""), "failed_files": pr.get("failed_files"), "forbidden": pr.get("forbidden")}, no_input=True)
    ok, out = build_oracle()
    if not ok:
        c.report("extraction/oracle build failed: " + out[-800:], {"machinery": "oracle"}, no_input=True)
        return
    cg.reset_tables()
    load_enums()

    check_schema_files(c)
    c.cov.setdefault("phase_s", {})["schema-files"] = round(time.time() - T0, 1)

    state = {"go": {}, "verdicts": {}, "disagree": 0, "reported": 0, "finding_locations": {}}
    ex = example_outputs()
    c.cov["example_outputs"] = len(ex)
    items = []
    for name, env in ex:
        items.append(("example:" + name, env))
        if doc_of(env) is not None:
            items.append(("example-doc:" + name, doc_of(env)))
    judge(c, "examples", items, state)
    c.cov.setdefault("phase_s", {})["examples"] = round(time.time() - T0, 1)
    # rich synthetic documents: every member of every registered type populated (harness/c14rich.go), repaired by name rules
    # into documents the library accepts (tools/lib/richvalid.py) - the examples leave most optional members of most types unused
    import richvalid
    richdir = os.path.join(WORK, "c14rich")
    subprocess.run([os.path.join(BIN, "vharness"), "c14rich", richdir], stdout=subprocess.PIPE, stderr=subprocess.PIPE, env=GOENV)
    ritems = []
    for f in sorted(glob.glob(os.path.join(richdir, "rich-*.json"))):
        try:
            d = json.load(open(f))
        except ValueError:
            continue
        if "+" in os.path.basename(f):
            continue
        ritems.append(("rich:" + os.path.basename(f), richvalid.make_valid(d)))
    judge(c, "rich", ritems, state)
    c.cov.setdefault("phase_s", {})["rich"] = round(time.time() - T0, 1)
    c.cov["rich_documents"] = len(ritems)
    for name, env in ex[:2]:
        c.sample({"stream": "examples", "file": name, "schema": (doc_of(env) or {}).get("$schema")}, limit=2)

    g = cg.Gen(c.rng)
    ngen = 400 if quick else 60000
    gen = [("generated:%d" % i, g.doc(big=(i % 40 == 0))) for i in range(ngen)]
    for i in range(0, len(gen), 10000):
        judge(c, "generated", gen[i:i + 10000], state)
    c.sample({"stream": "generated", "document": gen[0][1]}, limit=3)
    c.cov.setdefault("phase_s", {})["generated"] = round(time.time() - T0, 1)

    nmut = 1500 if quick else 140000
    stats = {}
    bases = []
    for name, env in ex:
        bases.append((name, env))
        if doc_of(env) is not None:
            bases.append((name + "#doc", doc_of(env)))
    muts = []
    for i in range(nmut):
        name, b = bases[i % len(bases)]
        m, ch = mutate(c.rng, b, stats)
        muts.append(("mutation:%s:%s" % (name, json.dumps(ch, default=str)[:300]), m))
    # every member whose values the schema enumerates, with an extended key (`credit-transfer+zz`): the
    # library accepts regime/addon specific sub-keys for several of these, so the schema must keep them open
    seen_ext = set()
    for name, b in bases:
        for path, parent, key, val in leaves(b):
            nm = key if isinstance(key, str) else ""
            if nm in ENUMS and isinstance(val, str) and val and (name.split("#")[0].split("/")[1] if "/" in name else "", tuple(map(str, path))) not in seen_ext:
                if len(seen_ext) > (400 if quick else 10 ** 6):
                    break
                seen_ext.add((name.split("#")[0].split("/")[1] if "/" in name else "", tuple(map(str, path))))
                m = copy.deepcopy(b)
                pp = m
                for p in path[:-1]:
                    pp = pp[p]
                pp[path[-1]] = val + "+" + c.rng.choice(["zz", "wallet", "x1"])
                muts.append(("mutation:%s:%s" % (name, json.dumps([("enum-subkey+", path, pp[path[-1]])], default=str)[:300]), m))
                stats["enum-subkey"] = stats.get("enum-subkey", 0) + 1
    for i in range(0, len(muts), 10000):
        judge(c, "mutations", muts[i:i + 10000], state)
    c.cov.setdefault("phase_s", {})["mutations"] = round(time.time() - T0, 1)
    # systematic single changes: Go first; only what the library ACCEPTS needs the schema's verdict
    sysi = systematic(c.rng, [(n, b) for n, b in bases if not (quick and n.endswith("#doc"))] + [(n, d) for n, d in ritems if not quick or ["bill-invoice", "bill-order", "bill-delivery.", "bill-payment."][c.seed % 4] in n], quick, rich_rot=c.seed // 4)
    acc_items, acc_pre = [], []
    for i in range(0, len(sysi), 20000):
        chunk = sysi[i:i + 20000]
        for (label, d), (acc, out, kind) in zip(chunk, go_run([d for _, d in chunk])):
            c.count("systematic/go-" + ("accepted" if acc else "rejected"), 1, label)
            if acc:
                acc_items.append((label, d))
                acc_pre.append((acc, out, kind))
    # every member of the four large rich documents left out, one at a time (all positions on every run): the library is
    # asked first; of the accepted ones only those whose OUTPUT still carries the member - as some zero value the
    # serialiser made up ("", null, 0000-00-00, {} ...) - need the schema's verdict
    drops = []
    for n, d in ritems:
        four = ["bill-invoice", "bill-order", "bill-delivery.", "bill-payment."]
        if not any(k in n for k in four):
            continue
        if quick and not any(k in n for k in (four[c.seed % 4], four[(c.seed + 1) % 4])):
            continue                # two of the four per quick run, rotating with the seed
        seen_d = set()
        for path, parent, key, val in leaves(d):
            if not isinstance(key, str) or key.startswith("$") or not path:
                continue
            gp = tuple("*" if isinstance(x, int) else x for x in path)
            if gp in seen_d:
                continue
            seen_d.add(gp)
            m = copy.deepcopy(d)
            pp = m
            for x in path[:-1]:
                pp = pp[x]
            del pp[path[-1]]
            drops.append(("systematic:%s:%s" % (n, json.dumps([("drop*", path, None)], default=str)[:300]), m, path))
    ndrop_acc = ndrop_zero = 0
    for i in range(0, len(drops), 20000):
        chunk = drops[i:i + 20000]
        for (label, d, path), (acc, out, kind) in zip(chunk, go_run([d for _, d, _ in chunk])):
            c.count("rich-member-dropped/go-" + ("accepted" if acc else "rejected"), 1, label)
            if not acc:
                continue
            ndrop_acc += 1
            node = doc_of(out) if doc_of(out) is not None else out
            try:
                for x in path:
                    node = node[x]
            except (KeyError, IndexError, TypeError):
                continue            # absent in the output as well: nothing was made up
            if node in ("", None, "0000-00-00", {}, [], 0, "0", False) or (isinstance(node, str) and node.startswith("0000-00-00")):
                ndrop_zero += 1
                acc_items.append((label, d))
                acc_pre.append((acc, out, kind))
    c.cov["systematic"] = {"single_changes": len(sysi), "accepted_by_go": len(acc_items), "enumerated_members": {k: len(v) for k, v in ENUMS.items()},
                           "rich_members_dropped": len(drops), "dropped_and_accepted": ndrop_acc, "accepted_with_a_made_up_zero_value": ndrop_zero}
    c.cov.setdefault("phase_s", {})["systematic-go"] = round(time.time() - T0, 1)
    for i in range(0, len(acc_items), 10000):
        judge(c, "systematic", acc_items[i:i + 10000], state, pre=acc_pre[i:i + 10000], doc_only=True)
    c.cov.setdefault("phase_s", {})["systematic-judged"] = round(time.time() - T0, 1)
    # sub-keys at every enumerated member position of every document TYPE (examples and the rich document of every
    # registered type), and documents written without $regime under every country code a regime answers to, through the
    # JSON entry point and as a Go program assembles them. Go first; what the library accepts gets the schema's verdict.
    typed = [(n, doc_of(env) if doc_of(env) is not None else env) for n, env in ex] + list(ritems)
    regs = go_regimes()
    written = minimal_documents() + [(n, d) for n, d in typed if isinstance(d, dict) and isinstance(d.get("supplier"), dict)
                                     and (n.startswith("rich:") or not str(d.get("$schema")).endswith("bill/invoice"))]
    one_inv = {}
    for n, d in typed:              # and one example invoice per regime directory
        if isinstance(d, dict) and str(d.get("$schema")).endswith("bill/invoice") and not n.startswith("rich:"):
            one_inv.setdefault(n.split("/")[1] if "/" in n else n, (n, d))
    written += sorted(one_inv.values())
    c.cov["extra_streams"] = {"regimes": len(regs), "alternative_codes": sum(len(a) for _, a in regs), "documents_without_regime": len(written)}
    drv = derived_regime(c.rng, regs, written, quick)
    json_out = {}
    rxs, rxcov = regex_shaped(c, typed, quick)
    c.cov["regex_shaped"] = rxcov
    for stream, op, its in (("subkeys", "run", enum_subkeys(c.rng, typed, quick, rot=c.seed)),
                            ("regex-shaped", "run", rxs),
                            ("derived-regime", "run", drv),
                            ("derived-regime(go-api)", "runapi", drv)):
        a_items, a_pre = [], []
        same = 0
        for (label, d), (acc, out, kind) in zip(its, go_run([d for _, d in its], op)):
            c.count(stream + "/go-" + ("accepted" if acc else "rejected"), 1, label)
            if acc and op == "run":
                json_out[label] = without_uuids(doc_of(out))
            if acc and op == "runapi" and label in json_out and json_out[label] == without_uuids(doc_of(out)):
                same += 1           # the same document as through the JSON entry point: judged there
                continue
            if acc:
                a_items.append((label, d))
                a_pre.append((acc, out, kind))
        c.cov["extra_streams"][stream] = {"documents": len(its), "accepted_by_go": len(a_items) + same, "same_output_as_json_entry_point(judged_there)": same}
        if stream.startswith("derived-regime") and len(a_items) + same < len(regs):
            c.report("the %s stream did not reach its cases (%d of %d documents accepted)" % (stream, len(a_items) + same, len(its)), {"machinery": "generator"}, no_input=True)
        judge(c, stream, a_items, state, pre=a_pre, doc_only=True, op=op)
        c.cov.setdefault("phase_s", {})[stream] = round(time.time() - T0, 1)
    c.sample({"stream": "mutations", "change": muts[0][0], "document_schema": muts[0][1].get("$schema")}, limit=4)
    c.cov["mutation_kinds"] = stats

    check_patterns(c, 150 if quick else 5000)
    c.cov.setdefault("phase_s", {})["patterns"] = round(time.time() - T0, 1)

    c.cov["go_outcomes"] = state["go"]
    c.cov["verdicts(go_accepted, model, python)"] = {"%s/%s/%s" % k: v for k, v in sorted(state["verdicts"].items(), key=str)}
    c.cov["validator_disagreements"] = state["disagree"]
    c.cov["python_year_0000_divergence(not compared)"] = state.get("python_year0", 0)
    c.cov["known_finding_locations"] = state["finding_locations"]
    c.cov["unexplained_locations"] = state.get("unexplained_locations", {})
    c.cov["failing_inputs_not_explained_by_a_recorded_finding"] = state["reported"]
    c.cov["rule"] = ("schema files: all files under data/schemas (exhaustive); documents: every example output under */out (envelope and bare document), invoices generated "
                     "from the seed (calcgen), and 1-3 field-level mutations of the examples (dates, amounts, percentages, keys, values the schema enumerates for the member, codes, uuids, currency and country codes, "
                     "text, numbers, map entries, dropped members, duplicated elements, retyped values; 70% of replaced values valid), and SYSTEMATIC single changes: for every distinct member position of the examples every rejected-class value, the length boundaries 32/33/64/65/255/256 and every value the schemas enumerate for a member of that name (also behind $ref) - Go first, the accepted ones judged. Every document goes through Go; "
                     "Go-accepted: serialised envelope and document validated against their published schemas by the extracted validator and python jsonschema (P); "
                     "Go-rejected: the given document validated by both (validators compared on invalid documents). distinct = distinct (schema, instance) pairs; "
                     "patterns: each shipped pattern on generated strings, extracted matcher = python re = Go regexp; "
                     "subkeys: every key-valued member position (indices generalised, per document type; the document's own type per add-on set) that the schemas enumerate, of the examples and of the rich document "
                     "of every registered type, with a sub-key appended (made up / key-like words of the Go source) - Go first, accepted ones judged; derived-regime: minimal invoice / order / delivery / payment, "
                     "the non-invoice examples, the rich documents with a supplier and one example invoice per regime directory, written without $regime, supplier tax country = every alternative code, the own code, "
                     "a country without regime and (minimal documents: all, others: three) regimes' own codes, through gobl.Parse and through `c11 runapi` (struct handed to gobl.Envelop without the UnmarshalJSON side effects; "
                     "outputs equal to the JSON entry point's are judged once); "
                     "regex-shaped: the regular-expression literals of regimes/<cc> and addons/<cc> Go files; at every string member position (per schema and country) of that country's examples and rich documents "
                     "whose present value satisfies an expression: strings of that expression's language with one / every position outside [A-Za-z0-9] where the expression offers it, and one-character replacements "
                     "of the present value the expression still matches; at members of complements / identities / ext / tax_id and of regime document types: one string of every other expression of the country; "
                     "all confirmed by Go's regexp - Go first, accepted ones judged")
    acc = sum(v for k, v in state["verdicts"].items() if k[0])
    if acc < 50 or not any(k[1] == "invalid" for k in state["verdicts"]):
        c.report("the sweep did not reach its interesting cases (accepted=%d, verdict classes=%s)" % (acc, list(state["verdicts"])), {"machinery": "generator"}, no_input=True)


def replay(path):
    r = json.load(open(path))["replay"]
    build_harness()
    # the extracted validator embeds the schema files of the repository under test: regenerate it
    ok, out = vlib.translate()
    if not ok:
        print("translator refuses the schema files:", out[-500:])
        return 1
    vlib.build_rocq(["Run/Dispatch.vo"])
    ok, out = build_oracle()
    if not ok:
        print("oracle build failed:", out[-500:])
        return 1
    if "document" in r:
        acc, out, kind = go_run([r["document"]], r.get("entry_point", "run"))[0]
        print("implementation (c11 %s):" % r.get("entry_point", "run"), "accepted" if acc else "rejected (%s)" % kind)
        print("document:", json.dumps(r["document"])[:1500])
        if acc:
            tg = targets(out)
            for (sid, inst), m, p in zip(tg, model_validate(tg), py_validate(tg, nproc=1)):
                print("schema %s: extracted validator %s, python jsonschema %s %s" % (sid, m, p["v"], [e["msg"] for e in p.get("errors", [])[:3]]))
    elif "schema_file" in r:
        print("schema file:", r["schema_file"], "keyword/ref:", r.get("keyword") or r.get("ref"))
        print("python metaschema check:", py_meta().get(r["schema_file"].replace("data/schemas/", "")))
    else:
        print(json.dumps(r, indent=1)[:2000])
    return 0
