"""C06 - amount and percentage text codec round-trips and accepts only the schema.

Three judges on every case:
  (1) correspondence: Go (num.Amount/Percentage through String/MarshalText/json.Marshal,
      AmountFromString/UnmarshalText, UnmarshalJSON bare and quoted, a struct field through
      encoding/json) against the extracted model Num/Codec.v of THE CODE (as shipped, or - after the
      repair is applied - of the repaired code, see PATCHED below);
  (2) oracle P: Go's output judged directly by an independent Python reading of the property:
        accepted  => text in the published pattern, value equal exactly, exponent = fraction length,
                     representable (int64 value, at most 18 decimals)
        rejected  => not (in pattern and representable)
        printed   => text in the pattern, reads back to the same amount (percentages: same value,
                     and printing the re-read value gives the same text)
  (3) the published patterns: Go's regexp of JSONSchema().Pattern, the Coq matcher and Python's
      regex of the literal in the property text agree on every generated string.

FLIP AFTER APPLYING fixes/C06-1-strict-amount-parse.diff TO THE REPOSITORY: move the three entries
C06-amount-second-sign, C06-amount-int64-wrap, C06-minint64-roundtrip of findings/C06.json from
"known" to "fixed" (add the commit).  Nothing else: PATCHED is derived from that (see patched()),
the correspondence then runs against the model of the repaired code (the one the theorems of
Props/C06.v are about) and every witness in corpus/C06/*.case becomes a VIOLATION if it regresses.
Likewise, once unquote decodes JSON escapes (finding C06-json-escaped-string, patch proposed by C08:
fixes/C08-amount-json-escapes.diff) move that entry to "fixed": tokens with escapes are then judged by
oracle P only (the model's unquote does not decode escapes).
"""
import glob
import json as pyjson
import re
from fractions import Fraction
from vlib import *

TRUSTED = ["modelled, not verified: float64 path of Percentage.Amount / PercentageFromAmount (exact arithmetic in the model; "
           "tied to Go below 2^52 by C05 and here), encoding/json's tokenizer (struct-field route is judged by oracle P only)",
           "Go's fmt %d / %0*d and strconv.ParseInt are modelled in Num/Codec.v and tied by the correspondence"]

T63 = 2 ** 63
T52 = 2 ** 52
# the two published patterns, literally as the property states them ($ = end of input)
AMOUNT_RE = re.compile(rb"\A\-?[0-9]+(\.[0-9]+)?\Z")
PCT_RE = re.compile(rb"\A\-?[0-9]+(\.[0-9]+)?%\Z")
# narrow matcher of finding C06-amount-second-sign: optional '-', then a '+'/'-' in front of the digits of
# either part, nothing else wrong
SECOND_SIGN_RE = re.compile(rb"\A\-?[+\-]?[0-9]+(\.[+\-]?[0-9]+)?\Z")

F_SIGN = "C06-amount-second-sign"
F_WRAP = "C06-amount-int64-wrap"
F_MIN = "C06-minint64-roundtrip"
F_PCTSYM = "C06-pct-without-symbol"
F_PCTEMPTY = "C06-pct-empty"
F_NULL = "C06-null-text"
F_ESC = "C06-json-escaped-string"
F_PCTBIG = "C06-pct-large-magnitude"
REPAIR_IDS = (F_SIGN, F_WRAP, F_MIN)

ALPHABET = [b"+", b"-", b".", b"e", b"E", b" ", b"_", b",", b"%", b'"',
            "٠".encode(), "１".encode(), "१".encode(), "۵".encode()]
ALPHA_NAMES = ["+", "-", ".", "e", "E", "space", "_", ",", "%", "quote", "U+0660", "U+FF11", "U+0967", "U+06F5"]


def patched(c):
    """True once the repair entries have been moved out of "known" (i.e. the patch is applied)."""
    return all(c.known(i) is None for i in REPAIR_IDS)


# ----------------------------------------------------------------------------------------------
# independent reading of the property
# ----------------------------------------------------------------------------------------------
def member(s):
    return AMOUNT_RE.match(s) is not None


def denote(s):
    """(n, e) for a member of the amount pattern: the number n / 10^e."""
    neg = s.startswith(b"-")
    body = s[1:] if neg else s
    ip, _, fp = body.partition(b".")
    n = int(ip + fp)
    return (-n if neg else n), len(fp)


def fits(n, e):
    return -T63 <= n < T63 and e <= 18


def dec(tok):
    """decodes one result item given as token list -> 'err' | 'null' | (v, e) | ('other', text)"""
    if tok == ["(", "x657272", ")"]:
        return "err"
    if tok == ["(", "x6e756c6c", ")"]:
        return "null"
    if len(tok) == 7 and tok[1] == "x6f6b":
        return (int(tok[3]), int(tok[4]))
    return ("other", " ".join(tok))


def items(line):
    """splits an output line into top-level items (token lists)"""
    res, cur, depth = [], [], 0
    for t in line.split():
        cur.append(t)
        if t == "(":
            depth += 1
        elif t == ")":
            depth -= 1
        if depth == 0:
            res.append(cur)
            cur = []
    return res


def is_ok(r):
    return isinstance(r, tuple) and len(r) == 2 and isinstance(r[0], int)


def judge_amount(t, r):
    """t: the text the reader saw as a string value; r: decoded Go result. None when the property holds,
    else (class, finding id or None)."""
    m = member(t)
    if r == "err":
        if m and fits(*denote(t)):
            n, _ = denote(t)
            return ("member rejected", F_MIN if n == -T63 else None)
        return None
    if r == "null":
        return ("text null accepted as no value", F_NULL if t == b"null" else None)
    if is_ok(r):
        if not m:
            return ("accepted although not in the pattern", F_SIGN if SECOND_SIGN_RE.match(t) else None)
        n, e = denote(t)
        if not fits(n, e):
            return ("accepted although the value does not fit int64 / 18 decimals: read as %r" % (r,), F_WRAP)
        if r != (n, e):
            return ("read as a different number: %r, denotes %r" % (r, (n, e)), None)
        return None
    return ("unexpected result: %r" % (r,), None)


def judge_pct(t, r, text_entry):
    """percentage reader; text_entry: PercentageFromString/UnmarshalText (the empty text is a finding there)"""
    if r == "null":
        return ("text null accepted as no value", F_NULL if t == b"null" else None)
    if t.endswith(b"%"):
        base = t[:-1]
        m = member(base)
        if r == "err":
            if m and fits(*denote(base)):
                n, _ = denote(base)
                return ("member rejected", F_MIN if n == -T63 else None)
            return None
        if is_ok(r):
            if not m:
                return ("accepted although not in the pattern", F_SIGN if SECOND_SIGN_RE.match(base) else None)
            n, e = denote(base)
            if not fits(n, e):
                return ("accepted although the value does not fit int64 / 18 decimals: read as %r" % (r,), F_WRAP)
            if r != (n, e + 2):
                return ("read as a different number: %r, denotes %r" % (r, (n, e + 2)),
                        F_PCTBIG if abs(n) * 100 >= T52 else None)
            return None
        return ("unexpected result: %r" % (r,), None)
    # no % symbol: not in the percentage pattern
    if r == "err":
        return None
    if is_ok(r):
        if t == b"":
            return ("empty percentage text accepted", F_PCTEMPTY if text_entry and r == (0, 0) else None)
        if member(t):
            n, e = denote(t)
            if fits(n, e) and r == (n, e):
                return ("percentage text without % accepted", F_PCTSYM)
            if not fits(n, e):
                return ("accepted without %% and the value does not fit: read as %r" % (r,), F_WRAP)
            return ("read as a different number: %r" % (r,), None)
        return ("accepted although not in the pattern", F_SIGN if SECOND_SIGN_RE.match(t) else None)
    return ("unexpected result: %r" % (r,), None)


def _no_const(c):
    raise ValueError(c)


_DEC = pyjson.JSONDecoder(parse_constant=_no_const)


def json_value(raw):
    """independent reading of a raw JSON token: ('string', bytes) | ('number', raw) | ('null',) |
    ('other',) | None when it is not one JSON value (then only the correspondence is judged)."""
    try:
        txt = raw.decode("utf-8")
    except UnicodeDecodeError:
        return None
    if txt == "" or txt[0] in " \t\r\n" or txt[-1] in " \t\r\n":
        return None
    try:
        v = _DEC.decode(txt)
    except (ValueError, RecursionError):
        return None
    if isinstance(v, str):
        try:
            return ("string", v.encode("utf-8"))
        except UnicodeEncodeError:
            return None
    if isinstance(v, bool):
        return ("other",)
    if isinstance(v, (int, float)):
        return ("number", raw)
    if v is None:
        return ("null",)
    return ("other",)


def judge_json(raw, r, pct, jv=False):
    """UnmarshalJSON / struct field on a raw token that is one JSON value (jv = json_value(raw) if known)"""
    if jv is False:
        jv = json_value(raw)
    if jv is None:
        return None
    if jv[0] == "null":
        return None if r == "null" else ("JSON null not treated as no value: %r" % (r,), None)
    if jv[0] == "other":
        return None if r == "err" else ("JSON value that is neither string nor number accepted: %r" % raw[:20], None)
    content = jv[1]
    j = judge_pct(content, r, False) if pct else judge_amount(content, r)
    if j and jv[0] == "string" and b"\\" in raw and r == "err" and j[0] == "member rejected":
        return ("JSON string with escape sequences rejected although its value is a member", F_ESC)
    return j


# ----------------------------------------------------------------------------------------------
# generators
# ----------------------------------------------------------------------------------------------
def gen_member(rng, near_boundary=False):
    """a member of the amount pattern: total length 1..40, leading zeros, 0..19 fraction digits"""
    kind = rng.random()
    neg = rng.random() < 0.3
    if kind < 0.55:      # human-size
        ni = rng.randint(1, 6)
        nf = rng.choice([0, 0, 1, 2, 2, 3, 4, 6])
    elif kind < 0.85:    # up to the int64 boundary
        tot = rng.randint(10, 20)
        nf = rng.randint(0, min(19, tot - 1))
        ni = tot - nf
    else:                # long
        ni = rng.randint(1, 30)
        nf = rng.randint(0, min(19, 39 - ni))
    ip = "".join(rng.choice("0123456789") for _ in range(ni))
    if rng.random() < 0.2:
        ip = "0" * rng.randint(1, 3) + ip
    fp = "".join(rng.choice("0123456789") for _ in range(nf))
    if nf and rng.random() < 0.2:
        fp = "0" * min(nf, rng.randint(1, 5)) + fp[min(nf, 5):]
        fp = fp[:nf]
    s = ("-" if neg else "") + ip + ("." + fp if nf else "")
    return s[:40].rstrip(".").encode() if len(s) > 40 else s.encode()


def near_misses(m):
    """every single insertion / deletion / substitution of an alphabet symbol -> (kind, symbol, string)"""
    # positions are byte positions of the ASCII member
    for i in range(len(m) + 1):
        for a, nm in zip(ALPHABET, ALPHA_NAMES):
            yield ("insert", nm, m[:i] + a + m[i:])
    for i in range(len(m)):
        yield ("delete", m[i:i + 1].decode(), m[:i] + m[i + 1:])
        for a, nm in zip(ALPHABET, ALPHA_NAMES):
            if a != m[i:i + 1]:
                yield ("substitute", nm, m[:i] + a + m[i + 1:])


def boundary_strings(rng, quick):
    """digit strings around 2^63 and multiples of 2^64, the point at every position"""
    out = []
    centres = [T63 - 1, T63, T63 + 1, T63 - 10, T63 + 10, 2 ** 64, 2 ** 64 + 5, 2 ** 64 - 1, 3 * 2 ** 64 + 7, 10 ** 18, 10 ** 19,
               10 ** 18 - 1, 10 ** 19 - 1, 92233720368547758075, T63 // 10, T63 // 10 + 1, 5 * 2 ** 64 - 3, T52 // 100, T52,
               2 ** 53 + 1]
    for cval in centres:
        for d in (0, 1, -1, 2, -2):
            v = cval + d
            if v < 0:
                continue
            ds = str(v)
            for e in range(0, 21):
                if e == 0:
                    body = ds
                elif e < len(ds):
                    body = ds[:-e] + "." + ds[-e:]
                else:
                    body = "0." + "0" * (e - len(ds)) + ds
                for sign in ("", "-"):
                    out.append((sign + body).encode())
    # many fraction digits with leading zeros (10^e itself overflows), up to the String() panic at 64
    for e in (18, 19, 20, 21, 25, 40, 63, 64, 65, 100):
        out.append(("0." + "0" * e).encode())
        out.append(("1." + "0" * e).encode())
        out.append(("-5." + "0" * (e - 1) + "1").encode())
        out.append(("0." + "0" * (e - 1) + "7").encode())
    n = 200 if quick else 4000
    for _ in range(n):  # random values within +-2000 of k*2^63, random point
        k = rng.choice([1, 1, 1, 2, 3, 4, 6, 10, 20])
        v = k * T63 + rng.randint(-2000, 2000)
        ds = str(v)
        e = rng.randint(0, 19)
        body = ds if e == 0 else (ds[:-e] + "." + ds[-e:] if e < len(ds) else "0." + "0" * (e - len(ds)) + ds)
        out.append((rng.choice(["", "-"]) + body).encode())
    return out


def random_strings(rng, n):
    out = []
    small = b"0123456789.-+% e\"_,n"
    for _ in range(n):
        L = rng.choice([0, 1, 1, 2, 2, 3, 3, 4, 5, 6, 8, 12])
        if rng.random() < 0.7:
            out.append(bytes(rng.choice(small) for _ in range(L)))
        else:
            out.append(bytes(rng.randrange(1, 256) for _ in range(L)).replace(b"\n", b"!").replace(b"\r", b"!"))
    return out


JSON_RAW = [b'""', b'"', b'"5', b'5"', b'"5"', b'""5""', b'null', b'"null"', b'true', b'false', b'[1]', b'{}', b'1e5', b'1.5e3', b'1E2',
            b'-0', b'-0.10', b'007', b'1.', b'.5', b'-', b'"\\u0035"', b'"1\\u002e5"', b'"\\u0031\\u0036%"', b'"5\\n"', b'"\\"5\\""',
            b'" 5"', b'"5 "', b'"+5"', b'"16%"', b'"16"', b'16', b'"0.16"', b'0.16', b'"%"', b'"16%%"', b'"-9223372036854775808"',
            b'-9223372036854775808', b'9223372036854775808', b'"\\u00665"', b'"\xef\xbc\x91"', b'"\xd9\xa0"', b'1.0E+2', b'"1,5"', b'"1_0"',
            b' 5', b'5 ', b'"5"x', b'0x10', b'"0x10"', b'1e400', b'-', b'+5', b'Infinity', b'NaN']


def json_encodings(rng, s):
    """JSON encodings of the string s for the struct-field route (None when s is not UTF-8)"""
    try:
        txt = s.decode("utf-8")
    except UnicodeDecodeError:
        return None
    return pyjson.dumps(txt, ensure_ascii=False).encode("utf-8")


def amounts(rng, quick):
    """(stream, v, e): all boundary int64 values x exponents 0..18, plus random"""
    bvals = {0, 1, -1, 9, -9, 10, -10, 99, 100, 101, -100, T63 - 1, -T63, -T63 + 1, T63 - 2, 2 ** 62, -2 ** 62, 2 ** 53, 2 ** 53 + 1,
             -(2 ** 53) - 1, T52, T52 - 1, T52 // 100, T52 // 100 - 1, -(T52 // 100), 2 ** 32, 2 ** 31 - 1, -2 ** 31, 123456789, -12345}
    for k in range(1, 19):
        for d in (-1, 0, 1):
            bvals.add(10 ** k + d)
            bvals.add(-(10 ** k) - d)
            bvals.add(5 * 10 ** k + d)
    out = []
    for v in sorted(bvals):
        for e in range(0, 19):
            out.append(("amounts/boundary", v, e))
    for v in (0, 1, -1, 5, -T63, T63 - 1, 10 ** 18, -12345):
        for e in (19, 20, 21, 30, 63, 64, 65, 100, 1000, 1001, 5000):
            out.append(("amounts/beyond-18-decimals(informational)", v, e))
    n = 100000 if quick else 2000000
    n -= len(out)
    for _ in range(max(n, 0)):
        bits = rng.choice([1, 4, 8, 12, 16, 20, 24, 32, 40, 45, 48, 51, 52, 53, 56, 60, 62, 63])
        v = rng.getrandbits(bits)
        if rng.random() < 0.1:
            v = v // (10 ** rng.randint(1, 6)) * 10 ** rng.randint(1, 6)   # trailing zeros (MinimalString)
        if v >= T63:
            v = T63 - 1
        if rng.random() < 0.45:
            v = -v
        out.append(("amounts/random", v, rng.randint(0, 18)))
    return out


# ----------------------------------------------------------------------------------------------
# the check
# ----------------------------------------------------------------------------------------------
def load_corpus():
    cases = []
    for f in sorted(glob.glob(os.path.join(VERIF, "corpus", "C06", "*.case"))):
        for ln in open(f):
            ln = ln.strip()
            if ln and not ln.startswith("#"):
                cases.append((os.path.basename(f), ln))
    return cases


def hx(b):
    return "x" + bytes(b).hex()


def all_line(s, enc, fixed):
    return "c06 all %s %s %d" % (hx(s), hx(enc or b""), 1 if fixed else 0)


class Run:
    """collects failures; reports the shortest failing input per (class, finding)"""

    def __init__(self, c):
        self.c = c
        self.fail = {}     # (entry, what-class, finding) -> (len, what, replay)
        self.mism = {}     # stream -> (len, line, go, model)
        self.nfail = {}
        self.verdicts = {}
        self.vc = {}

    def verdict(self, entry, r):
        k = (entry, "accepted" if r.__class__ is tuple and len(r) == 2 and r[0] != "other" else r if r.__class__ is str else "other")
        self.vc[k] = self.vc.get(k, 0) + 1

    def verdict_table(self):
        for (entry, k), n in self.vc.items():
            self.verdicts.setdefault(entry, {})[k] = n
        return self.verdicts

    def bad(self, entry, text, j, replay):
        what, fid = j
        cls = "" if fid is not None else what.split(":")[0]
        key = (entry, cls, fid)
        self.nfail[key] = self.nfail.get(key, 0) + 1
        cur = self.fail.get(key)
        if cur is None or len(text) < cur[0]:
            self.fail[key] = (len(text), "%s on %r: %s" % (entry, text, what), replay)

    def mismatch(self, stream, line, g, m):
        cur = self.mism.get(stream)
        self.nfail[("mismatch", stream)] = self.nfail.get(("mismatch", stream), 0) + 1
        if cur is None or len(line) < cur[0]:
            self.mism[stream] = (len(line), line, g, m)

    def flush(self):
        """known findings are counted per case; of the rest the three shortest failing inputs and the
        shortest differing case are reported (the evidence keeps all the counts)"""
        c = self.c
        viol = []
        for key in sorted(self.fail, key=str):
            fid = key[2]
            ln, what, replay = self.fail[key]
            n = self.nfail[key]
            if fid is not None and c.known(fid) is not None:
                for _i in range(n):
                    c.report(what, replay, finding_id=fid)
            else:
                viol.append((ln, "%s (%d cases of this kind)" % (what, n), replay))
        viol.sort(key=lambda x: (x[0], x[1]))
        c.cov["property_failures_by_kind"] = {"%s | %s%s" % (k[0], k[1], k[2] or ""): n for k, n in self.nfail.items() if k[0] != "mismatch"}
        for ln, what, replay in viol[:3]:
            c.report(what + ("" if len(viol) <= 3 else " [%d kinds of failure in all, see evidence]" % len(viol)), replay)
        if self.mism:
            c.cov["model_differences_by_stream"] = {st: self.nfail[("mismatch", st)] for st in self.mism}
            stream, (_, line, g, m) = min(self.mism.items(), key=lambda kv: kv[1][0])
            c.report("implementation and model of the code differ (%d cases in %d streams; shortest, from stream %s): `%s` implementation `%s` model `%s`"
                     % (sum(self.nfail[("mismatch", st)] for st in self.mism), len(self.mism), stream, line, g, m),
                     {"case": line, "implementation": g, "model": m, "stream": stream,
                      "rerun": "echo '%s' | bin/vharness ; echo '%s' | bin/oracle" % (line, line)})
        return bool(viol or self.mism)


def pct_out_of_float_domain(gi, mi):
    """a percentage reading where both sides accept and the digits x 100 reach 2^52: the Go code goes
    through float64 / int64 x100 there (C05's magnitude guard); the model is exact"""
    g, m = dec(gi), dec(mi)
    return is_ok(g) and is_ok(m) and abs(m[0]) * 100 >= T52


NAMES = ["Amount.UnmarshalText", "Amount.UnmarshalJSON(bare)", "Amount.UnmarshalJSON(quoted)",
         "Percentage.UnmarshalText", "Percentage.UnmarshalJSON(bare)", "Percentage.UnmarshalJSON(quoted)"]
FSEP = " ( x66"


def field_results(gline):
    """the two struct-field results of an `all` line, or None"""
    f = gline.rsplit(FSEP, 1)
    if len(f) != 2:
        return None
    fi = items(f[1].rsplit(")", 1)[0])
    return (dec(fi[0]), dec(fi[1])) if len(fi) == 2 else None


def judge_all(R, stream, s, enc, gline, mline, light=False):
    """one `all` case: correspondence + oracle P on the eight text results and the two field results.
    light: correspondence only (used for the re-read of printed texts, judged by the round trip)"""
    c = R.c
    gpre = gline.rsplit(FSEP, 1)[0]
    gi = items(gpre)
    if gpre != mline.rsplit(FSEP, 1)[0]:
        mi = items(mline.rsplit(FSEP, 1)[0])
        line = all_line(s, enc, R.fixed)
        if len(gi) != 8 or len(mi) != 8:
            R.mismatch(stream, line, gline, mline)
            return None
        for k in range(8):
            if gi[k] != mi[k]:
                if k in (3, 4, 5) and pct_out_of_float_domain(gi[k], mi[k]):
                    c.count("out-of-float-domain percentage (informational)", 1)
                    continue
                if k in (1, 2, 4, 5) and R.esc_fixed:
                    raw = s if k in (1, 4) else b'"' + s + b'"'
                    jv = json_value(raw) if b"\\" in raw else None
                    if jv is not None and jv[0] == "string":
                        # once C06-json-escaped-string is fixed the code decodes JSON escapes; the model's unquote
                        # (Num/Codec.v) only strips the quotes, so such tokens are judged by oracle P alone
                        c.count("JSON string with escapes (oracle P only)", 1)
                        continue
                R.mismatch(stream, line, gline, mline)
                break
    if len(gi) != 8:
        return None
    r = [dec(x) for x in gi[:6]]
    if light:
        return r
    q = b'"' + s + b'"'
    for k in range(6):
        R.verdict(NAMES[k], r[k])
    replay = None

    def rp(**kw):
        d = {"case": all_line(s, enc, R.fixed), "string": s, "stream": stream}
        d.update(kw)
        return d
    j = judge_amount(s, r[0])
    if j:
        R.bad(NAMES[0], s, j, rp(entry=NAMES[0]))
    j = judge_pct(s, r[3], True)
    if j:
        R.bad(NAMES[3], s, j, rp(entry=NAMES[3]))
    jvs, jvq = json_value(s), json_value(q)
    for k, raw, pct, jv in ((1, s, False, jvs), (2, q, False, jvq), (4, s, True, jvs), (5, q, True, jvq)):
        if jv is not None:
            j = judge_json(raw, r[k], pct, jv)
            if j:
                R.bad(NAMES[k], raw, j, rp(entry=NAMES[k], raw=raw))
    # the published pattern, three ways
    pm, pp = ("1" if AMOUNT_RE.match(s) else "0"), ("1" if PCT_RE.match(s) else "0")
    if gi[6][0] != pm or gi[7][0] != pp:
        R.bad("JSONSchema().Pattern", s, ("the pattern declared by the code and the published pattern disagree on this string: code says %s/%s "
                                           "(amount/percentage), published %s/%s" % (gi[6][0], gi[7][0], pm, pp), None), rp(entry="pattern"))
    # struct field route (Go only)
    if enc:
        fr = field_results(gline)
        if fr:
            ra, rpc = fr
            R.verdict("struct field Amount", ra)
            R.verdict("struct field Percentage", rpc)
            jve = jvq if enc == q else json_value(enc)
            j = judge_json(enc, ra, False, jve)
            if j:
                R.bad("struct field Amount", enc, j, rp(entry="struct field", raw=enc))
            j = judge_json(enc, rpc, True, jve)
            if j:
                R.bad("struct field Percentage", enc, j, rp(entry="struct field", raw=enc))
            if enc == q and (ra != r[2] or rpc != r[5]):
                R.bad("struct field", enc, ("differs from UnmarshalJSON on the same token: %r / %r vs %r / %r" % (ra, rpc, r[2], r[5]), None),
                      rp(entry="struct field", raw=enc))
    return r


def run(c):
    quick = c.tier == "quick"
    rng = c.rng
    if not std_builds(c):
        return
    ok, out = translate()
    if not ok:
        c.report("translator failed (published patterns could not be read from the repository): " + out[-800:],
                 {"machinery": "translate"}, no_input=True)
        return
    proved = c.prove()
    ok, out = build_oracle()
    if not ok:
        c.report("extraction/oracle build failed: " + out[-800:], {"machinery": "oracle"}, no_input=True)
        return
    R = Run(c)
    R.fixed = patched(c)
    R.esc_fixed = c.known(F_ESC) is None
    c.cov["model_compared"] = "repaired code (parse_amount_fixed / print_amount_fixed)" if R.fixed else \
        "code as shipped (parse_amount / print_amount); repair entries still under 'known' in findings/C06.json"

    # thorough = 20 rounds of the quick-size batch (fresh draws from the same PRNG; memory stays bounded)
    kinds = {}
    rounds = 1 if quick else 20
    for rd in range(rounds):
        if rounds > 1:
            log("round %d/%d" % (rd + 1, rounds))
        # ---------------- strings ----------------
        strings = []   # (stream, s)
        for name, ln in (load_corpus() if rd == 0 else []):
            vs = parse_wire(ln)
            if vs and vs[0] == b"str":
                strings.append(("corpus", vs[1]))
        members = [gen_member(rng) for _ in range(650)]
        for i, m in enumerate(members):
            strings.append(("members", m))
            if rng.random() < 0.5:
                strings.append(("members", m + b"%"))
            base = m if i % 3 else m + b"%"          # a third of the near misses are made from percentage members
            if len(base) > 24 and i % 4:
                continue                               # long members: near misses of one in four
            for kind, sym, s in near_misses(base):
                strings.append(("near-miss/" + kind, s))
                k = kind + " " + sym if kind != "delete" else "delete"
                kinds[k] = kinds.get(k, 0) + 1
        for _ in range(25000):     # members only: the accepting paths, value and precision
            m = gen_member(rng)
            strings.append(("members", m + b"%" if rng.random() < 0.3 else m))
        for s in boundary_strings(rng, True):
            strings.append(("boundary-2^63", s))
            strings.append(("boundary-2^63", s + b"%"))
        for s in random_strings(rng, 15000):
            strings.append(("random-bytes", s))
        for raw in JSON_RAW:
            strings.append(("json-tokens", raw))
        # no newline / carriage return can travel in a wire line... they travel as hex, so anything goes
        lines, meta = [], []
        for stream, s in strings:
            enc = json_encodings(rng, s)
            lines.append(all_line(s, enc, R.fixed))
            meta.append((stream, s, enc))
        t0 = time.time()
        go = run_go(lines)
        t1 = time.time()
        mo = run_oracle(lines)
        log('strings: %d lines, go %.1fs oracle %.1fs' % (len(lines), t1 - t0, time.time() - t1))
        t0 = time.time()
        for (stream, s, enc), g, m in zip(meta, go, mo):
            c.count(stream, 1, s)
            judge_all(R, stream, s, enc, g, m)
        log('judged strings in %.1fs' % (time.time() - t0))
        # bare JSON tokens through the struct field (only tokens that are one JSON value)
        fl, fm = [], []
        for stream, s in strings:
            if stream in ("json-tokens", "members", "boundary-2^63", "corpus") and json_value(s) is not None:
                fl.append("c06 parse_field " + hx(s))
                fm.append((s, False))
                fl.append("c06 pct_parse_field " + hx(s))
                fm.append((s, True))
        for (s, pct), g in zip(fm, run_go(fl)):
            r = dec(g.split())
            c.count("struct-field/bare-token", 1, (s, pct))
            R.verdict("struct field bare " + ("Percentage" if pct else "Amount"), r)
            j = judge_json(s, r, pct)
            if j:
                R.bad("struct field (bare token) " + ("Percentage" if pct else "Amount"), s, j,
                      {"case": "c06 " + ("pct_parse_field " if pct else "parse_field ") + hx(s), "raw": s})
        c.cov["near_miss_kinds"] = kinds
        c.cov["strings"] = c.cov.get("strings", 0) + len(strings)
        if rd == 0:
            first_lines, first_strings = lines, strings

        # ---------------- amounts ----------------
        ams = [("corpus", vs[1][0], vs[1][1]) for _, ln in (load_corpus() if rd == 0 else []) for vs in [parse_wire(ln)]
               if vs and vs[0] == b"amount"]
        ncorp = len(ams)
        ams += amounts(rng, True)
        fx = " 1" if R.fixed else ""
        fxn = 1 if R.fixed else 0
        pl, pmeta = [], []
        for i, (stream, v, e) in enumerate(ams):
            pl.append("c06 print ( %d %d )%s" % (v, e, fx))
            pmeta.append((stream, v, e, False))
            if i < ncorp or stream != "amounts/random" or i % 3 == 0:     # percentages: corpus, boundary, a third of the random ones
                pl.append("c06 pct_print ( %d %d )%s" % (v, e, fx))
                pmeta.append((stream, v, e, True))
        t0 = time.time()
        gp = run_go(pl)
        t1 = time.time()
        mp = run_oracle(pl)
        log('amounts: %d lines, go %.1fs oracle %.1fs' % (len(pl), t1 - t0, time.time() - t1))
        reread, reread_meta = [], []
        for line, (stream, v, e, pct), g, m in zip(pl, pmeta, gp, mp):
            indom = e <= 18
            it = items(g)
            if not pct:
                c.count(stream, 1, (v, e))
                if g != m:
                    R.mismatch(stream + "/String", line, g, m)
                if not indom:
                    continue
                if len(it) == 2 and it[0][1] == "x6f6b":
                    text = bytes.fromhex(it[0][2][1:])
                    mini = bytes.fromhex(it[1][2][1:]) if it[1][1] == "x6f6b" else None
                    rp = {"case": line, "amount": [v, e], "printed": text}
                    fid = F_MIN if v == -T63 else None
                    if not member(text):
                        R.bad("Amount.String", text, ("prints text that is not in the pattern: %r for (%d, %d)" % (text, v, e), fid), rp)
                    elif denote(text) != (v, e):
                        R.bad("Amount.String", text, ("prints text denoting another amount: %r denotes %r, not %r" % (text, denote(text), (v, e)), fid), rp)
                    okm = mini is not None and member(mini) and Fraction(denote(mini)[0], 10 ** denote(mini)[1]) == Fraction(v, 10 ** e) and \
                        not (b"." in mini and mini.endswith(b"0"))
                    if not okm:
                        R.bad("Amount.MinimalString", mini or b"", ("MinimalString is not the shortest member of equal value: %r for (%d, %d)" % (mini, v, e), fid), rp)
                    reread.append("c06 all_a %s %s %d" % (hx(text), hx(b'"' + text + b'"'), fxn))
                    reread_meta.append((stream, v, e, text, False))
                else:
                    R.bad("Amount.String", b"", ("String() fails: (%d, %d) gives %s" % (v, e, g), None), {"case": line, "amount": [v, e]})
            else:
                c.count(stream.replace("amounts", "percentages"), 1, (v, e))
                big = abs(v) * 100 >= T52
                if g != m:
                    if big:
                        c.count("out-of-float-domain percentage (informational)", 1)
                    else:
                        R.mismatch(stream + "/Percentage.String", line, g, m)
                if not indom:
                    continue
                if len(it) == 1 and it[0][1] == "x6f6b":
                    text = bytes.fromhex(it[0][2][1:])
                    rp = {"case": line, "percentage": [v, e], "printed": text}
                    fid = F_PCTBIG if big else None
                    if not PCT_RE.match(text):
                        R.bad("Percentage.String", text, ("prints text that is not in the pattern: %r for (%d, %d)" % (text, v, e), fid), rp)
                    elif Fraction(denote(text[:-1])[0], 10 ** (denote(text[:-1])[1] + 2)) != Fraction(v, 10 ** e):
                        R.bad("Percentage.String", text, ("prints text denoting another percentage: %r for (%d, %d)" % (text, v, e), fid), rp)
                    reread.append("c06 all_p %s %s %d" % (hx(text), hx(b'"' + text + b'"'), fxn))
                    reread_meta.append((stream, v, e, text, True))
                else:
                    R.bad("Percentage.String", b"", ("String() fails: (%d, %d) gives %s" % (v, e, g), F_PCTBIG if big else None),
                          {"case": line, "percentage": [v, e]})
        t0 = time.time()
        g2 = run_go(reread)
        t1 = time.time()
        m2 = run_oracle(reread)
        log('re-read: %d lines, go %.1fs oracle %.1fs' % (len(reread), t1 - t0, time.time() - t1))
        t0 = time.time()
        stab, stab_meta = [], []
        for line, (stream, v, e, text, pct), g, m in zip(reread, reread_meta, g2, m2):
            c.count("re-read of printed text", 1, (text, pct))
            gpre = g.rsplit(FSEP, 1)[0]
            gi = items(gpre)
            if len(gi) != 3:
                R.mismatch(stream + "/re-read", line, g, m)
                continue
            r = [dec(x) for x in gi]
            if gpre != m.rsplit(FSEP, 1)[0]:
                if pct and all(x == y or pct_out_of_float_domain(x, y) for x, y in zip(gi, items(m.rsplit(FSEP, 1)[0]))):
                    c.count("out-of-float-domain percentage (informational)", 1)
                else:
                    R.mismatch(stream + "/re-read", line, g, m)
            fi = items(g.rsplit(FSEP, 1)[1].rsplit(")", 1)[0])
            rf = dec(fi[0]) if len(fi) == 1 else None
            rp = {"case": line, ("percentage" if pct else "amount"): [v, e], "printed": text}
            if not pct:
                fid = F_MIN if v == -T63 else None
                for nmz, rr in (("UnmarshalText", r[0]), ("UnmarshalJSON(bare)", r[1]), ("UnmarshalJSON(quoted)", r[2]), ("struct field", rf)):
                    if rr != (v, e):
                        R.bad("round trip Amount " + nmz, text, ("printed text reads back as another amount: (%d, %d) prints as %r and reads back as %r"
                                                                 % (v, e, text, rr), fid), rp)
            else:
                nt = denote(text[:-1])[0] if PCT_RE.match(text) else 0
                fid = F_PCTBIG if max(abs(v), abs(nt)) * 100 >= T52 else None
                for nmz, rr in (("UnmarshalText", r[0]), ("UnmarshalJSON(quoted)", r[2]), ("struct field", rf)):
                    if not (is_ok(rr) and Fraction(rr[0], 10 ** rr[1]) == Fraction(v, 10 ** e) and rr[1] == max(e, 2)):
                        R.bad("round trip Percentage " + nmz, text, ("printed text reads back as another percentage: (%d, %d) prints as %r and reads "
                                                                     "back as %r" % (v, e, text, rr), fid), rp)
                if is_ok(r[0]):
                    stab.append("c06 pct_print ( %d %d )%s" % (r[0][0], r[0][1], fx))
                    stab_meta.append((v, e, text, r[0], fid))
        log('judged re-read in %.1fs' % (time.time() - t0))
        if rd == 0:
            first_pl, first_ams = pl, ams
        g3 = run_go(stab)
        for (v, e, text, r, fid), g in zip(stab_meta, g3):
            c.count("percentage text stability", 1, text)
            it = items(g)
            t2 = bytes.fromhex(it[0][2][1:]) if it and len(it[0]) > 2 and it[0][1] == "x6f6b" else None
            if t2 != text:
                R.bad("Percentage text stability", text, ("text not stable: (%d, %d) prints %r, reads back %r which prints %r" % (v, e, text, r, t2), fid),
                      {"case": "c06 pct_print ( %d %d )" % (v, e), "percentage": [v, e], "printed": text, "reread": list(r), "reprinted": t2})

    # ---------------- evidence ----------------
    c.cov["verdicts_by_entry_point"] = R.verdict_table()
    c.cov["rule"] = ("strings = members of the published patterns (lengths 1-40, leading zeros, 0-19 fraction digits, with and without %), "
                     "every single insertion / deletion / substitution of + - . e E space _ , % quote U+0660 U+FF11 U+0967 U+06F5 in "
                     "members (near_miss_kinds counts them per kind and symbol), digit strings at k*2^63 +-2 with the point at every "
                     "position, random bytes, JSON tokens; each string through UnmarshalText, UnmarshalJSON bare and quoted, a struct "
                     "field via encoding/json (Amount and Percentage) and the pattern of JSONSchema(); amounts = boundary int64 values x "
                     "exponents 0-18 + random, printed by String/MarshalText/json.Marshal/MinimalString and Percentage.String, the "
                     "printed text read back through every entry point; distinct = distinct strings / (value, exponent) pairs per "
                     "stream; non-trivial = every case is judged by oracle P (accepted => member, exact value, exponent = fraction "
                     "length; rejected => not (member and fits); printed => member and reads back equal)")
    acc = sum(d.get("accepted", 0) for d in R.verdicts.values())
    rej = sum(d.get("err", 0) for d in R.verdicts.values())
    if not acc or not rej or not kinds or len(kinds) < 2 * len(ALPHABET):
        c.report("generator degenerate: accepted=%d rejected=%d near-miss kinds=%d" % (acc, rej, len(kinds)), {"machinery": "generator"}, no_input=True)
    for st, s in first_strings[:: max(1, len(first_strings) // 4)][:4]:
        c.sample({"stream": st, "string": s})
    c.sample({"stream": first_ams[len(first_ams) // 2][0], "amount": list(first_ams[len(first_ams) // 2][1:])})
    # vm_compute cross-check of the extraction on a sample
    samp = first_lines[:: max(1, len(first_lines) // 150)][:150] + first_pl[:: max(1, len(first_pl) // 50)][:50]
    try:
        inq = coq_eval(samp)
        mo_s = run_oracle(samp, shards=1)
        bad = [(l, a, b) for l, a, b in zip(samp, inq, mo_s) if a != b]
        c.cov["vm_compute_crosscheck"] = {"cases": len(samp), "differences": len(bad)}
        if bad:
            c.report("extracted model disagrees with vm_compute: %r" % (bad[0],), {"machinery": bad[0]}, no_input=True)
    except Exception as ex:
        c.report("vm_compute cross-check failed: %r" % ex, {"machinery": repr(ex)}, no_input=True)
    found = R.flush()
    if not proved:
        pr = c.proof
        c.report("proof obligations of Props/C06.v no longer check: " + (pr.get("make_log") or pr.get("log", ""))[-900:],
                 {"theorem": "rocq/Props/C06.v", "failed_files": pr.get("failed_files"), "forbidden": pr.get("forbidden")},
                 no_input=not found)


def replay(path):
    r = json.load(open(path))["replay"]
    l = r.get("case")
    if not l:
        print("no case in replay:", r)
        return 1
    build_harness()
    g = run_go([l], shards=1)[0]
    print("case:          ", l)
    vs = parse_wire(l)
    if len(vs) > 2 and isinstance(vs[2], bytes):
        print("text:          ", vs[2])
    print("implementation:", g)
    if " parse_field " not in l and " pct_parse_field " not in l:
        print("model:         ", run_oracle([l], shards=1)[0])
    if vs[1] == b"all":
        s = vs[2]
        gi = items(g.rsplit(FSEP, 1)[0])
        rs = [dec(x) for x in gi[:6]]
        q = b'"' + s + b'"'
        js = [judge_amount(s, rs[0]), judge_json(s, rs[1], False), judge_json(q, rs[2], False),
              judge_pct(s, rs[3], True), judge_json(s, rs[4], True), judge_json(q, rs[5], True)]
        raws = [None, s, q, None, s, q]
        for nm, rr, j, raw in zip(NAMES, rs, js, raws):
            verdict = "property holds" if j is None else "PROPERTY FAILS: %s%s" % (j[0], " [finding %s]" % j[1] if j[1] else "")
            if raw is not None and json_value(raw) is None:
                verdict = "(token is not one JSON value: judged by the correspondence only)"
            print("  %-34s %-28r %s" % (nm, rr, verdict))
        print("  in the published amount / percentage pattern:", member(s), bool(PCT_RE.match(s)), " the code's pattern says:", gi[6][0], gi[7][0])
    return 0
