"""C02 - tax summary partitions taxable amounts and sums them correctly.
Tie: the calculation correspondence of C01 restricted to a combo-focused generator; oracle P checks
the partition / sum clauses directly on the implementation's presented figures."""
from fractions import Fraction
from vlib import *
import calcgen as cg
import c01

TRUSTED = c01.TRUSTED
Z = Fraction(0)
GROSS_JUDGED = {"without surcharges": 0, "with surcharges": 0}   # documents the gross-identity clause was judged on


def q(a):
    return None if a == [] else Fraction(a[0], 10 ** a[1])


def group_key(country, ext, pct, sur):
    return (country, tuple(ext), pct, sur)


def judge_tax(doc, t, py):
    """clauses of C02 on the presented result t; returns list of (clause, detail)."""
    cc, cur, c, rr, date = cg.doc_meta(doc)
    unit = Fraction(1, 10 ** c)
    exact = rr == cg.CURRENCY
    bad = []
    pit = (doc.get("tax") or {}).get("prices_include")
    # groups are kept apart: distinct keys within a category, exempt never merged with 0 %
    cats = {}
    for ct in t[15]:
        seen = {}
        for g in ct[2]:
            k = group_key(g[0], [tuple(x) for x in g[1]], q(g[2]), q(g[3]))
            if k in seen:
                bad.append(("groups are distinguished by country, percentage, surcharge and extensions", "%s: duplicate group %s" % (ct[0], k)))
            seen[k] = g
        if ct[0] in cats:
            bad.append(("one summary row per category", ct[0].decode()))
        cats[ct[0]] = (ct, seen)
    # every taxed row contributes to exactly one group of its category; bases are the sums of the rows' tax-exclusive totals
    rows = []
    lines = t[0]
    for i, l in enumerate(doc["lines"]):
        rows.append((q(lines[i][2]), l.get("taxes") or [], lines[i][2][1]))
    for k, sign in (("discounts", -1), ("charges", 1)):
        for j, d in enumerate(doc.get(k, [])):
            a = t[11 if k == "discounts" else 12][j]
            rows.append((sign * q(a), d.get("taxes") or [], a[1]))
    expect = {}
    nrows = {}
    slack = {}
    for tot, taxes, e_row in rows:
        for tx in taxes:
            cb = cg.resolve_combo(cc, tx, date)
            if cb is None:
                continue
            key = (cb["cat"].encode(), group_key(cb["country"].encode(), [(a.encode(), b.encode()) for a, b in cb["ext"]],
                                                  None if cb["pct"] is None else cb["pct"].q(), None if cb["sur"] is None else cb["sur"].q()))
            base = tot
            if pit and cb["cat"] == pit and cb["pct"] is not None:
                pass   # handled below through the included-tax identity; bases are tax-exclusive
            expect[key] = expect.get(key, Z) + base
            nrows[key] = nrows.get(key, 0) + 1
            # a presented row is the internal one rounded to its own precision (rows presented at the currency's
            # precision under the currency rule are exact)
            slack[key] = slack.get(key, Z) + (Z if (exact and e_row >= c) else Fraction(1, 2 * 10 ** e_row))
    for (cat, k), base in expect.items():
        if cat not in cats or k not in cats[cat][1]:
            bad.append(("each taxed row contributes to exactly one rate group of its category", "no group %s in %s" % (k, cat)))
    for cat, (ct, seen) in cats.items():
        for k in seen:
            if (cat, k) not in expect:
                bad.append(("groups come only from taxed rows", "group %s of %s has no row" % (k, cat)))
    if not pit:
        for (cat, k), base in expect.items():
            if cat in cats and k in cats[cat][1]:
                got = q(cats[cat][1][k][4])
                tol = slack[(cat, k)] + (Z if exact else unit / 2)
                if abs(got - base) > tol:
                    bad.append(("a group's base is the sum of its rows' tax-exclusive totals", "%s %s: base %s, rows sum %s" % (cat, k, got, base)))
    # amounts
    tsum = Z
    for cat, (ct, seen) in cats.items():
        ra, rs, anysur = Z, Z, False
        for k, g in seen.items():
            pct, sur, base, am, sam = q(g[2]), q(g[3]), q(g[4]), q(g[5]), q(g[6])
            if pct is None:
                if am != 0:
                    bad.append(("exempt groups have no amount", str(am)))
                continue
            # precise rule: computed from the unrounded base at c+2 decimals, then rounded again for presentation
            tol = Z if exact else unit / 2 + abs(pct) * unit / 2 + unit / 100
            if abs(am - pct * base) > tol + (unit / 2 if exact else 0):
                bad.append(("each group's amount is its percentage of its base", "%s: %s vs %s x %s" % (cat, am, pct, base)))
            if sur is not None:
                anysur = True
                if abs(sam - sur * base) > unit / 2 + abs(sur) * unit / 2 + unit / 100:
                    bad.append(("surcharge amount is the surcharge percentage of the base", "%s: %s vs %s x %s" % (cat, sam, sur, base)))
                rs += sam
            ra += am
        n = max(1, len(seen))
        if abs(q(ct[3]) - ra) > (Z if exact else unit * n / 2):
            bad.append(("a category's amount is the sum of its groups", "%s: %s vs %s" % (cat, q(ct[3]), ra)))
        if anysur and (q(ct[4]) is None or abs(q(ct[4]) - rs) > (Z if exact else unit * n / 2)):
            bad.append(("a category's surcharge is the sum of its groups' surcharges", "%s: %s vs %s" % (cat, q(ct[4]), rs)))
        v = q(ct[3]) + (q(ct[4]) or Z)
        tsum += -v if ct[1] else v
    if t[15]:
        ncat = len(cats)
        if abs(q(t[16]) - tsum) > (Z if exact else unit * ncat):
            bad.append(("the tax total adds ordinary categories and subtracts retained ones including surcharges", "%s vs %s" % (q(t[16]), tsum)))
    # prices include a tax and no other tax applies: total with tax = gross sum of the lines; surcharges of the
    # included category are computed on the tax-exclusive base and come on top of the gross sum
    # (Props/C02.v included_tax_gross_identity_with_surcharges; without surcharges: ..._partial)
    if pit and t[15]:
        only = all(all(tx["cat"] == pit for tx in taxes) for _, taxes, _e in rows)
        if only:
            surs = [q(ct[4]) for ct in t[15] if ct[4] != []]
            GROSS_JUDGED["with surcharges" if surs else "without surcharges"] += 1
            gross = q(t[1]) - (q(t[2]) or Z) + (q(t[3]) or Z)
            # precise rule: sum, discount, charge and the total are each presented rounded (half a unit each); so is the
            # surcharge, and with a surcharge the amount is taken out and amount + surcharge put back at the gross
            # sum's precision (at least two decimals more than the currency when there are lines)
            tol = Z if exact else (unit * 2 + (unit / 2 + unit / 100 if surs else Z))
            if abs(q(t[7]) - gross - sum(surs, Z)) > tol:
                if surs:
                    bad.append(("with an included tax and no other tax, total with tax equals the gross sum of the lines plus the surcharges",
                                "%s vs %s + %s" % (q(t[7]), gross, sum(surs, Z))))
                else:
                    bad.append(("with an included tax and no other tax, total with tax equals the gross sum of the lines", "%s vs %s" % (q(t[7]), gross)))
    return bad


# ---------------------------------------------------------------------------------------------
# carried tax summaries: preceding[].tax (invoice / order / delivery), payment lines[].document.tax, the payment's
# merged tax, the copy made by Invoice.Correct(copy_tax). They go through tax.Total.Calculate every time the
# carrying document is calculated; the clauses of the property are judged on what comes out.
# ---------------------------------------------------------------------------------------------
def _fa(s):
    return None if s is None else Fraction(s)


def _fp(s):
    if s is None:
        return None
    return Fraction(s[:-1]) / 100 if s.endswith("%") else Fraction(s)


def _d(x):
    """a fraction as decimal text (6 places are enough for every currency here)"""
    return "None" if x is None else ("%.6f" % float(x)).rstrip("0").rstrip(".")


def judge_summary(tt, c, exact, k=1):
    """clauses of C02 on a serialised tax summary (JSON of tax.Total) presented in a currency with c decimals;
    exact: currency rounding rule; k: number of calculated summaries merged into this one (payment tax)."""
    unit = Fraction(1, 10 ** c)
    bad = []
    tsum = Z
    cats = tt.get("categories") or []
    for ct in cats:
        cat = ct.get("code")
        ra, rs, anysur = Z, Z, False
        rates = ct.get("rates") or []
        for g in rates:
            pct, base, am = _fp(g.get("percent")), _fa(g.get("base")) or Z, _fa(g.get("amount")) or Z
            sur = g.get("surcharge")
            if pct is None:
                if am != 0:
                    bad.append(("exempt groups have no amount", "%s: %s" % (cat, _d(am))))
                continue
            if abs(am - pct * base) > k * (unit / 2 + abs(pct) * unit / 2 + unit / 10):
                bad.append(("each group's amount is its percentage of its base", "%s: %s vs %s x %s" % (cat, _d(am), _d(pct), _d(base))))
            if sur is not None:
                anysur = True
                sp, sam = _fp(sur.get("percent")) or Z, _fa(sur.get("amount")) or Z
                if abs(sam - sp * base) > k * (unit / 2 + abs(sp) * unit / 2 + unit / 10):
                    bad.append(("surcharge amount is the surcharge percentage of the base", "%s: %s vs %s x %s" % (cat, _d(sam), _d(sp), _d(base))))
                rs += sam
            ra += am
        n = max(1, len(rates))
        camt, csur = _fa(ct.get("amount")) or Z, _fa(ct.get("surcharge"))
        if abs(camt - ra) > (Z if exact else k * unit * n / 2):
            bad.append(("a category's amount is the sum of its groups", "%s: %s vs %s" % (cat, _d(camt), _d(ra))))
        if anysur and (csur is None or abs(csur - rs) > (Z if exact else k * unit * n / 2)):
            bad.append(("a category's surcharge is the sum of its groups' surcharges", "%s: %s vs %s" % (cat, _d(csur), _d(rs))))
        if not anysur and csur:
            bad.append(("a category's surcharge is the sum of its groups' surcharges", "%s: %s but no group has a surcharge" % (cat, _d(csur))))
        v = camt + (csur or Z)
        tsum += -v if ct.get("retained") else v
    if cats:
        got = _fa(tt.get("sum")) or Z
        if abs(got - tsum) > (Z if exact else k * unit * len(cats)):
            bad.append(("the tax total adds ordinary categories and subtracts retained ones including surcharges", "%s vs %s" % (_d(got), _d(tsum))))
    return bad


VARIANTS = ("verbatim", "verbatim", "verbatim", "derived-removed", "derived-stale", "bases-changed", "surcharge-dropped", "surcharge-added")


def summary_variant(rng, tt, kind, c):
    """A summary as a client may hand it on: verbatim, or with its DERIVED figures (group amounts, surcharge amounts,
    category amounts and surcharges, sum) missing / stale with respect to bases, percentages and surcharge percentages.
    Calculate derives every one of them again from the groups' bases and percentages."""
    import copy
    t = copy.deepcopy(tt)
    cats = t.get("categories") or []
    amt = lambda: cg.fmt(cg.A(rng.randrange(-5000, 900000), c))
    # reported: tax.Total.Calculate takes a group's percentage at the precision the BASE is written with, so a carried base with
    # fewer decimals than the currency gives an amount that is not the percentage of the base (EUR, base "33", 21% -> amount "7.00";
    # base "33.3", surcharge 5.2% -> "1.70"; KWD, base "33.33", 5.2% -> "1.730"). Bases are therefore written with the currency's
    # decimals or more, never fewer.
    base = lambda: cg.fmt(cg.A(rng.randrange(-5000, 90000000), c + rng.choice([0, 0, 1, 2])))
    if kind == "derived-removed":
        t.pop("sum", None)
        for ct in cats:
            ct.pop("amount", None)
            ct.pop("surcharge", None)
            for g in ct.get("rates") or []:
                g.pop("amount", None)
                if "surcharge" in g:
                    g["surcharge"].pop("amount", None)
    elif kind == "derived-stale":
        t["sum"] = amt()
        for ct in cats:
            ct["amount"] = amt()
            if "surcharge" in ct or rng.random() < 0.3:
                ct["surcharge"] = amt()
            for g in ct.get("rates") or []:
                g["amount"] = amt()
                if "surcharge" in g:
                    g["surcharge"]["amount"] = amt()
    elif kind == "bases-changed":
        for ct in cats:
            for g in ct.get("rates") or []:
                g["base"] = base()
    elif kind == "surcharge-dropped":
        for ct in cats:
            for g in ct.get("rates") or []:
                if rng.random() < 0.7:
                    g.pop("surcharge", None)
    elif kind == "surcharge-added":
        for ct in cats:
            for g in ct.get("rates") or []:
                if g.get("percent") is not None and "surcharge" not in g and rng.random() < 0.6:
                    g["surcharge"] = {"percent": rng.choice(["5.2%", "1.4%", "0.5%", "1.75%"]), "amount": cg.fmt(cg.A(0, c))}
    return t


def has_surcharge(tt):
    return any("surcharge" in ct or any("surcharge" in g for g in ct.get("rates") or []) for ct in tt.get("categories") or [])


def carried_cases(rng, sources, n_each):
    """sources: list of (input document, serialised calculated document). Returns wire-ready cases."""
    import copy
    cases = []
    bycur = {}
    for src in sources:
        bycur.setdefault(cg.doc_meta(src[0])[1], []).append(src)

    def pick(cur):
        tt = rng.choice(bycur[cur])[1]["totals"]["taxes"]
        kind = rng.choice(VARIANTS)
        return summary_variant(rng, tt, kind, cg.SUBUNITS[cur]), kind

    def ref(i, doc, own_currency=False):
        """own_currency: the reference states its own currency (one of another precision when there is one), and its summary
        comes from a document calculated in that currency"""
        cur = cg.doc_meta(doc)[1]
        r = {"code": "P-%d" % i, "issue_date": "2022-01-1%d" % i}
        if own_currency:
            cur = rng.choice([k for k in bycur if cg.SUBUNITS[k] != cg.SUBUNITS[cur]] or [cur])
            r["currency"] = cur
        r["tax"], kind = pick(cur)
        return r, kind + ("/" + cur if own_currency else "")

    for doc, out in sources[:n_each]:
        # (1) the document itself (invoice, order or delivery as generated) carrying 1-3 summaries in preceding[]
        d = copy.deepcopy(cg.strip_notes(doc))
        kinds = []
        d["preceding"] = []
        # (repaired in /repo f35e6b8: a reference WITHOUT a currency that followed one WITH a currency was calculated in the earlier
        # reference's currency - EUR order, preceding[0] currency JPY, preceding[1] none, base "10.50" at 21% -> base "11", amount "2";
        # references now state their own currency independently of one another, so that case is generated on every run)
        for i in range(rng.choice([1, 1, 2, 3])):
            stated = rng.random() < 0.3
            r, kind = ref(i, doc, stated)
            if i == 0 and not stated and rng.random() < 0.5:
                r["tax"], kind = copy.deepcopy(out["totals"]["taxes"]), "own"
            d["preceding"].append(r)
            kinds.append(kind)
        cases.append({"op": "carry", "container": d["$schema"].rsplit("/", 1)[1] + ".preceding", "document": d, "rounds": rng.choice([1, 1, 2, 3]), "variants": kinds})
    for doc, out in sources[:n_each]:
        # (2) a payment whose lines refer to 1-3 documents with their summaries; the payment's own tax merges them
        cc, cur, c, rr, date = cg.doc_meta(doc)
        p = {"$schema": "https://gobl.org/draft-0/bill/payment", "uuid": "3aea7b56-59d8-4beb-90bd-f8f280d852a0", "type": rng.choice(["receipt", "request"]),
             "code": "R-1", "issue_date": "2022-03-01", "currency": cur, "supplier": copy.deepcopy(doc["supplier"]), "customer": copy.deepcopy(doc["customer"]),
             "lines": []}
        kinds = []
        for i in range(rng.choice([1, 2, 2, 3])):
            stated = rng.random() < 0.15          # payment lines take each document's own currency independently
            r, kind = ref(i, doc, stated)
            if i == 0 and not stated and rng.random() < 0.5:
                r["tax"], kind = copy.deepcopy(out["totals"]["taxes"]), "own"
            p["lines"].append({"document": r, rng.choice(["debit", "credit"]): cg.fmt(cg.A(rng.randrange(1, 900000), c))})
            kinds.append(kind)
        cases.append({"op": "carry", "container": "payment.lines", "document": p, "rounds": rng.choice([1, 1, 2, 3]), "variants": kinds})
    for doc, out in sources[:n_each]:
        # (3) the invoice corrected with copy_tax: preceding[0].tax is the copy of the calculated summary
        d = copy.deepcopy(cg.strip_notes(doc))
        d["$schema"] = "https://gobl.org/draft-0/bill/invoice"
        cases.append({"op": "correct", "container": "invoice.correct(copy_tax)", "document": d, "type": rng.choice(["credit-note", "credit-note", "corrective", "debit-note"]), "variants": ["copy"]})
    return cases


def carried_line(case):
    if case["op"] == "carry":
        return "c02 carry %s %d" % (w(json.dumps(case["document"])), case["rounds"])
    return "c02 correct %s %s" % (w(json.dumps(case["document"])), w(case["type"]))


def carried_summaries(case, out):
    """the carried summaries of a serialised result: (path, summary, decimals of its currency, merged-count)"""
    found = []
    cur = out.get("currency") or cg.doc_meta(case["document"])[1]
    if out.get("$schema", "").endswith("bill/payment"):
        n = 0
        mixed = False
        for i, l in enumerate(out.get("lines") or []):
            dr = l.get("document") or {}
            if dr.get("tax") is not None:
                n += 1
                mixed = mixed or (dr.get("currency") or cur) != cur
                found.append(("lines[%d].document.tax" % i, dr["tax"], cg.SUBUNITS[dr.get("currency") or cur], 1))
        if out.get("tax") is not None and not mixed:    # a merge of summaries in different currencies has no meaning to judge
            found.append(("tax", out["tax"], cg.SUBUNITS[cur], max(1, n)))
    else:
        for i, dr in enumerate(out.get("preceding") or []):
            if dr.get("tax") is not None:
                found.append(("preceding[%d].tax" % i, dr["tax"], cg.SUBUNITS[dr.get("currency") or cur], 1))
    return found


def rule_of(case, out):
    d = case["document"]
    if out.get("$schema", "").endswith("bill/payment"):
        return cg.regime(d["supplier"]["tax_id"]["country"]).get("calculator_rounding_rule") or cg.PRECISE
    return cg.doc_meta(d)[3]


def run_carried(cases):
    """-> list of (case, status, serialised result or None, failures [(path, clause, detail)])"""
    go = run_go([carried_line(x) for x in cases])
    res = []
    for case, g in zip(cases, go):
        gv = parse_wire(g)
        if is_err(gv) or not gv or gv[0] != b"ok":
            res.append((case, (gv[0][1].decode() if is_err(gv) and len(gv[0]) > 1 else "bad-output"), None, [], g))
            continue
        out = json.loads(gv[1])
        exact = rule_of(case, out) == cg.CURRENCY
        fails = []
        for path, tt, c, k in carried_summaries(case, out):
            for clause, detail in judge_summary(tt, c, exact, k):
                fails.append((path, clause, detail))
        res.append((case, "ok", out, fails, g))
    return res


def carried_stream(c, main_results, quick):
    rng = c.rng
    # sources: calculated documents of the main stream whose summary is worth carrying; those with surcharges first
    with_sur, others = [], []
    for r in main_results:
        if not r["in_domain"] or is_err(r["go"]) or r["go"][0] != b"ok" or not r["go"][1][15]:
            continue
        has = any(ct[4] != [] for ct in r["go"][1][15])
        (with_sur if has else others).append(r["doc"])
    ns = 350 if quick else 6000
    srcdocs = with_sur[:ns * 2 // 3] + others[:ns - min(len(with_sur), ns * 2 // 3)]
    rng.shuffle(srcdocs)
    go = run_go(["c02 carry %s 1" % w(json.dumps(cg.strip_notes(d))) for d in srcdocs])
    sources = []
    for d, g in zip(srcdocs, go):
        gv = parse_wire(g)
        if not is_err(gv) and gv and gv[0] == b"ok":
            out = json.loads(gv[1])
            if (out.get("totals") or {}).get("taxes"):
                sources.append((d, out))
    cases = carried_cases(rng, sources, len(sources))
    res = run_carried(cases)
    # a built document built again: the serialised result of a share of the cases goes in as a new input
    again = []
    for case, status, out, fails, raw in res:
        if status == "ok" and not fails and case["op"] == "carry" and rng.random() < 0.5:
            again.append({"op": "carry", "container": case["container"] + " (result calculated again)", "document": out, "rounds": rng.choice([1, 2]),
                          "variants": case["variants"]})
    res += run_carried(again)
    shown = 0
    nbad = 0
    status_counts = {}
    for case, status, out, fails, raw in res:
        status_counts[case["container"].split(" ")[0] + ":" + status] = status_counts.get(case["container"].split(" ")[0] + ":" + status, 0) + 1
        if status != "ok":
            continue
        sums = carried_summaries(case, out)
        nt = any(has_surcharge(tt) or sum(len(ct.get("rates") or []) for ct in tt.get("categories") or []) > 1 for _p, tt, _c, _k in sums)
        c.count("carried-summary-clauses:" + case["container"], max(1, len(sums)), json.dumps(case["document"], sort_keys=True) if nt else None)
        if fails:
            nbad += 1
            by = c.cov.setdefault("carried_failing_by_container", {})
            by[case["container"]] = by.get(case["container"], 0) + 1
            if shown < 3:
                shown += 1
                small, f = shrink_carried(case, fails)
                c.report("carried tax summary clause fails at %s of %s after %s calculation(s): %s (%s)" % (f[0], case["container"], small.get("rounds", 1), f[1], f[2]),
                         {"stream": "carried", "case": small, "where": f[0], "clause": f[1], "all_failures": [list(x) for x in fails[:6]]})
    c.cov["carried_status"] = status_counts
    c.cov["carried_documents_with_failing_clause"] = nbad


def shrink_carried(case, fails):
    """greedy: fewer calculations, only the carried summary that fails, a single plain line, no document rows"""
    import copy
    import re
    cur, f = case, fails[0]

    def attempt(small):
        r = run_carried([small])[0]
        return (small, r[3][0]) if r[1] == "ok" and r[3] else None

    def edits(x):
        d = x["document"]
        if x.get("rounds", 1) > 1:
            yield ("rounds", None)
        m = re.match(r"(preceding|lines)\[(\d+)\]", f[0])
        if m and x["op"] == "carry" and len(d.get(m.group(1)) or []) > 1:
            yield ("only", (m.group(1), int(m.group(2))))
        if not d["$schema"].endswith("bill/payment"):
            for k in ("discounts", "charges", "payment", "totals"):
                if k in d:
                    yield ("del", k)
            if len(d.get("lines") or []) > 1:
                yield ("one-line", None)
            for k in ("discounts", "charges", "breakdown"):
                if any(k in l for l in d.get("lines") or []):
                    yield ("del-l", k)

    for _ in range(12):
        done = True
        for kind, arg in list(edits(cur)):
            small = copy.deepcopy(cur)
            d = small["document"]
            if kind == "rounds":
                small["rounds"] = 1
            elif kind == "only":
                d[arg[0]] = [d[arg[0]][arg[1]]]
            elif kind == "del":
                del d[arg]
            elif kind == "one-line":
                d["lines"] = d["lines"][:1]
            elif kind == "del-l":
                for l in d["lines"]:
                    l.pop(arg, None)
            r = attempt(small)
            if r:
                cur, f = r
                done = False
                break
        if done:
            break
    return cur, f


def run(c):
    quick = c.tier == "quick"
    if not std_builds(c):
        return
    cg.reset_tables()
    proved = c.prove()
    ok, out = build_oracle()
    if not ok:
        c.report("extraction/oracle build failed: " + out[-800:], {"machinery": "oracle"}, no_input=True)
        return
    g = cg.Gen(c.rng)
    g.doc_types = True      # a share of the documents as bill/order and bill/delivery
    g.calc_only = True      # combos that calculate but would not validate (rate key under a country without regime)
    n = 5000 if quick else 250000
    docs = []
    for i in range(n):
        d = g.doc(max_lines=8)
        # combo-focused: make sure most rows carry taxes
        for l in d["lines"]:
            if "taxes" not in l and c.rng.random() < 0.8:
                t = g.taxes(d["supplier"]["tax_id"]["country"])
                if t:
                    l["taxes"] = t
        docs.append(d)
    # documents constructed to sit just under a rounding boundary of a category accumulation (amounts / surcharges of two
    # rate groups of different precision), in both row orders
    docs += cg.boundary_pair_docs(c.rng, 150 if quick else 5000)
    shown = 0
    nbad = 0
    allres = []
    for i in range(0, len(docs), 20000):
        res = cg.run3(docs[i:i + 20000])
        allres += [r for r in res if len(allres) < 60000]
        c01.judge(c, res, "combo-focused", prop="C02")
        for r in res[:1]:
            c.sample({"document": r["doc"], "implementation": r["go_raw"][-400:]}, limit=3)
        for r in res:
            if not r["in_domain"] or is_err(r["go"]) or r["go"][0] != b"ok":
                continue
            bad = judge_tax(r["doc"], r["go"][1], r["py"])
            ngroups = sum(len(ct[2]) for ct in r["go"][1][15])
            c.count("tax-summary-clauses", 1, json.dumps(r["doc"], sort_keys=True) if ngroups > 1 else None)
            if bad:
                nbad += 1
                if shown < 3:
                    shown += 1
                    def fails(d):
                        x = cg.run3([d])[0]
                        return x["in_domain"] and not is_err(x["go"]) and x["go"][0] == b"ok" and bool(judge_tax(d, x["go"][1], x["py"]))
                    small = cg.shrink_doc(r["doc"], fails)
                    x = cg.run3([small])[0]
                    bad = judge_tax(small, x["go"][1], x["py"])
                    c.report("tax summary clause fails: %s (%s)" % bad[0], {"document": small, "implementation": x["go_raw"], "clause": bad[0][0], "all_failures": bad[:6]})
    import time
    t0 = time.time()
    carried_stream(c, allres, quick)
    c.cov["carried_seconds"] = round(time.time() - t0, 1)
    c.cov["rule"] = ("invoices with combo-rich rows: ordinary and retained categories, rate keys, explicit percents equal in value but different in precision, exempt vs 0 %, "
                     "surcharges, extension-qualified rates, per-combo country overrides, zero and negative totals, with and without an included category, both rules, ES/EL/PT; "
                     "distinct non-trivial = distinct documents whose summary has at least two rate groups; "
                     "carried summaries (streams carried-summary-clauses:*): the calculated summaries of a share of those documents, verbatim or with derived "
                     "figures missing / stale / bases changed (currency's decimals or up to two more) / surcharges dropped or added, with and without a currency of their own, carried in preceding[].tax of invoices, orders and deliveries, in "
                     "payment lines[].document.tax (and merged into the payment's tax), and copied by Invoice.Correct(copy_tax); calculated 1-3 times in one "
                     "process and once more from the serialised result; the same clauses judged on every carried summary that comes out; "
                     "distinct non-trivial there = distinct carrying documents with a surcharge or at least two groups in a carried summary")
    c.cov["documents_with_failing_clause"] = nbad
    c.cov["gross_identity_clause_judged"] = dict(GROSS_JUDGED)
    if not proved:
        pr = c.proof
        c.report("proof obligations of Props/C02.v no longer check: " + (pr.get("make_log") or pr.get("log", ""))[-600:],
                 {"theorem": "rocq/Props/C02.v", "failed_files": pr.get("failed_files"), "forbidden": pr.get("forbidden")}, no_input=True)


def replay(path):
    r = json.load(open(path))["replay"]
    build_harness()
    if r.get("stream") == "carried":
        case, status, out, fails, raw = run_carried([r["case"]])[0]
        print("implementation:", status, json.dumps(out)[:3000] if out else raw[:400])
        for path_, tt, c_, k in (carried_summaries(case, out) if out else []):
            print(path_, json.dumps(tt))
        print("failing clauses:", fails)
        return 0
    x = cg.run3([r["document"]])[0]
    print("implementation:", x["go_raw"])
    print("model:         ", x["model_raw"])
    if not is_err(x["go"]) and x["go"][0] == b"ok":
        print("failing clauses:", judge_tax(r["document"], x["go"][1], x["py"]))
    return 0
