"""C02 - tax summary partitions taxable amounts and sums them correctly.
Tie: the calculation correspondence of C01 restricted to a combo-focused generator; oracle P checks
the partition / sum clauses directly on the implementation's presented figures."""
from fractions import Fraction
from vlib import *
import calcgen as cg
import c01

TRUSTED = c01.TRUSTED
Z = Fraction(0)


def q(a):
    return None if a == [] else Fraction(a[0], 10 ** a[1])


def group_key(country, ext, pct, sur):
    return (country, tuple(ext), pct, sur)


def judge_tax(doc, t, py):
    """clauses of C02 on the presented result t; returns list of (clause, detail)."""
    cc, cur, c, rr, date = cg.doc_meta(doc)
    unit = Fraction(1, 10 ** c)
    exact = rr == cg.CURRENCY
    bad = []
    pit = (doc.get("tax") or {}).get("prices_include")
    # groups are kept apart: distinct keys within a category, exempt never merged with 0 %
    cats = {}
    for ct in t[15]:
        seen = {}
        for g in ct[2]:
            k = group_key(g[0], [tuple(x) for x in g[1]], q(g[2]), q(g[3]))
            if k in seen:
                bad.append(("groups are distinguished by country, percentage, surcharge and extensions", "%s: duplicate group %s" % (ct[0], k)))
            seen[k] = g
        if ct[0] in cats:
            bad.append(("one summary row per category", ct[0].decode()))
        cats[ct[0]] = (ct, seen)
    # every taxed row contributes to exactly one group of its category; bases are the sums of the rows' tax-exclusive totals
    rows = []
    lines = t[0]
    for i, l in enumerate(doc["lines"]):
        rows.append((q(lines[i][2]), l.get("taxes") or [], lines[i][2][1]))
    for k, sign in (("discounts", -1), ("charges", 1)):
        for j, d in enumerate(doc.get(k, [])):
            a = t[11 if k == "discounts" else 12][j]
            rows.append((sign * q(a), d.get("taxes") or [], a[1]))
    expect = {}
    nrows = {}
    slack = {}
    for tot, taxes, e_row in rows:
        for tx in taxes:
            cb = cg.resolve_combo(cc, tx, date)
            if cb is None:
                continue
            key = (cb["cat"].encode(), group_key(cb["country"].encode(), [(a.encode(), b.encode()) for a, b in cb["ext"]],
                                                  None if cb["pct"] is None else cb["pct"].q(), None if cb["sur"] is None else cb["sur"].q()))
            base = tot
            if pit and cb["cat"] == pit and cb["pct"] is not None:
                pass   # handled below through the included-tax identity; bases are tax-exclusive
            expect[key] = expect.get(key, Z) + base
            nrows[key] = nrows.get(key, 0) + 1
            # a presented row is the internal one rounded to its own precision (rows presented at the currency's
            # precision under the currency rule are exact)
            slack[key] = slack.get(key, Z) + (Z if (exact and e_row >= c) else Fraction(1, 2 * 10 ** e_row))
    for (cat, k), base in expect.items():
        if cat not in cats or k not in cats[cat][1]:
            bad.append(("each taxed row contributes to exactly one rate group of its category", "no group %s in %s" % (k, cat)))
    for cat, (ct, seen) in cats.items():
        for k in seen:
            if (cat, k) not in expect:
                bad.append(("groups come only from taxed rows", "group %s of %s has no row" % (k, cat)))
    if not pit:
        for (cat, k), base in expect.items():
            if cat in cats and k in cats[cat][1]:
                got = q(cats[cat][1][k][4])
                tol = slack[(cat, k)] + (Z if exact else unit / 2)
                if abs(got - base) > tol:
                    bad.append(("a group's base is the sum of its rows' tax-exclusive totals", "%s %s: base %s, rows sum %s" % (cat, k, got, base)))
    # amounts
    tsum = Z
    for cat, (ct, seen) in cats.items():
        ra, rs, anysur = Z, Z, False
        for k, g in seen.items():
            pct, sur, base, am, sam = q(g[2]), q(g[3]), q(g[4]), q(g[5]), q(g[6])
            if pct is None:
                if am != 0:
                    bad.append(("exempt groups have no amount", str(am)))
                continue
            # precise rule: computed from the unrounded base at c+2 decimals, then rounded again for presentation
            tol = Z if exact else unit / 2 + abs(pct) * unit / 2 + unit / 100
            if abs(am - pct * base) > tol + (unit / 2 if exact else 0):
                bad.append(("each group's amount is its percentage of its base", "%s: %s vs %s x %s" % (cat, am, pct, base)))
            if sur is not None:
                anysur = True
                if abs(sam - sur * base) > unit / 2 + abs(sur) * unit / 2 + unit / 100:
                    bad.append(("surcharge amount is the surcharge percentage of the base", "%s: %s vs %s x %s" % (cat, sam, sur, base)))
                rs += sam
            ra += am
        n = max(1, len(seen))
        if abs(q(ct[3]) - ra) > (Z if exact else unit * n / 2):
            bad.append(("a category's amount is the sum of its groups", "%s: %s vs %s" % (cat, q(ct[3]), ra)))
        if anysur and (q(ct[4]) is None or abs(q(ct[4]) - rs) > (Z if exact else unit * n / 2)):
            bad.append(("a category's surcharge is the sum of its groups' surcharges", "%s: %s vs %s" % (cat, q(ct[4]), rs)))
        v = q(ct[3]) + (q(ct[4]) or Z)
        tsum += -v if ct[1] else v
    if t[15]:
        ncat = len(cats)
        if abs(q(t[16]) - tsum) > (Z if exact else unit * ncat):
            bad.append(("the tax total adds ordinary categories and subtracts retained ones including surcharges", "%s vs %s" % (q(t[16]), tsum)))
    # prices include a tax and no other tax applies: total with tax = gross sum of the lines
    if pit and t[15]:
        only = all(all(tx["cat"] == pit and not tx.get("surcharge") and "+eqs" not in tx.get("rate", "") for tx in taxes) for _, taxes, _e in rows)
        if only and all(ct[4] == [] for ct in t[15]):
            gross = q(t[1]) - (q(t[2]) or Z) + (q(t[3]) or Z)
            tol = Z if exact else unit * 2
            if abs(q(t[7]) - gross) > tol:
                bad.append(("with an included tax and no other tax, total with tax equals the gross sum of the lines", "%s vs %s" % (q(t[7]), gross)))
    return bad


def run(c):
    quick = c.tier == "quick"
    if not std_builds(c):
        return
    cg.reset_tables()
    proved = c.prove()
    ok, out = build_oracle()
    if not ok:
        c.report("extraction/oracle build failed: " + out[-800:], {"machinery": "oracle"}, no_input=True)
        return
    g = cg.Gen(c.rng)
    g.doc_types = True      # a share of the documents as bill/order and bill/delivery
    g.calc_only = True      # combos that calculate but would not validate (rate key under a country without regime)
    n = 5000 if quick else 250000
    docs = []
    for i in range(n):
        d = g.doc(max_lines=8)
        # combo-focused: make sure most rows carry taxes
        for l in d["lines"]:
            if "taxes" not in l and c.rng.random() < 0.8:
                t = g.taxes(d["supplier"]["tax_id"]["country"])
                if t:
                    l["taxes"] = t
        docs.append(d)
    # documents constructed to sit just under a rounding boundary of a category accumulation (amounts / surcharges of two
    # rate groups of different precision), in both row orders
    docs += cg.boundary_pair_docs(c.rng, 150 if quick else 5000)
    shown = 0
    nbad = 0
    for i in range(0, len(docs), 20000):
        res = cg.run3(docs[i:i + 20000])
        c01.judge(c, res, "combo-focused", prop="C02")
        for r in res[:1]:
            c.sample({"document": r["doc"], "implementation": r["go_raw"][-400:]}, limit=3)
        for r in res:
            if not r["in_domain"] or is_err(r["go"]) or r["go"][0] != b"ok":
                continue
            bad = judge_tax(r["doc"], r["go"][1], r["py"])
            ngroups = sum(len(ct[2]) for ct in r["go"][1][15])
            c.count("tax-summary-clauses", 1, json.dumps(r["doc"], sort_keys=True) if ngroups > 1 else None)
            if bad:
                nbad += 1
                if shown < 3:
                    shown += 1
                    def fails(d):
                        x = cg.run3([d])[0]
                        return x["in_domain"] and not is_err(x["go"]) and x["go"][0] == b"ok" and bool(judge_tax(d, x["go"][1], x["py"]))
                    small = cg.shrink_doc(r["doc"], fails)
                    x = cg.run3([small])[0]
                    bad = judge_tax(small, x["go"][1], x["py"])
                    c.report("tax summary clause fails: %s (%s)" % bad[0], {"document": small, "implementation": x["go_raw"], "clause": bad[0][0], "all_failures": bad[:6]})
    c.cov["rule"] = ("invoices with combo-rich rows: ordinary and retained categories, rate keys, explicit percents equal in value but different in precision, exempt vs 0 %, "
                     "surcharges, extension-qualified rates, per-combo country overrides, zero and negative totals, with and without an included category, both rules, ES/EL/PT; "
                     "distinct non-trivial = distinct documents whose summary has at least two rate groups")
    c.cov["documents_with_failing_clause"] = nbad
    if not proved:
        pr = c.proof
        c.report("proof obligations of Props/C02.v no longer check: " + (pr.get("make_log") or pr.get("log", ""))[-600:],
                 {"theorem": "rocq/Props/C02.v", "failed_files": pr.get("failed_files"), "forbidden": pr.get("forbidden")}, no_input=True)


def replay(path):
    r = json.load(open(path))["replay"]
    build_harness()
    x = cg.run3([r["document"]])[0]
    print("implementation:", x["go_raw"])
    print("model:         ", x["model_raw"])
    if not is_err(x["go"]) and x["go"][0] == b"ok":
        print("failing clauses:", judge_tax(r["document"], x["go"][1], x["py"]))
    return 0
