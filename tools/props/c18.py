"""C18 - validated documents only reference defined codes, keys and rates.

proof   rocq/Props/C18.v: refcheck_sound (the transcribed reference rules accept only documents whose
        references all resolve, for ALL tables and documents), refcheck_sound_shipped_refuted /
        combo_country_shipped_refuted (the rules as shipped are not), resolves_published_iff_in_code
        (corollary of C19), per-kind theorems, all_patterns_supported.
tie     translator (Gen/Regimes.v, Addons.v, Catalogues.v, Currencies.v, Countries.v, Published.v);
        `vharness c18 run`: gobl.Parse -> Envelop (calculate) -> Validate on every mutated document and the
        REFERENCE VIEW of the calculated document (reflection over the Go structures); the extracted rules
        (`c18 check` over the in-code tables, `c18 check-published` over the published ones) run on that view.
P       (python, independent of the model) every reference of the view is resolved in the PUBLISHED JSON
        (data/regimes, data/addons, data/catalogues, data/currency, data/schemas/l10n):
        Go accepted  =>  every reference resolves.   A document Go accepts with an unresolved reference is the
        failing input (single replacement: already minimal).
        hard correspondence: Go accepted => the shipped-rule model accepts, unless the oracle also finds an
        unresolved reference (then it is a failing input, not a modelling question); model(published tables,
        repaired rules) and the oracle must name the same unresolved references on EVERY view.
rate    `c18 raterule`: the rule a combo's rate key is validated with (RegimeDef.InCategoryRates), on a key alone, for every
        published rate key and its look-alikes with an undefined FIRST `+` component (`bogus+standard`); Go == transcribed
        rule; accepted => first component is a rate of the category in the published files.
sweep   every valid example x every reference position (regime, addons, tags, combo category / rate / country,
        extension keys and values at every place, currencies, countries incl. addresses, tax ids, party regimes)
        x {every / a bounded sample of the OTHER DEFINED values of its kind, undefined values}.
        category references include `tax.prices_include` (a category of the document's regime named by its code alone), also
        put into the documents that leave it out.
mixed   tax sets whose combos fall under different regimes (mixed_set_cases): a combo with a `country` override put in front of /
        behind the combos of a set, the neighbouring combo without override then naming a category or rate key only the
        override country defines; read-and-validate flow on every document, build flow on a sample.
"""
import copy
import glob
import json
import os
import re
import subprocess
import time

from vlib import *

LEVEL = "proof"
TRUSTED = [
    "regexp.MatchString is an argument `mp` of every statement; the runner instantiates it with the Gallina matcher "
    "Defs/RefCheck.v simple_match (anchored fixed-shape patterns), proved to cover every declared pattern "
    "(all_patterns_supported) and compared with Go on every pattern-valued extension the sweep mutates",
    "the reference view is produced by harness/c18.go (reflection over tax.Regime/Addons/Tags/Combo/Extensions, "
    "currency.Code, l10n.ISOCountryCode/TaxCountryCode); the check verifies that each replaced value shows up in it "
    "or counts it as normalised away",
    "partial: the theorems cover the generic reference rules of tax/, bill/, currency/, l10n/; regime- and "
    "addon-specific validators are exercised by the sweep only; category codes and rate keys inside tax TOTALS "
    "(derived, or copied in payment lines) are not reference positions of this check",
    "an extension key `defined by the regime, an addon or a catalogue` is read as the library's global registry: "
    "any regime, any addon (active or not), any catalogue; accepted keys foreign to the document's regime and "
    "addons are counted (coverage.informational)",
]

F_REGIME = "C18-regime-not-checked"
F_COMBO_COUNTRY = "C18-combo-country-not-validated"
F_ORDER_TAX = "C18-order-tax-not-validated"
F_PAYLINE_TAX = "C18-payment-line-document-tax-not-validated"
F_CURRENCY_PANIC = "C18-unknown-item-currency-panics"
F_TAGS_NON_INVOICE = "C18-tags-not-validated-outside-invoices"

UNDEFINED = {"regime": ["QQ"], "addon": ["zz-unknown-v1"], "tag": ["zz-unknown"], "category": ["QQ", "ZZZ9"],
             "rate": ["zz-unknown"], "combo-country": ["QQ"], "ext-key": ["zz-unknown", "es-zz-unknown"],
             "ext-value": ["QQ", "zz-unknown"], "currency": ["QQQ", "XXA"], "country": ["QQ", "ZZ"]}


# ----------------------------------------------------------------------------------------------
# published definitions (the oracle's tables) - read from JSON, nothing from the model
# ----------------------------------------------------------------------------------------------

def L(d, k):
    return (d.get(k) if isinstance(d, dict) else None) or []


class Tables:
    """definition tables read from JSON: the published files (the oracle's tables) or the in-code dump (pools only)"""

    def __init__(self, regime_list, addon_list, catalogue_list, currencies, iso, tax):
        self.regimes, self.addons, self.ext = {}, {}, {}
        self.regime_list = regime_list
        for d in regime_list:
            for code in [d.get("country")] + L(d, "alt_country_codes"):
                self.regimes.setdefault(code, d)
        for d in addon_list:
            self.addons.setdefault(d.get("key"), d)
        self.ext_owner = {}
        for kind, ds in (("regime", regime_list), ("addon", addon_list), ("catalogue", catalogue_list)):
            for d in ds:
                for e in L(d, "extensions"):
                    self.ext.setdefault(e.get("key"), e)
                    self.ext_owner.setdefault(e.get("key"), (kind, d.get("country") or d.get("key")))
        self.currencies, self.iso, self.tax = set(currencies), set(iso), set(tax)
        # pools of defined values per kind
        self.pool = {
            "regime": sorted(self.regimes),
            "addon": sorted(self.addons),
            "tag": sorted({t.get("key") for d in regime_list + addon_list for ts in L(d, "tags") for t in L(ts, "list")}),
            "category": sorted({c.get("code") for d in regime_list for c in L(d, "categories")}),
            "rate": sorted({r.get("key") for d in regime_list for c in L(d, "categories") for r in L(c, "rates")}),
            "combo-country": sorted(self.tax),
            "ext-key": sorted(self.ext),
            "currency": sorted(self.currencies),
            "country": sorted(self.iso | self.tax),
        }

    @classmethod
    def published(cls, repo):
        rd = lambda sub: [json.load(open(f)) for f in sorted(glob.glob(os.path.join(repo, "data", sub, "*.json")))]
        cur = {d.get("iso_code") for f in glob.glob(os.path.join(repo, "data", "currency", "*.json")) for d in json.load(open(f))}
        t = cls(rd("regimes"), rd("addons"), rd("catalogues"), cur,
                cls.consts(repo, "l10n/iso-country-code.json", "ISOCountryCode"), cls.consts(repo, "l10n/tax-country-code.json", "TaxCountryCode"))
        t.schema_currencies = set(cls.consts(repo, "currency/code.json", "Code"))
        return t

    @classmethod
    def in_code(cls):
        """what the linked library registers: `vharness c19dump` (the JSON its generators would write) + `c18 tables`"""
        p = subprocess.run([os.path.join(BIN, "vharness"), "c19dump"], stdout=subprocess.PIPE, env=GOENV, timeout=120)
        if p.returncode != 0:
            raise RuntimeError("vharness c19dump failed")
        d = json.loads(p.stdout)
        cs, cur = parse_wire(run_go(["c18 tables"], shards=1)[0])
        return cls(list(d["regimes"].values()), list(d["addons"].values()), list(d["catalogues"].values()),
                   [x.decode() for x in cur], [x[0].decode() for x in cs if x[1]], [x[0].decode() for x in cs if x[2]])

    @staticmethod
    def consts(repo, rel, name):
        d = json.load(open(os.path.join(repo, "data", "schemas", rel)))
        return [x["const"] for x in d["$defs"][name]["oneOf"]]

    def ext_values(self, key):
        e = self.ext.get(key)
        return [v.get("code") for v in L(e, "values")] if e else []

    # ---- resolution, from the property text ----
    @staticmethod
    def offers(d, schema, tag):
        return any(ts.get("schema") == schema and any(t.get("key") == tag for t in L(ts, "list")) for ts in L(d, "tags"))

    def ext_unresolved(self, key, value):
        e = self.ext.get(key)
        if e is None:
            return "ext-key"
        vals = L(e, "values")
        if vals and value not in [v.get("code") for v in vals]:
            return "ext-value"
        pat = e.get("pattern")
        if pat:
            p = pat[:-1] + r"\Z" if pat.endswith("$") and not pat.endswith(r"\$") else pat
            if re.search(p, value) is None:
                return "ext-value"
        return None

    def unresolved(self, view):
        """-> set of (kind, path, detail) for every reference of the view that does not resolve"""
        regime, addons, schema, tags, combos, exts, currencies, countries = view
        out = set()
        if regime and regime not in self.regimes:
            out.add(("regime", "$regime", regime))
        for a in addons:
            if a not in self.addons:
                out.add(("addon", "$addons", a))
        rd = self.regimes.get(regime)
        for t in tags:
            ok = (rd is not None and self.offers(rd, schema, t)) or any(a in self.addons and self.offers(self.addons[a], schema, t) for a in addons)
            if not ok:
                out.add(("tag", "$tags", t))
        for path, cat, rate, country, ext in combos:
            r = self.regimes.get(country or regime)
            cd = None
            if r is not None:
                cd = next((c for c in L(r, "categories") if c.get("code") == cat), None)
                if cd is None:
                    out.add(("category", path, cat))
            elif not cat:
                out.add(("category", path, cat))
            if rate:
                # the rate a key names is its FIRST `+` component (free suffixes may follow: `exempt+reverse-charge`);
                # a rate named in a later component (`bogus+standard`) does not make the key a rate of the category
                first = rate.split("+", 1)[0]
                if cd is None or not any(x.get("key") == first for x in L(cd, "rates")):
                    out.add(("rate", path, rate))
            for k, v in ext:
                u = self.ext_unresolved(k, v)
                if u:
                    out.add((u, path, k))
        for path, k, v in exts:
            u = self.ext_unresolved(k, v)
            if u:
                out.add((u, path, k))
        for path, code in currencies:
            if code not in self.currencies:
                out.add(("currency", path, code))
        for path, kind, code in countries:
            if not code:
                continue
            ok = {"iso": code in self.iso, "tax": code in self.tax, "combo": code in self.tax,
                  "regime": code in self.regimes}.get(kind, False)
            if not ok:
                out.add(("country", path, code))
        return out


def decode_view(v):
    """wire view (bytes) -> python tuples of str"""
    s = lambda b: b.decode("utf-8", "replace") if isinstance(b, (bytes, bytearray)) else str(b)
    regime, addons, schema, tags, combos, exts, currencies, countries = v
    return (s(regime), [s(a) for a in addons], s(schema), [s(t) for t in tags],
            [(s(c[0]), s(c[1]), s(c[2]), s(c[3]), [(s(p[0]), s(p[1])) for p in c[4]]) for c in combos],
            [(s(e[0]), s(e[1]), s(e[2])) for e in exts],
            [(s(e[0]), s(e[1])) for e in currencies],
            [(s(e[0]), s(e[1]), s(e[2])) for e in countries])


# ----------------------------------------------------------------------------------------------
# mutations
# ----------------------------------------------------------------------------------------------

def doc_of(j):
    return j["doc"] if isinstance(j, dict) and "doc" in j and "head" in j else j


def node_at(doc, path):
    """-> the JSON node at a view path, or None when the input document has no such member"""
    cur = doc
    if path == "":
        return cur
    for p in path.split("/"):
        if isinstance(cur, list):
            if not p.isdigit() or int(p) >= len(cur):
                return None
            cur = cur[int(p)]
        elif isinstance(cur, dict):
            if p not in cur:
                return None
            cur = cur[p]
        else:
            return None
    return cur


def positions(doc, view):
    """reference positions of an example: (kind, path, old value, detail) - path addresses the INPUT document"""
    regime, addons, schema, tags, combos, exts, currencies, countries = view
    pos = [("regime", "$regime", doc.get("$regime", regime), None)]
    for i, a in enumerate(doc.get("$addons") or []):
        pos.append(("addon", "$addons/%d" % i, a, None))
    for i, t in enumerate(doc.get("$tags") or []):
        pos.append(("tag", "$tags/%d" % i, t, None))
    for path, cat, rate, country, ext in combos:
        n = node_at(doc, path)
        if isinstance(n, str):
            # a member that names a category of the document's regime by its code alone (`tax/prices_include`)
            pos.append(("category", path, n, None))
            continue
        if not isinstance(n, dict):
            continue
        pos.append(("category", path + "/cat", n.get("cat"), None))
        pos.append(("rate", path + "/rate", n.get("rate", ""), None))
        pos.append(("combo-country", path + "/country", n.get("country", ""), None))
        for k, v in (n.get("ext") or {}).items():
            pos.append(("ext-key", path + "/ext", k, v))
            pos.append(("ext-value", path + "/ext", v, k))
    seen = set()
    for path, k, v in exts:
        n = node_at(doc, path)
        if not isinstance(n, dict) or k not in n or (path, k) in seen:
            continue
        seen.add((path, k))
        pos.append(("ext-key", path, k, n[k]))
        pos.append(("ext-value", path, n[k], k))
    for path, code in currencies:
        if isinstance(node_at(doc, path), str):
            pos.append(("currency", path, node_at(doc, path), None))
    for path, kind, code in countries:
        if kind != "combo" and isinstance(node_at(doc, path), str):
            pos.append(("country", path, node_at(doc, path), kind))
    return pos


def apply_mutation(j, kind, path, old, new, detail):
    """-> a copy of the example with exactly one reference replaced"""
    j = copy.deepcopy(j)
    doc = doc_of(j)
    if kind == "regime":
        doc["$regime"] = new
        return j
    if kind == "ext-key":
        n = node_at(doc, path)
        n[new] = n.pop(old)
        return j
    if kind == "ext-value":
        node_at(doc, path)[detail] = new
        return j
    parent, _, last = path.rpartition("/")
    n = node_at(doc, parent)
    if isinstance(n, list):
        n[int(last)] = new
    else:
        n[last] = new
        if kind == "rate" and not old:
            n.pop("percent", None)      # a rate key replaces the explicit percentage
    return j


class Pools:
    """the defined values of each kind: published or registered in the code; a value defined on ONE side only is
    tried at every position of its kind (it is where code and published files could disagree)"""

    def __init__(self, pub, code):
        self.pub, self.code = pub, code

    def values(self, kind, detail):
        def both(f):
            a, b = set(f(self.pub)), set(f(self.code))
            return sorted(a | b), sorted(a ^ b)
        if kind == "ext-value":
            return both(lambda t: t.ext_values(detail))
        if kind == "country":
            return both(lambda t: t.iso if detail == "iso" else t.regimes if detail == "regime" else t.tax)
        return both(lambda t: t.pool[kind])

    def all_ext_codes(self):
        return sorted({v for t in (self.pub, self.code) for k in t.ext for v in t.ext_values(k)})


def candidates(c, pools, kind, old, detail, quick):
    """-> [(new value, class)] : the OTHER defined values of the kind (all of them, or a bounded sample) + undefined ones"""
    out = []
    pool, one_sided = pools.values(kind, detail)
    pool = [x for x in pool if x != old]
    extra = []
    if kind == "ext-value":
        other = [v for v in pools.all_ext_codes() if v not in pool and v != old]
        extra = c.rng.sample(other, min(len(other), 3 if quick else 25))
    bound = {"regime": None, "addon": None, "tag": 5, "category": 5, "rate": 5, "combo-country": 3, "ext-key": 4,
             "ext-value": 3, "currency": 3, "country": 3}[kind]
    if not quick:
        bound = None            # thorough: EVERY other defined value of the kind
    if bound is not None and len(pool) > bound:
        keep = [x for x in one_sided if x != old]
        pool = keep + c.rng.sample([x for x in pool if x not in keep], max(0, bound - len(keep)))
    out += [(x, "defined-other") for x in pool + extra]
    und = UNDEFINED[kind]
    out += [(x, "undefined") for x in (und[:1] if quick and kind not in ("regime", "category", "ext-key") else und)]
    if old:
        # written variants of the DEFINED value that are not themselves defined: other letter case, padding
        # (a lookup that folds case or trims would let them through; judged on the accepted output's own references)
        full, _ = pools.values(kind, detail)
        vs = [old.lower(), old.upper(), old[:1].upper() + old[1:].lower(), old[:1].lower() + old[1:], old + " "]
        vs = [v for i, v in enumerate(vs) if v != old and v not in full and v not in vs[:i]]
        out += [(v, "undefined-variant") for v in (vs[:2] if quick else vs)]
    if kind == "rate" and old:
        out.append((old + "+zz-unknown", "undefined-part"))     # Key.HasPrefix: a defined FIRST part is enough (by design)
        # ... but a defined part anywhere else is not: undefined word first, a later part of the key first
        out.append(("bogus+" + old, "undefined-first-part"))
        out.append(("zz-unknown+" + old + "+x", "undefined-first-part"))
        ps = old.split("+")
        full, _ = pools.values(kind, detail)
        if len(ps) > 1 and ps[-1] not in full:
            out.append(("+".join(ps[1:] + ps[:1]), "undefined-first-part"))     # `eqs+standard` for `standard+eqs`
    if kind == "ext-key" and old:
        out.append((old + "+zz", "undefined"))                  # a defined key with an undefined sub-key is not a defined key
    return out


# ----------------------------------------------------------------------------------------------
# findings: narrow matchers (reference kind + place)
# ----------------------------------------------------------------------------------------------

def finding_for(schema, ref):
    kind, path, detail = ref
    if kind == "regime" or (kind == "country" and path.endswith("$regime")):
        return F_REGIME
    if kind == "country" and re.fullmatch(r"(.*/)?taxes/\d+/country|totals/taxes/categories/\d+/rates/\d+/country", path):
        return F_COMBO_COUNTRY      # the override of a combo, and its copy in the derived totals
    if schema == "bill/order" and kind in ("ext-key", "ext-value") and path == "tax/ext":
        return F_ORDER_TAX
    if schema == "bill/payment" and kind in ("ext-key", "ext-value") and re.fullmatch(r"(lines/\d+/document/)?tax/categories/\d+/rates/\d+/ext", path):
        return F_PAYLINE_TAX        # the tax summary of a payment line's document, and its copy in the payment's own summary
    if kind == "tag" and schema in ("bill/order", "bill/delivery", "bill/payment"):
        return F_TAGS_NON_INVOICE
    return None


# ----------------------------------------------------------------------------------------------

def pattern_probes(c, pattern):
    """values around a declared pattern: digit strings of every length up to 12, with the separators the patterns
    mention put in at every place, with a letter, a space, a newline, and random printable strings"""
    out = {"", "0", "A", " ", "zz-unknown"}
    seps = ["", ".", "-", "/", " ", "\t", "a", "\n", "\u00e9"]
    for n in range(1, 13):
        d = "".join(str((i * 7 + 3) % 10) for i in range(n))
        out.add(d)
        for i in range(n + 1):
            for sp in seps[1:]:
                out.add(d[:i] + sp + d[i:])
        if n >= 4:
            for _ in range(6):
                parts, k = [], 0
                while k < n:
                    st = c.rng.choice([1, 2, 2, 3])
                    parts.append(d[k:k + st])
                    k += st
                out.add("".join(p + c.rng.choice(seps[:5]) for p in parts))
                out.add("".join(p + c.rng.choice(seps[:5]) for p in parts)[:-1])
    for _ in range(40):
        out.add("".join(c.rng.choice("0123456789.-/ aZ") for _ in range(c.rng.randint(1, 11))))
    return sorted(out)


def proof_error(pr):
    log = pr.get("make_log") or pr.get("log", "")
    m = re.search(r'File "[^"]+", line \d+, characters [\d-]+:\nError:.*?(?=\n\n|\nmake|\Z)', log, re.S)
    if m:
        return m.group(0)[:700]
    if pr.get("forbidden"):
        return "forbidden vernacular: %s" % pr["forbidden"][:3]
    return log[-400:]


def pay_keys_stream(c, examples):
    """payment-means keys (payment.instructions.key, payment.advances[].key, a payment's method.key): a key is defined
    when it is one of the published base keys (pay/instructions schema) or extends one with `+...`.  Every such position
    of the examples gets undefined look-alikes; oracle only (the reference model covers the kinds the statement lists)."""
    try:
        j = json.load(open(os.path.join(REPO, "data", "schemas", "pay", "instructions.json")))
        consts = [a["const"] for a in j["$defs"]["Instructions"]["properties"]["key"]["anyOf"] if isinstance(a, dict) and "const" in a]
    except (OSError, KeyError, ValueError, TypeError):
        return
    base = sorted({k.split("+")[0] for k in consts})
    fakes = ["cashier", "cardboard", "others", "anything", "netting2", "zz-unknown", "cash-x", "Cash", "card ", "credit", "credit-transfers", "transfer"]
    fakes += [b + "x" for b in base[:3]] + [b[:-1] for b in base[:3] if len(b) > 3]
    fakes = [f for f in fakes if f.split("+")[0] not in base]
    cases = []
    seen = set()
    for name, doc in examples:
        d = doc.get("doc") if isinstance(doc.get("doc"), dict) else doc
        pos = []
        pay = d.get("payment") if isinstance(d.get("payment"), dict) else None
        if pay and isinstance(pay.get("instructions"), dict) and "key" in pay["instructions"]:
            pos.append(("payment", "instructions", "key"))
        if pay and isinstance(pay.get("advances"), list):
            pos += [("payment", "advances", i, "key") for i, a in enumerate(pay["advances"]) if isinstance(a, dict)]
        if isinstance(d.get("method"), dict) and "key" in d["method"]:
            pos.append(("method", "key"))
        for pth in pos:
            gp = (d.get("$schema"), d.get("type"), tuple("*" if isinstance(x, int) else x for x in pth))
            if gp in seen and len(seen) > 6:
                continue
            seen.add(gp)
            for f in fakes:
                m = json.loads(json.dumps(doc))
                t = m.get("doc") if isinstance(m.get("doc"), dict) else m
                for x in pth[:-1]:
                    t = t[x]
                t[pth[-1]] = f
                cases.append((name, pth, f, m))
    shown = 0
    for (name, pth, f, m), g in zip(cases, go_run([x[3] for x in cases])):
        verdict = g[0][0].decode()
        c.count("pay-key/undefined/" + verdict, 1, (name, pth, f))
        if verdict == "accepted" and shown < 3:
            shown += 1
            c.report("%s validates although the payment-means key `%s` at %s is not a published key nor an extension of one" % (name, f, "/".join(map(str, pth))),
                     {"example": name, "path": list(pth), "value": f, "published_base_keys": base, "document": m,
                      "mutation": {"kind": "pay-key", "path": "/".join(map(str, pth)), "new": f},
                      "clause": "a document that passes validation only references defined codes, keys and rates"})
        elif verdict == "panic" and shown < 3:
            shown += 1
            c.report("payment-means key `%s` at %s of %s makes the library panic" % (f, "/".join(map(str, pth)), name), {"example": name, "value": f})


def rate_rule_stream(c, pub):
    """the rule Combo.ValidateWithContext puts on a combo's rate key (RegimeDef.InCategoryRates), applied to a key ALONE:
    in a document the calculation resolves the key first (CategoryDef.RateDef) and fails before validation is reached,
    so the rule itself is only seen when a combo is validated without being calculated.
    every published regime x category x rate key x {the key, + an undefined suffix, an undefined word first, a later
    component first} + the recorded witness.  P (python, published tables): accepted => the key's FIRST component is a
    rate of the category; correspondence: Go == transcribed rule over the in-code tables."""
    cases = [("ES", "VAT", k, "corpus") for k in ("bogus+standard", "eqs+standard", "bogus+standard+x", "bogus", "standard+bogus",
                                                  "standard+eqs", "exempt+reverse-charge", "", "standard+", "+standard")]
    cases += [("QQ", "VAT", "standard", "no-regime"), ("QQ", "VAT", "", "no-regime"), ("ES", "QQ", "standard", "no-category"), ("ES", "QQ", "", "no-category")]
    for code, r in sorted(pub.regimes.items()):
        for cat in L(r, "categories"):
            keys = [x.get("key") for x in L(cat, "rates")]
            for k in keys:
                ps = k.split("+")
                cases.append((code, cat.get("code"), k, "defined"))
                cases.append((code, cat.get("code"), k + "+zz-unknown", "defined-first-part"))
                cases.append((code, cat.get("code"), "bogus+" + k, "undefined-first-part"))
                cases.append((code, cat.get("code"), "zz-unknown+" + k + "+x", "undefined-first-part"))
                if len(ps) > 1 and ps[-1] not in keys:
                    cases.append((code, cat.get("code"), "+".join(ps[1:] + ps[:1]), "undefined-first-part"))
            if not keys:
                cases.append((code, cat.get("code"), "standard", "no-rates"))
    lines = ["c18 raterule %s %s %s" % (w(cc), w(cat), w(k)) for cc, cat, k, _ in cases]
    go, mo = run_go(lines), run_oracle(lines)
    shown = {}
    for (cc, cat, k, cls), ln, g, m in zip(cases, lines, go, mo):
        gv, mv = parse_wire(g), parse_wire(m)
        c.count("rate-rule/" + cls, 1, ln)
        if is_err(gv) or is_err(mv) or len(mv) < 3:
            c.report("rate-rule stream: `%s` -> implementation `%s`, model `%s`" % (ln, g, m), {"machinery": "c18 raterule", "case": ln}, no_input=True)
            break
        acc, m_code, m_pub, m_any = bool(gv[0]), bool(mv[0]), bool(mv[1]), bool(mv[2])
        r = pub.regimes.get(cc)
        cd = next((x for x in L(r, "categories") if x.get("code") == cat), None) if r is not None else None
        resolves = (not k) or (cd is not None and any(x.get("key") == k.split("+", 1)[0] for x in L(cd, "rates")))
        if m_pub != resolves and shown.get("oracle", 0) < 2:
            shown["oracle"] = shown.get("oracle", 0) + 1
            c.report("oracle disagreement on the rate-key rule: `%s %s %s` transcribed rule over the published tables %s, python oracle %s" % (cc, cat, k, m_pub, resolves),
                     {"correspondence": "oracle:C18:rate-rule-model-vs-python", "case": ln}, no_input=True)
        if acc and not resolves:
            if shown.get("P", 0) < 3:
                shown["P"] = shown.get("P", 0) + 1
                c.report("the rate key `%s` passes the rate-key rule of %s %s (RegimeDef.InCategoryRates, the rule a combo's `rate` is validated with) "
                         "although its first component `%s` is not a rate of that category in the published definitions" % (k, cc, cat, k.split("+", 1)[0]),
                         {"case": ln, "call": "tax.RegimeDefFor(%r).InCategoryRates(%r).Validate(cbc.Key(%r))" % (cc, cat, k), "implementation": "accepted",
                          "model_rule_after_repair": m_code, "model_rule_any_component": m_any,
                          "clause": "a document that passes validation only references defined codes, keys and rates",
                          "rerun": "echo '%s' | bin/vharness ; echo '%s' | bin/oracle" % (ln, ln)})
        elif acc != m_code and shown.get("corr", 0) < 2:
            shown["corr"] = shown.get("corr", 0) + 1
            c.report("correspondence broken: rate-key rule on `%s %s %s`: implementation %s, transcribed rule %s" % (cc, cat, k, acc, m_code),
                     {"correspondence": "corr:C18:rate-rule", "case": ln}, no_input=True)


def enum_members(short):
    """top-level members of a document type that its published schema enumerates (oneOf of consts) and that are not reference
    positions themselves: the document's `type` (bill/invoice, order, delivery, payment).  -> {member: [published values]}"""
    out = {}
    for name, pv in schema_members(short).items():
        one = pv.get("oneOf") if isinstance(pv, dict) else None
        if name.startswith("$") or not isinstance(one, list) or not one or not all(isinstance(x, dict) and "const" in x for x in one):
            continue
        out[name] = [x["const"] for x in one]
    return out


def variant_examples(c, valid, quick):
    """every valid example x every OTHER published value of each enumerated member of its type (`type`: a payment as request /
    advice / receipt, an invoice as proforma / credit-note ..., an order as quote ...): the renditions that still calculate
    and validate are valid documents no example file shows.  quick: per (document type, member, value) the rendition with
    the most reference positions + a seeded one; thorough: all.   -> [(name, json, view)]"""
    cand = []
    cache = {}
    # quick: every example of the types with few examples (orders, deliveries, payments ...), of invoices the one with the most
    # reference positions and a seeded sample of 40
    inv = [i for i, e in enumerate(valid) if e[2][2] == "bill/invoice"]
    skip = set()
    if quick and len(inv) > 41:
        best = max(inv, key=lambda i: len(positions(doc_of(valid[i][1]), valid[i][2])) if isinstance(doc_of(valid[i][1]), dict) else 0)
        keep = set(c.rng.sample([i for i in inv if i != best], 40)) | {best}
        skip = set(inv) - keep
    for vi, (name, j, view) in enumerate(valid):
        doc = doc_of(j)
        if not isinstance(doc, dict) or vi in skip:
            continue
        if view[2] not in cache:
            cache[view[2]] = enum_members(view[2])
        for member, values in sorted(cache[view[2]].items()):
            for v in values:
                if v != doc.get(member):
                    d = copy.deepcopy(j)
                    doc_of(d)[member] = v
                    cand.append(("%s#%s=%s" % (name, member, v), d, (view[2], member, v)))
    groups = {}
    for (name, d, grp), g in zip(cand, go_run([x[1] for x in cand])):
        ok = g[0][0] == b"accepted" and g[1] == "calculated"
        c.count("variants/%s/%s=%s/%s" % (grp[0], grp[1], grp[2], "valid" if ok else g[0][0].decode()), 1, name)
        if ok:
            view = decode_view(g[2])
            groups.setdefault(grp, []).append((name, d, view))
    out = []
    for grp in sorted(groups):
        l = groups[grp]
        if quick and len(l) > 2:
            best = max(l, key=lambda e: len(positions(doc_of(e[1]), e[2])))
            l = [best] + c.rng.sample([e for e in l if e is not best], 1)
        out += l
    c.cov["variants"] = {"tried": len(cand), "valid": sum(len(v) for v in groups.values()), "swept": len(out),
                         "groups": {"%s %s=%s" % g: len(v) for g, v in sorted(groups.items())}}
    return out


HEADER_KINDS = ("regime", "addon", "tag")


def undefined_specs(c, pools, bases, quick, npos, full=None):
    """(index, mutation) for every reference position of the bases x the UNDEFINED candidates of its kind (thorough: all candidates,
    defined ones too).  quick: the written variants of the old value (letter case, padding) only at the header references
    ($regime, $addons, $tags), and the positions of the other kinds only on the bases listed in `full` (all when None)"""
    specs = []
    for ei, (name, j, view) in enumerate(bases):
        doc = doc_of(j)
        if not isinstance(doc, dict):
            continue
        for kind, path, old, detail in positions(doc, view):
            if quick and kind not in HEADER_KINDS and full is not None and ei not in full:
                continue
            npos[kind] = npos.get(kind, 0) + 1
            for new, cls in candidates(c, pools, kind, old, detail, quick):
                if quick and (cls in ("defined-other", "undefined-part") or (cls == "undefined-variant" and kind not in HEADER_KINDS)):
                    continue
                specs.append((ei, {"kind": kind, "class": cls, "path": path, "old": old, "new": new, "detail": detail}))
        if view[2] in ("bill/invoice", "bill/order", "bill/delivery", "bill/payment") and not doc.get("$tags"):
            specs.append((ei, {"kind": "tag", "class": "undefined", "path": "$tags/0", "old": "", "new": "zz-unknown", "detail": "inserted"}))
        pi = prices_include_specs(c, pools, ei, doc, view, quick)
        if pi:
            npos["category(inserted prices_include)"] = npos.get("category(inserted prices_include)", 0) + 1
            specs += pi
    return specs


def has_bill_tax(short):
    """the document type has a `tax` member of type bill/tax (invoices, orders, deliveries): `tax.prices_include` names a category"""
    m = schema_members(short).get("tax")
    return isinstance(m, dict) and str(m.get("$ref", "")).endswith("/bill/tax")


def insert_member(j, path, value):
    """-> a copy of the example with the member at `path` set, the objects on the way created when absent"""
    d = copy.deepcopy(j)
    n = doc_of(d)
    parts = path.split("/")
    for p in parts[:-1]:
        if not isinstance(n.get(p), dict):
            n[p] = {}
        n = n[p]
    n[parts[-1]] = value
    return d


def prices_include_specs(c, pools, ei, doc, view, quick):
    """a document that can say which tax its prices include (`tax.prices_include`, a category of its regime) and does not:
    the member put in, naming undefined categories and a category only OTHER regimes define"""
    if not has_bill_tax(view[2]) or not isinstance(doc, dict) or node_at(doc, "tax/prices_include") is not None:
        return []
    if doc.get("tax") is not None and not isinstance(doc.get("tax"), dict):
        return []
    rd = pools.pub.regimes.get(view[0])
    own = {x.get("code") for x in L(rd, "categories")}
    foreign = [x for x in pools.values("category", None)[0] if x not in own]
    news = [(u, "undefined") for u in UNDEFINED["category"]]
    if rd is not None and foreign:
        news.append((c.rng.choice(foreign), "defined-other"))
    return [(ei, {"kind": "category", "class": cls, "path": "tax/prices_include", "old": "", "new": new, "detail": "inserted-member"}) for new, cls in news]


def build_case(bases, ei, mut):
    name, j, _ = bases[ei]
    if mut["detail"] == "inserted":
        d = copy.deepcopy(j)
        doc_of(d)["$tags"] = [mut["new"]]
    elif mut["detail"] == "inserted-member":
        d = insert_member(j, mut["path"], mut["new"])
    else:
        d = apply_mutation(j, mut["kind"], mut["path"], mut["old"], mut["new"], mut["detail"])
    return {"example": name, "mutation": mut, "document": d}


def mixed_set_cases(c, pub, bases, quick, only=None):
    """tax sets whose combos fall under DIFFERENT regimes, in every order: each combo's category and rate key belong to the regime
    that applies to IT (its own `country` override, else the document's regime) whatever stands before or after it in the set.
    every base x one tax set per place (lines/*/taxes, charges/*/taxes, ...: the longest) x override countries X {regimes that
    define a category the document's regime does not, tax countries without a regime; quick: a seeded one of each} x a combo {category of X, country X,
    percent} put in FRONT of / BEHIND the set x {nothing else changed (every reference resolves); the neighbouring combo WITHOUT
    override renamed to a category only X defines / an undefined one; its rate key replaced by one only X's category has}.
    -> cases for judge()"""
    regs = {}
    for d in pub.regime_list:
        regs.setdefault(d.get("country"), d)
    cats = lambda d: [x.get("code") for x in L(d, "categories")]
    first_rates = lambda d, cat: {r.get("key").split("+")[0] for x in L(d, "categories") if x.get("code") == cat for r in L(x, "rates")}
    no_regime = sorted(pub.tax - set(pub.regimes))
    all_cats = pub.pool["category"]
    out = []
    for bi, (name, j, view) in enumerate(bases):
        if only is not None and bi not in only:
            continue
        doc = doc_of(j)
        if not isinstance(doc, dict):
            continue
        sets = {}
        for path, cat, rate, country, ext in view[4]:
            parent, _, last = path.rpartition("/")
            l = node_at(doc, parent)
            if last.isdigit() and isinstance(l, list) and l and all(isinstance(x, dict) for x in l):
                sets[parent] = l
        by_shape = {}
        for parent in sorted(sets):
            sh = re.sub(r"\d+", "*", parent)
            if sh not in by_shape or len(sets[parent]) > len(sets[by_shape[sh]]):
                by_shape[sh] = parent
        chosen = sorted(by_shape.values()) if quick else sorted(sets)
        rd = pub.regimes.get(view[0])
        own = set(cats(rd))
        for parent in chosen:
            combos = sets[parent]
            used = {x.get("cat") for x in combos}
            xs_reg = sorted(k for k, d in regs.items() if d is not rd and (set(cats(d)) - own) and len(set(cats(d)) - used) >= 2)
            xs = (c.rng.sample(xs_reg, min(1, len(xs_reg))) + c.rng.sample(no_regime, min(1, len(no_regime)))) if quick \
                else xs_reg + c.rng.sample(no_regime, min(5, len(no_regime)))
            for X in xs:
                xd = regs.get(X)
                places = [(0, 0), (len(combos), len(combos) - 1)] if quick else \
                    [(at, nb) for at in range(len(combos) + 1) for nb in range(len(combos))]
                for at, nb in places:
                    ncombo = combos[nb]
                    if ncombo.get("country"):
                        continue                        # the neighbour is a combo WITHOUT override: the document's regime applies to it
                    if xd is not None:
                        foreign = sorted(set(cats(xd)) - own - used)
                        c2s = foreign[:1] if quick else foreign
                        c1 = lambda c2: next((k for k in cats(xd) if k not in used and k != c2), None)
                    else:
                        foreign = [k for k in all_cats if k not in own and k not in used]
                        c2s = ["QQ"] + (c.rng.sample(foreign, 1) if foreign else [])
                        c1 = lambda c2: next((k for k in ["GST", "VAT", "ST"] if k not in used and k != c2), None)
                    variants = [(None, None, c1(None), "defined")]
                    variants += [("cat", c2, c1(c2), "undefined-here") for c2 in c2s]
                    if xd is not None and ncombo.get("cat") in cats(xd):
                        ks = sorted(first_rates(xd, ncombo.get("cat")) - first_rates(rd, ncombo.get("cat")))
                        variants += [("rate", k, c1(None), "undefined-here") for k in (ks[:1] if quick else ks)]
                    for member, newv, cfirst, cls in variants:
                        if cfirst is None:
                            continue
                        ins = {"cat": cfirst, "country": X, "percent": "10.0%"}
                        d = copy.deepcopy(j)
                        l = node_at(doc_of(d), parent)
                        old = ""
                        if member:
                            old = l[nb].get(member, "")
                            l[nb][member] = newv
                        l.insert(at, ins)
                        ni = nb + (1 if at <= nb else 0)
                        mut = {"kind": "mixed-set", "class": cls, "path": "%s/%d%s" % (parent, ni, "/" + member if member else ""),
                               "old": old, "new": newv if member else cfirst, "detail": {"inserted": ins, "at": "%s/%d" % (parent, at)}}
                        out.append({"example": "%s + combo {cat %s, country %s} put in at %s/%d" % (name, cfirst, X, parent, at),
                                    "mutation": mut, "document": d})
    return out


def load_examples():
    p = subprocess.run([os.path.join(BIN, "vharness"), "examples", REPO], stdout=subprocess.PIPE, env=GOENV, timeout=300, text=True)
    out = []
    for line in p.stdout.split("\n"):
        if not line.startswith("x"):
            continue
        name, data = parse_wire(line)
        try:
            out.append((name.decode(), json.loads(data)))
        except ValueError:
            continue
    return out


def go_run(docs, op="run"):
    """-> [(verdict list, state, view or None)] ; op `run` = parse, calculate, validate ; `vrun` = read and validate only"""
    res = []
    for o in run_go(["c18 %s %s" % (op, w(json.dumps(d))) for d in docs], min_shard=240):
        r = parse_wire(o)
        if is_err(r):
            res.append(([b"harness-error"] + r[0][1:], "", None))
            continue
        verdict, sv = r[0], r[1]
        res.append((verdict, sv[0].decode(), sv[1] if sv[0] else None))
    return res


def model_run(views, op="check"):
    """-> [(repaired, shipped, failing_repaired set, failing_shipped set)]"""
    s = lambda b: b.decode("utf-8", "replace")
    res = []
    for o in run_oracle(["c18 %s %s" % (op, w(v)) for v in views], min_shard=240):
        r = parse_wire(o)
        if is_err(r):
            raise RuntimeError("oracle: " + o)
        fr = {(s(x[0]), s(x[1]), s(x[2])) for x in r[2]}
        fs = {(s(x[0]), s(x[1]), s(x[2])) for x in r[3]}
        res.append((r[0], r[1], fr, fs))
    return res


def note(c, what):
    """informational tallies (not evaluations: every document is counted once, in its kind/class/verdict stream)"""
    d = c.cov.setdefault("informational", {})
    d[what] = d.get(what, 0) + 1


_MEMBERS = {}


def schema_members(short):
    """-> {member: its published schema} of the top-level members of a document type (data/schemas/<short>.json)"""
    if short not in _MEMBERS:
        try:
            d = json.load(open(os.path.join(REPO, "data", "schemas", short + ".json")))
            _MEMBERS[short] = d["$defs"][d["$ref"].rsplit("/", 1)[1]].get("properties") or {}
        except (OSError, KeyError, ValueError, TypeError, AttributeError):
            _MEMBERS[short] = {}
    return _MEMBERS[short]


def view_as_written(view, document):
    """a document that is only read and validated is judged on what it SAYS: `$regime`, `$addons` and `$tags` are
    taken from the text when they are written there (the read hooks of the library may rewrite or drop them before
    validation sees them); every other reference is a plain typed member and is in the view as read"""
    d = doc_of(document)
    if not isinstance(d, dict):
        return view
    regime, addons, schema, tags, combos, exts, currencies, countries = view
    members = schema_members(schema)        # a `$regime` written in a document whose type has no such member says nothing
    if "$regime" in members and isinstance(d.get("$regime"), str):
        regime = d["$regime"]
    if "$addons" in members and isinstance(d.get("$addons"), list) and all(isinstance(a, str) for a in d["$addons"]):
        addons = list(d["$addons"])
    if "$tags" in members and isinstance(d.get("$tags"), list) and all(isinstance(a, str) for a in d["$tags"]):
        tags = list(d["$tags"])
    return (regime, addons, schema, tags, combos, exts, currencies, countries)


def judge(c, pub, cases, stats, flow="build"):
    """cases: [dict(example, mutation, document)] ; runs Go, model, oracle; reports.
    flow `build`: parse -> calculate -> validate, judged on the calculated document;
    flow `validate-only`: read -> validate, judged on the document as written."""
    vo = flow == "validate-only"
    go = go_run([x["document"] for x in cases], "vrun" if vo else "run")
    idx = [i for i, g in enumerate(go) if g[2] is not None]
    views = [go[i][2] for i in idx]
    m_code = dict(zip(idx, model_run(views, "check")))
    m_pub = dict(zip(idx, model_run(views, "check-published")))
    reported = c.__dict__.setdefault("_c18_reported", {})       # caps on repeated reports of one shape, per run
    for i, (x, g) in enumerate(zip(cases, go)):
        verdict = g[0][0].decode()
        mut = x["mutation"]
        kind, cls = mut["kind"], mut["class"]
        st = stats.setdefault(kind, {}).setdefault(cls, {})
        st[verdict] = st.get(verdict, 0) + 1
        c.count("%s%s/%s/%s" % ("validate-only/" if vo else "", kind, cls, verdict), 1, (flow, x["example"], mut["path"], mut["old"], mut["new"]))
        if vo:
            x = dict(x, flow=flow)
        if verdict == "harness-error":
            c.report("harness failure on a mutated document: %s" % g[0], {"machinery": "c18 run", "case": x}, no_input=True)
            continue
        if verdict == "panic":
            frame = g[0][2].decode() if len(g[0]) > 2 else ""
            fid = F_CURRENCY_PANIC if kind == "currency" and "currency.(*Def)" in frame else None
            k = ("panic", frame, flow)
            if not cls.startswith("undefined"):
                # a crash on a DEFINED reference is not this property's subject (C14: no input crashes the library);
                # it is listed in the evidence, not judged here
                note(c, "panic on a defined replacement value (C14)")
                pl = c.cov.setdefault("panics_on_defined_references", [])
                if len(pl) < 10 and frame not in [p_["frame"] for p_ in pl]:
                    pl.append({"frame": frame, "example": x["example"], "mutation": mut})
                continue
            if fid or reported.get(k, 0) < 2:
                reported[k] = reported.get(k, 0) + 1
                c.report("replacing %s `%s` by `%s` at %s of %s makes the library panic (%s in %s) instead of rejecting the document" % (
                         kind, mut["old"], mut["new"], mut["path"], x["example"], g[0][1].decode()[:80], frame),
                         dict(x, implementation=[b.decode("utf-8", "replace") for b in g[0]], clause="an undefined reference is rejected, not a crash"),
                         finding_id=fid)
            continue
        if g[2] is None:
            continue
        view = decode_view(g[2])
        U = pub.unresolved(view)
        rep, shp, fr, fs = m_code[i]
        prep, pshp, pfr, pfs = m_pub[i]
        # machinery: the extracted rules over the PUBLISHED tables and the python oracle implement the same
        # statement independently: they must name the same unresolved references on every view
        if pfr != U:
            k = ("oracle", kind, flow)
            if reported.get(k, 0) < 2:
                reported[k] = reported.get(k, 0) + 1
                c.report("oracle disagreement: extracted rules over the published tables name %s, the python oracle %s" % (sorted(pfr - U), sorted(U - pfr)),
                         {"correspondence": "oracle:C18:model-vs-python", "case": x, "view": view}, no_input=True)
        shown = (mut["new"] in json.dumps(view)) if mut["new"] else True
        if not shown:
            note(c, "replaced value not in the view of the %s document (normalised away or recalculated)" % ("read" if vo else "calculated"))
        if vo:
            # the subject of the verdict is the text that was handed in
            view = view_as_written(view, x["document"])
            Uw = pub.unresolved(view)
            if Uw != U:
                note(c, "validate-only: references as written differ from the references as read")
            U = Uw
            # (repaired in /repo e451d3d: a regime-less invoice read and validated without calculation passed with an undefined currency -
            # validation.Skip after Required also skipped currency.Code.Validate; no exclusion is left)
        if vo and verdict == "accepted" and not U and mut["new"] and cls in ("undefined", "undefined-variant", "undefined-first-part") \
                and mut["new"] not in json.dumps(view) and (kind not in HEADER_KINDS or ("$" + kind + ("s" if kind != "regime" else "")) in schema_members(view[2])):
            k = ("dropped", kind, cls)
            if reported.get(k, 0) < 2:
                reported[k] = reported.get(k, 0) + 1
                c.report("read and validated without calculation (`gobl validate`): %s validates although the %s `%s` written at %s is not defined: it is "
                         "dropped while the document is read and never validated (replaced `%s`)" % (x["example"], kind, mut["new"], mut["path"], mut["old"]),
                         dict(x, implementation="accepted", direct=True, clause="a document that passes validation only references defined codes, keys and rates"))
        if verdict == "accepted":
            if U:
                by = {}
                for ref in sorted(U):
                    by.setdefault(finding_for(view[2], ref), []).append(ref)
                for fid, refs_ in by.items():
                    refs_.sort(key=lambda r: r[2] != mut["new"])      # the replaced value itself first
                    k = ("P", flow, fid, refs_[0][0], re.sub(r"\d+", "*", refs_[0][1]), kind, cls, refs_[0][2] == mut["new"])
                    if fid or reported.get(k, 0) < 2:
                        reported[k] = reported.get(k, 0) + 1
                        in_code_only = [r for r in refs_ if r not in fr and pub.unresolved(decode_view(g[2])) == U]
                        c.report("%s%s validates although %s `%s` at %s does not resolve in the published definitions%s (replaced `%s` by `%s` at %s)" % (
                                 "read and validated without calculation (`gobl validate`): " if vo else "",
                                 x["example"], {"ext-value": "the value given for extension"}.get(refs_[0][0], refs_[0][0]), refs_[0][2], refs_[0][1],
                                 " (it resolves in the in-code tables: code and published files differ, see C19)" if in_code_only else "",
                                 mut["old"], mut["new"], mut["path"]),
                                 dict(x, unresolved=[list(r) for r in refs_], implementation="accepted", direct=(refs_[0][2] == mut["new"]),
                                      model_repaired_rules=bool(rep), model_shipped_rules=bool(shp),
                                      clause="a document that passes validation only references defined codes, keys and rates"),
                                 finding_id=fid)
            elif not shp:
                k = ("corr", kind, flow)
                if reported.get(k, 0) < 2:
                    reported[k] = reported.get(k, 0) + 1
                    c.report("correspondence broken: the implementation accepts a document the transcribed (as-shipped) rules reject (%s) while every reference resolves" % sorted(fs),
                             {"correspondence": "corr:C18:accepted-implies-model-accepts", "case": x, "view": view}, no_input=True)
            else:
                # informational: extension keys that belong to another regime or to an addon not in use
                for path, k_, v_ in view[5] + [(cp, k2, v2) for cp, _, _, _, e in view[4] for k2, v2 in e]:
                    owner = pub.ext_owner.get(k_)
                    if owner and ((owner[0] == "regime" and pub.regimes.get(view[0], {}).get("country") != owner[1]) or
                                  (owner[0] == "addon" and owner[1] not in view[1])):
                        note(c, "accepted documents carrying an extension key of another regime or of an addon not in use")
                        break
        else:
            # rejected / calc-error: the model's verdict is informational (Go may refuse for other reasons)
            note(c, "refused by Go, also by the shipped-rule model" if not shp else "refused by Go, accepted by the model (Go refuses for another reason)")
    return go


def run(c):
    quick = c.tier == "quick"
    c._c18_t0 = time.time()
    if not std_builds(c):
        return
    ok, out = translate()
    if not ok:
        c.report("translator failed: " + out[-800:], {"correspondence": "vharness translate", "log": out[-2000:]}, no_input=True)
        return
    proved = c.prove()
    ok, out = build_oracle()
    if not ok:
        c.report("extraction/oracle build failed: " + out[-800:], {"machinery": "oracle"}, no_input=True)
        return
    pub = Tables.published(REPO)
    pools = Pools(pub, Tables.in_code())
    if pub.currencies != pub.schema_currencies:
        c.report("data/currency/*.json and data/schemas/currency/code.json list different currencies: %s" % sorted(pub.currencies ^ pub.schema_currencies)[:10],
                 {"correspondence": "published currency lists"}, no_input=True)
    stats = {}

    # ---- the matcher of the model against regexp.MatchString, on every declared pattern ----
    pats = sorted({e.get("pattern") for t in (pub, pools.code) for e in t.ext.values() if e.get("pattern")})
    mlines = []
    for pt in pats:
        for v in pattern_probes(c, pt):
            mlines.append("c18 match %s %s" % (w(pt), w(v)))
    gm, mm = run_go(mlines), run_oracle(mlines)
    c.count("pattern-matcher", len(mlines), None)
    for ln, a, b in zip(mlines, gm, mm):
        c.count("pattern-matcher", 0, ln)
        if a != b:
            pt, v = parse_wire(ln)[2:4]
            c.report("correspondence broken: pattern %r on value %r: regexp (compiles, matches) = %s, simple_match (supported, matches) = %s" % (pt.decode(), v.decode("utf-8", "replace"), a, b),
                     {"correspondence": "corr:C18:pattern-matcher", "pattern": pt.decode(), "value": v.decode("utf-8", "replace")}, no_input=True)
            break
    c.cov["patterns"] = {"declared": pats, "probes": len(mlines)}

    # ---- corpus: recorded witnesses first ----
    cdir = os.path.join(VERIF, "corpus", "C18")
    corpus = []
    for f in sorted(glob.glob(os.path.join(cdir, "*.json"))):
        wt = json.load(open(f))
        corpus.append({"example": "corpus/C18/" + os.path.basename(f), "document": wt["document"],
                       "mutation": dict(wt["mutation"], **{"class": wt["mutation"].get("class", "undefined")})})
    if corpus:
        res = judge(c, pub, corpus, stats)
        c.cov["corpus_verdicts"] = {x["example"]: g[0][0].decode() for x, g in zip(corpus, res)}

    # ---- the valid examples ----
    examples = load_examples()
    # valid rich documents (every member of the type populated): references in positions no example uses (item origin,
    # identities' countries, alternative currencies ...)
    import richvalid, glob as _gl
    richdir = os.path.join(WORK, "c14rich")
    subprocess.run([os.path.join(BIN, "vharness"), "c14rich", richdir], stdout=subprocess.PIPE, stderr=subprocess.PIPE, env=GOENV)
    for f in sorted(_gl.glob(os.path.join(richdir, "rich-bill-*.json"))):
        bn = os.path.basename(f)
        if "+" in bn or not any(k in bn for k in ("bill-invoice", "bill-order", "bill-delivery.", "bill-payment.")):
            continue
        try:
            examples.append(("rich:" + bn, richvalid.make_valid(json.load(open(f)))))
        except ValueError:
            pass
    base = go_run([j for _, j in examples])
    valid = []
    for (name, j), g in zip(examples, base):
        c.count("examples", 1, name)
        if g[0][0] == b"accepted" and g[1] == "calculated":
            valid.append((name, j, decode_view(g[2])))
    c.cov["examples"] = {"files": len(examples), "valid": len(valid)}
    if len(valid) < 100:
        c.report("only %d of %d example files validate" % (len(valid), len(examples)), {"machinery": "examples"}, no_input=True)
    # the unmodified examples themselves are cases: accepted => resolves
    judge(c, pub, [{"example": n, "document": j, "mutation": {"kind": "none", "class": "unchanged", "path": "", "old": "", "new": ""}} for n, j, _ in valid], stats)

    # ---- the sweep ----
    specs = []          # (index of the example, mutation) - documents are built chunk by chunk
    npos = {}
    for ei, (name, j, view) in enumerate(valid):
        doc = doc_of(j)
        if not isinstance(doc, dict):
            continue
        for kind, path, old, detail in positions(doc, view):
            npos[kind] = npos.get(kind, 0) + 1
            for new, cls in candidates(c, pools, kind, old, detail, quick):
                specs.append((ei, {"kind": kind, "class": cls, "path": path, "old": old, "new": new, "detail": detail}))
        # documents that can carry tags but have none: one tag put in (a position the examples leave empty)
        if view[2] in ("bill/invoice", "bill/order", "bill/delivery", "bill/payment") and not doc.get("$tags"):
            npos["tag(inserted)"] = npos.get("tag(inserted)", 0) + 1
            for new, cls in [("zz-unknown", "undefined"), (c.rng.choice(pools.values("tag", None)[0]), "defined-other")]:
                specs.append((ei, {"kind": "tag", "class": cls, "path": "$tags/0", "old": "", "new": new, "detail": "inserted"}))
        # documents that can name the tax their prices include and do not: `tax.prices_include` put in
        pi = prices_include_specs(c, pools, ei, doc, view, quick)
        if pi:
            npos["category(inserted prices_include)"] = npos.get("category(inserted prices_include)", 0) + 1
            specs += pi
        # a tag an addon offers for ANOTHER document type, with that addon switched on
        if view[2] in ("bill/order", "bill/delivery", "bill/payment", "bill/invoice") and not doc.get("$tags"):
            short = view[2]
            for akey, ad in sorted(pub.addons.items()):
                foreign = sorted({t.get("key") for ts in (ad.get("tags") or []) if ts.get("schema") != short for t in (ts.get("list") or [])}
                                 - {t.get("key") for ts in (ad.get("tags") or []) if ts.get("schema") == short for t in (ts.get("list") or [])})
                if not foreign:
                    continue
                npos["tag(inserted with addon)"] = npos.get("tag(inserted with addon)", 0) + 1
                specs.append((ei, {"kind": "tag", "class": "defined-other", "path": "$tags/0", "old": "", "new": c.rng.choice(foreign),
                                   "detail": "inserted-with-addon", "addon": akey}))
    c.cov["positions"] = npos
    c.cov["mutated_documents"] = len(specs)
    for i in range(0, len(specs), 10000):
        chunk = []
        for ei, mut in specs[i:i + 10000]:
            name, j, _ = valid[ei]
            if mut["detail"] == "inserted":
                d = copy.deepcopy(j)
                doc_of(d)["$tags"] = [mut["new"]]
            elif mut["detail"] == "inserted-member":
                d = insert_member(j, mut["path"], mut["new"])
            elif mut["detail"] == "inserted-with-addon":
                d = copy.deepcopy(j)
                dd = doc_of(d)
                dd["$tags"] = [mut["new"]]
                if mut["addon"] not in (dd.get("$addons") or []):
                    dd["$addons"] = list(dd.get("$addons") or []) + [mut["addon"]]
            else:
                d = apply_mutation(j, mut["kind"], mut["path"], mut["old"], mut["new"], mut["detail"])
            chunk.append({"example": name, "mutation": mut, "document": d})
        res = judge(c, pub, chunk, stats)
        for x, g in list(zip(chunk, res))[:3]:
            c.sample({"example": x["example"], "mutation": x["mutation"], "implementation": [b.decode("utf-8", "replace") for b in g[0][:2]]}, limit=5)
    c.cov["verdicts"] = stats

    # ---- renditions of the examples with another published value of an enumerated member (`type`) ----
    t0 = time.time()
    c.cov["seconds"] = {"sweep and before": round(t0 - c.__dict__.get("_c18_t0", t0), 1)}
    variants = variant_examples(c, valid, quick)
    vpos = {}
    vstats = {}
    vspecs = undefined_specs(c, pools, variants, quick, vpos)
    for i in range(0, len(vspecs), 10000):
        judge(c, pub, [dict(build_case(variants, ei, mut)) for ei, mut in vspecs[i:i + 10000]], vstats)
    c.cov["variants"].update({"positions": vpos, "mutated_documents": len(vspecs), "verdicts": vstats})

    c.cov["seconds"]["variants"] = round(time.time() - t0, 1)
    t0 = time.time()
    # ---- read-and-validate flow: the calculated bare documents, no calculation before validation ----
    srcs = valid + variants
    calc = run_go(["c18 calc " + w(json.dumps(j)) for _, j, _ in srcs])
    bare = []
    for (name, j, _), o in zip(srcs, calc):
        r = parse_wire(o)
        if is_err(r):
            c.report("harness failure: `c18 calc` on the valid example %s: %s" % (name, o[:200]), {"machinery": "c18 calc", "example": name}, no_input=True)
            break
        try:
            bare.append((name + " (calculated, bare)", json.loads(r[0][0])))
        except ValueError:
            pass
    vo_valid = []
    for (name, j), g in zip(bare, go_run([j for _, j in bare], "vrun")):
        ok = g[0][0] == b"accepted"
        c.count("validate-only/examples/" + g[0][0].decode(), 1, name)
        if ok:
            vo_valid.append((name, j, decode_view(g[2])))
    vo_stats, vo_pos = {}, {}
    judge(c, pub, [{"example": n, "document": j, "mutation": {"kind": "none", "class": "unchanged", "path": "", "old": "", "new": ""}} for n, j, _ in vo_valid],
          vo_stats, flow="validate-only")
    # quick: header references of every document; the typed members (validated by the same rules in both flows) on the richest
    # document of each type and a seeded sample
    full = set()
    if quick:
        by_schema = {}
        for i, (n, j, v) in enumerate(vo_valid):
            by_schema.setdefault(v[2], []).append(i)
        for sch, l in by_schema.items():
            full.add(max(l, key=lambda i: len(positions(doc_of(vo_valid[i][1]), vo_valid[i][2]))))
        # documents no regime applies to are validated by other rules (Skip instead of the regime's): all of them
        full |= {i for i, (n, j, v) in enumerate(vo_valid) if not v[0] and "$regime" in schema_members(v[2])}
        rest = [i for i in range(len(vo_valid)) if i not in full]
        full |= set(c.rng.sample(rest, min(len(rest), max(0, 30 - len(full)))))
    vo_specs = undefined_specs(c, pools, vo_valid, quick, vo_pos, full if quick else None)
    for i in range(0, len(vo_specs), 10000):
        judge(c, pub, [build_case(vo_valid, ei, mut) for ei, mut in vo_specs[i:i + 10000]], vo_stats, flow="validate-only")
    # ---- tax sets mixing combos of different regimes (country overrides), both orders ----
    t1 = time.time()
    ms_stats, ms_build_stats = {}, {}
    ms = mixed_set_cases(c, pub, vo_valid, quick)
    for i in range(0, len(ms), 10000):
        judge(c, pub, ms[i:i + 10000], ms_stats, flow="validate-only")
    # the same sets through parse -> calculate -> validate (quick: on the documents swept in full)
    msb = mixed_set_cases(c, pub, vo_valid, quick, only=full if quick else None)
    for i in range(0, len(msb), 10000):
        judge(c, pub, msb[i:i + 10000], ms_build_stats)
    c.cov["mixed_sets"] = {"validate_only": {"documents": len(ms), "verdicts": ms_stats}, "build": {"documents": len(msb), "verdicts": ms_build_stats}}
    c.cov["seconds"]["mixed_sets"] = round(time.time() - t1, 1)
    if ms and not any(v.get("accepted") for v in ms_stats.get("mixed-set", {}).values()):
        c.report("mixed-set stream: none of the %d documents with a combo of another country put into a tax set validates" % len(ms),
                 {"machinery": "mixed-set stream"}, no_input=True)
    c.cov["validate_only"] = {"documents": len(bare), "valid": len(vo_valid), "positions": vo_pos, "mutated_documents": len(vo_specs), "verdicts": vo_stats}
    c.cov["seconds"]["validate_only"] = round(time.time() - t0, 1)
    if len(vo_valid) < len(bare) * 0.9:
        c.report("only %d of %d calculated valid documents validate when read back without calculation" % (len(vo_valid), len(bare)),
                 {"machinery": "validate-only examples"}, no_input=True)
    # failing inputs whose unresolved reference IS the replaced value are listed first
    c.violations.sort(key=lambda v: (v[2], not (isinstance(v[1], dict) and v[1].get("direct"))))
    pay_keys_stream(c, examples + [(n, j) for n, j, _ in variants])
    rate_rule_stream(c, pub)
    c.cov["rule"] = ("every example file of the repository that parses, calculates and validates (inputs and outputs; "
                     "examples/**, regimes/*/examples, addons/*/*/examples) x every reference position of its typed document "
                     "($regime, each $addons and $tags member, each combo's category, rate key and country override, each extension "
                     "key and value wherever an extension map occurs, each currency code, each ISO/tax country code incl. addresses, "
                     "tax ids and party regimes) x {the other defined values of that kind: all regimes and addons, a seeded sample "
                     "of the others (quick) or all of them (thorough); undefined values; a defined rate key followed by an undefined `+` part "
                     "(accepted by design); a defined rate key preceded by an undefined `+` part (`bogus+standard`, `zz-unknown+standard+x`, "
                     "`eqs+standard`)}; "
                     "plus tax sets mixing regimes: one set per place of every calculated document x override countries (1 regime "
                     "defining a category the document's regime lacks + 1 tax country without regime, seeded; thorough: all regimes) "
                     "x a combo of that country in front / behind x {unchanged, neighbour's category only defined there or undefined, "
                     "neighbour's rate key only defined there}; plus `tax.prices_include` put into every document that omits it; "
                     "plus the rate-key rule alone (RegimeDef.InCategoryRates on a key, no calculation before it): every published regime "
                     "x category x rate key x {itself, + undefined suffix, undefined word first, later component first} and the recorded "
                     "witness keys; "
                     "distinct non-trivial = distinct (example, position, old value, new value); verdict classes per "
                     "kind x class in coverage.verdicts")
    if not proved:
        pr = c.proof
        c.report("proof obligations of rocq/Props/C18.v no longer check (%s): %s" % (
                 ", ".join(pr.get("failed_files") or ["Props/C18.v"]), proof_error(pr)),
                 {"theorem": "rocq/Props/C18.v", "failed_files": pr.get("failed_files"), "forbidden": pr.get("forbidden")},
                 no_input=(len(c.violations) == 0))


def replay(path):
    r = json.load(open(path))["replay"]
    x = r.get("case", r)
    if isinstance(x, str) and x.startswith("c18 raterule"):
        build_harness()
        print("implementation (accepted 1/0):                          ", run_go([x], shards=1)[0])
        print("model (in-code, published, any-component rule as shipped):", run_oracle([x], shards=1)[0])
        return 0
    if "document" not in x:
        print(json.dumps(r, indent=1, ensure_ascii=False))
        return 0
    build_harness()
    pub = Tables.published(REPO)
    vo = x.get("flow") == "validate-only"
    g = go_run([x["document"]], "vrun" if vo else "run")[0]
    print("flow:           ", "read -> validate (no calculation)" if vo else "parse -> calculate -> validate")
    print("mutation:       ", json.dumps(x.get("mutation")))
    print("implementation: ", [b.decode("utf-8", "replace") if isinstance(b, bytes) else b for b in g[0]])
    if g[2] is not None:
        view = decode_view(g[2])
        m = model_run([g[2]])[0]
        print("model:           repaired rules %s, shipped rules %s, failing (repaired) %s" % (m[0], m[1], sorted(m[2])))
        print("oracle (published JSON): unresolved %s" % sorted(pub.unresolved(view_as_written(view, x["document"]) if vo else view)))
    return 0
