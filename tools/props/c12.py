"""C12 - the tax rate applied on a date is the one in force on that date.

proof   rocq/Props/C12.v (lookup = latest value in force, start date inclusive, none <=> before the first
        value, exempt => no percent, every shipped table descending in every context / unqualified strictly)
tie     translator (Gen/Regimes.v = what the code registers now) + exhaustive correspondence Go vs extracted
        model: every regime x category x rate key x qualifier context x {start-1, start, start+1, fixed and
        random dates}, through RateDef.Value, tax.TotalCalculator (Combo.prepareRate) and a calculated
        bill.Invoice / Order / Delivery (issue_date and value_date; and with every OTHER date field the
        document type has set to the far side of the boundary); the same combos resolved in ANOTHER country's
        regime (stream foreign: a document of a different regime whose combo names the country, or carries the
        customer-rates tag with a customer of that country; on a line, a document discount, a document charge);
        synthetic tables (tags, extensions, invalid dates).
P       (python, from the published data/regimes/*.json, independent of the model) Go's percentage and
        surcharge are those of the applicable value with the latest start date on or before the date, of the
        rate whose key is the combo's key or the FIRST `+` component of it (no such rate: invalid-rate).
"""
import datetime
import glob
import json
import os
import subprocess

from vlib import *

TRUSTED = ["modelled, not verified: regime/addon normalisers that rewrite a combo before calculation (none changes "
           "a rate key or percentage on the enumerated cases: the invoice stream would show it)",
           "cal.Date / civil.Date validity and order are transcribed in Rates/Date.v and compared on random triples"]
FINDING = "C12-start-date-exclusive"
FIXED_DATES = [(1990, 1, 1), (2024, 2, 29), (2026, 10, 1), (1900, 1, 1), (2100, 12, 31)]


# ----------------------------------------------------------------------------------------------
# data
# ----------------------------------------------------------------------------------------------

def load_published(repo):
    out = {}
    for f in sorted(glob.glob(os.path.join(repo, "data", "regimes", "*.json"))):
        out[os.path.basename(f)[:-5]] = json.load(open(f))
    return out


def load_in_code():
    p = subprocess.run([os.path.join(BIN, "vharness"), "c12dump"], stdout=subprocess.PIPE, env=GOENV, timeout=120)
    if p.returncode != 0:
        raise RuntimeError("vharness c12dump failed")
    return json.loads(p.stdout)


def pdate(s):
    y, m, d = s.split("-")
    return (int(y), int(m), int(d))


def ppct(s):
    """text of a percentage -> (value, exp) like num.Percentage"""
    if s is None:
        return None
    add = 0
    t = s
    if t.endswith("%"):
        t, add = t[:-1], 2
    neg = t.startswith("-")
    t = t.lstrip("-")
    ip, _, fp = t.partition(".")
    v = int(ip + fp)
    return (-v if neg else v, len(fp) + add)


def valid_date(d):
    try:
        datetime.date(*d)
        return True
    except ValueError:
        return False


def shift(d, n):
    x = datetime.date(*d) + datetime.timedelta(days=n)
    return (x.year, x.month, x.day)


def since_of(v):
    """start date as the lookup sees it: None = always"""
    s = v.get("since")
    if s is None:
        return None
    d = pdate(s)
    return d if valid_date(d) else None


def applies(v, tags, ext):
    vt = v.get("tags") or []
    ve = v.get("ext") or {}
    if vt and not any(t in tags for t in vt):
        return False
    if ve and not (ext and all(ext.get(k) == c for k, c in ve.items())):
        return False
    return True


def p_choice(values, d, tags, ext, strict=False):
    """Oracle P: indices of the acceptable answers = applicable values with the LATEST start on or before d
    (strict=True: the same with 'before d', what the shipped comparison computes). [] = none in force."""
    best, res = None, []
    for i, v in enumerate(values):
        if not applies(v, tags, ext):
            continue
        s = since_of(v)
        if s is not None and (s >= d if strict else s > d):
            continue
        k = (-1, 0, 0) if s is None else s
        if best is None or k > best:
            best, res = k, [i]
        elif k == best:
            res.append(i)
    return res


def find_rate(cat, key):
    for r in cat.get("rates", []):
        if r["key"] == key:
            return r
    # an extended key (`exempt+reverse-charge`) belongs to the rate named by its FIRST component; a rate named
    # in a later component (`bogus+standard`) does not make the key a rate of the category
    first = key.split("+", 1)[0]
    for r in cat.get("rates", []):
        if r["key"] == first:
            return r
    return None


def regime_by_country(regs, cc):
    for f, r in regs.items():
        if r.get("country") == cc:
            return f, r
    return None, None


def unordered_pairs(regs):
    """Concrete witnesses for the generated-data theorems: (file, cat, key, i, j, why)."""
    out = []
    for f, r in sorted(regs.items()):
        for c in r.get("categories", []):
            for rt in c.get("rates", []):
                vals = rt.get("values", [])
                for i, v in enumerate(vals):
                    s = v.get("since")
                    if s is not None and not valid_date(pdate(s)):
                        out.append((f, c["code"], rt["key"], i, i, "start date %s is not a valid civil date" % s))
                for i in range(len(vals)):
                    for j in range(i + 1, len(vals)):
                        a, b = vals[i], vals[j]
                        sa, sb = since_of(a), since_of(b)
                        ka = (-1, 0, 0) if sa is None else sa
                        kb = (-1, 0, 0) if sb is None else sb
                        unq = not (a.get("tags") or a.get("ext") or b.get("tags") or b.get("ext"))
                        ea, eb = a.get("ext") or {}, b.get("ext") or {}
                        incompatible = any(k in eb and eb[k] != cde for k, cde in ea.items())
                        if unq and kb >= ka:
                            out.append((f, c["code"], rt["key"], i, j, "unqualified values not strictly descending: #%d since %s listed before #%d since %s" % (i, a.get("since"), j, b.get("since"))))
                        elif kb > ka and not incompatible:
                            out.append((f, c["code"], rt["key"], i, j, "values that can apply together are ascending: #%d since %s listed before #%d since %s" % (i, a.get("since"), j, b.get("since"))))
    return out


# ----------------------------------------------------------------------------------------------
# cases
# ----------------------------------------------------------------------------------------------

def wl(*xs):
    return " ".join(w(x) if not isinstance(x, Word) else x.s for x in xs)


def ext_w(ext):
    return [[k, v] for k, v in sorted((ext or {}).items())]


def case_line(op, mode, cc, cat, key, d, tags, ext, kind=None, for_model=False):
    if for_model and kind is not None:
        kind = kind % 2       # the model knows "dated by issue date" / "dated by value date"; the document type is Go's business
    head = ["c12", op, str(mode)] + ([str(kind)] if kind is not None else [])
    return " ".join(head) + " " + wl(cc, cat, key, list(d), list(tags), ext_w(ext))


def contexts_of(values):
    ctxs = [((), {})]
    for v in values:
        vt = v.get("tags") or []
        ve = v.get("ext") or {}
        for t in vt:
            ctxs.append(((t,), {}))
            if ve:
                ctxs.append(((t,), dict(ve)))
        if ve:
            ctxs.append(((), dict(ve)))
            other = {k: "ZZ" for k in ve}
            ctxs.append(((), other))
            extra = dict(ve)
            extra["zz-other-key"] = "1"
            ctxs.append((("zz-unknown-tag",), extra))
    seen, out = set(), []
    for t, e in ctxs:
        k = (t, tuple(sorted(e.items())))
        if k not in seen:
            seen.add(k)
            out.append((t, e))
    return out


def gen_table_cases(c, regs, quick):
    """every registered regime x category x rate x context x date -> list of dicts"""
    cases = []
    rng = c.rng
    countries = sorted({r["country"] for r in regs.values()})
    for f, r in sorted(regs.items()):
        cc = r["country"]
        hosts = [h for h in countries if h != cc]
        for cat in r.get("categories", []):
            for rt in cat.get("rates", []):
                vals = rt.get("values", [])
                starts = sorted({pdate(v["since"]) for v in vals if v.get("since") and valid_date(pdate(v["since"]))})
                dates = []
                for s in starts:
                    dates += [shift(s, -1), s, shift(s, 1)]
                    if not quick:
                        dates += [shift(s, n) for n in range(-40, 41)]
                dates += FIXED_DATES
                for _ in range(8 if quick else 40):
                    dates.append(shift((1985, 1, 1), rng.randrange(0, 365 * 50)))
                dates = sorted(set(dates))
                for tags, ext in contexts_of(vals):
                    for d in dates:
                        kinds = [("lookup", None), ("prepare", None), ("invoice", 0), ("invoice", 1)]
                        if d in starts or d in FIXED_DATES:
                            kinds += [("invoice", 2), ("invoice", 3), ("invoice", 4), ("invoice", 5)]   # orders and deliveries
                        for op, kind in kinds:
                            cases.append(dict(stream="tables", op=op, kind=kind, cc=cc, cat=cat["code"], key=rt["key"],
                                              d=d, tags=tags, ext=ext, boundary=d in starts))
                        # the same combo inside a document whose other rows use the same rate key in the other contexts
                        others = [e for t, e in contexts_of(vals) if e != ext and not t]
                        if others and (d in starts or d in FIXED_DATES):
                            for kind in (0, 3, 5):
                                cases.append(dict(stream="tables-decoys", op="invoice", kind=kind, cc=cc, cat=cat["code"], key=rt["key"],
                                                  d=d, tags=tags, ext=ext, boundary=d in starts, decoys=others))
                # the same combo resolved in a FOREIGN regime: the document belongs to another registered regime
                # (drawn per case), the combo to this one - by `country` on the combo (via 1) or by the customer-rates
                # tag and a customer of this country (via 2) - on a line, a document discount or a document charge
                # (where 0/1/2), in an invoice / order / delivery dated by issue_date / value_date; and through
                # tax.TotalCalculator with Combo.Country set. The table, the boundary and the error before the first
                # value are those of the combo's country, whatever document it stands in.
                if hosts:
                    fdates = []
                    for s in starts:
                        fdates += [shift(s, -1), s, shift(s, 1)]
                    fdates = sorted(set(fdates + FIXED_DATES))
                    for tags, ext in contexts_of(vals):
                        for d in fdates:
                            edge = bool(starts) and d in (starts[0], shift(starts[0], -1))   # first value of the table / the day before it
                            cases.append(dict(stream="foreign", op="prepare", kind=None, cc=cc, cat=cat["code"], key=rt["key"], d=d,
                                              tags=tags, ext=ext, boundary=d in starts, host=rng.choice(hosts), via=1, where=0))
                            for via in (1, 2):
                                combos = [(k, 0) for k in range(6)] + [(k, wh) for k in range(6) for wh in (1, 2)]
                                if not (edge or d == (1900, 1, 1)):
                                    k0 = rng.randrange(6)
                                    combos = [(k0, 0), ((k0 + 3) % 6, 0), (rng.randrange(6), 1), (rng.randrange(6), 2)]
                                for kind, wh in combos:
                                    cases.append(dict(stream="foreign", op="invoice", kind=kind, cc=cc, cat=cat["code"], key=rt["key"], d=d,
                                                      tags=tags + ("customer-rates",) if via == 2 else tags, ext=ext, boundary=d in starts,
                                                      host=rng.choice(hosts), via=via, where=wh))
                # the same documents with EVERY other date they can carry (operation, despatch, receive, delivery,
                # period, due, advance, reference dates ...: whatever date fields the Go type has) set to a date on
                # the other side of the boundary: the tax date is the value date or the issue date, nothing else
                for tags, ext in contexts_of(vals):
                    pairs = []
                    for s in starts:
                        pairs += [(s, shift(s, -1)), (shift(s, -1), s)]
                    pairs += [((2026, 10, 1), (1900, 1, 1)), ((1900, 1, 1), (2026, 10, 1))]
                    if starts:
                        pairs.append((starts[-1], shift(starts[-1], rng.randrange(-20000, -1))))
                        pairs.append((shift(starts[0], rng.randrange(0, 20000)), shift(starts[0], -rng.randrange(1, 20000))))
                    for d, other in pairs:
                        for kind in range(6):
                            cases.append(dict(stream="tables-otherdates", op="invoice", kind=kind, cc=cc, cat=cat["code"], key=rt["key"],
                                              d=d, tags=tags, ext=ext, boundary=d in starts, other=other))
                # extended keys (Key.HasPrefix path: defined first component + free suffix), keys whose first
                # component is NOT a rate (undefined word first, another rate's suffix first) and unknown keys,
                # one boundary date each
                d0 = starts[-1] if starts else (2020, 1, 1)
                tail = rt["key"].split("+")[-1]
                for key in (rt["key"] + "+zz-extra", "zz-extra+" + rt["key"], "bogus+" + rt["key"] + "+x",
                            tail + "+" + rt["key"] if "+" in rt["key"] else rt["key"] + "+zz-a+zz-b"):
                    for op, kind in (("lookup", None), ("prepare", None), ("invoice", 1)):
                        cases.append(dict(stream="keys", op=op, kind=kind, cc=cc, cat=cat["code"], key=key, d=d0, tags=(), ext={}, boundary=bool(starts)))
            for op, kind in (("lookup", None), ("prepare", None), ("invoice", 0)):
                cases.append(dict(stream="keys", op=op, kind=kind, cc=cc, cat=cat["code"], key="zz-no-such-rate", d=(2020, 1, 1), tags=(), ext={}, boundary=False))
        for op, kind in (("lookup", None), ("prepare", None), ("invoice", 0)):
            cases.append(dict(stream="keys", op=op, kind=kind, cc=cc, cat="ZZNOCAT", key="standard", d=(2020, 1, 1), tags=(), ext={}, boundary=False))
    return cases


SYN_DATES = [(2019, 12, 31), (2020, 1, 1), (2020, 1, 2), (2020, 2, 29), (2020, 3, 1), (2021, 6, 15), (2021, 6, 16), (1999, 12, 31)]
BAD_DATES = [(2021, 2, 30), (2020, 13, 1), (0, 0, 0), (2021, 4, 31), (2019, 2, 29), (2020, 0, 10), (2020, 5, 0)]


def gen_synthetic(c, n):
    rng = c.rng
    lines = []
    for _ in range(n):
        rows = []
        for _ in range(rng.randint(0, 6)):
            r = rng.random()
            since = [] if r < 0.2 else list(rng.choice(BAD_DATES)) if r < 0.3 else list(rng.choice(SYN_DATES))
            pct = [rng.randint(0, 300), 3]
            sur = [rng.randint(1, 60), 3] if rng.random() < 0.3 else []
            tags = [t for t in ("a", "b", "c") if rng.random() < 0.2]
            ext = []
            if rng.random() < 0.3:
                ext.append(["k1", rng.choice(["x", "y"])])
            if rng.random() < 0.15:
                ext.append(["k2", "z"])
            rows.append([since, pct, sur, tags, ext])
        if rng.random() < 0.4:   # mostly-descending tables reach the interesting boundary cases more often
            rows.sort(key=lambda r_: tuple(r_[0]) if r_[0] else (-1,), reverse=True)
        d = list(rng.choice(SYN_DATES + [shift(x, rng.choice([-1, 1])) for x in SYN_DATES]))
        tags = [t for t in ("a", "b", "c", "d") if rng.random() < 0.3]
        ext = []
        if rng.random() < 0.5:
            ext.append(["k1", rng.choice(["x", "y", "q"])])
        if rng.random() < 0.3:
            ext.append(["k2", "z"])
        lines.append(("synthetic", "c12 value %d " + wl(rows, d, tags, ext)))
        if rng.random() < 0.25:
            lines.append(("checkorder", "c12 checkorder " + wl(rows)))
    for _ in range(n // 2):
        def rd():
            if rng.random() < 0.5:
                return list(rng.choice(SYN_DATES + BAD_DATES))
            return [rng.randint(1890, 2110), rng.randint(-1, 14), rng.randint(-1, 33)]
        lines.append(("dates", "c12 date " + wl(rd(), rd())))
    return lines


# ----------------------------------------------------------------------------------------------
# judging
# ----------------------------------------------------------------------------------------------

SENT_P, SENT_S = (12345, 4), (678, 3)


def norm(line):
    """wire output -> comparable observable (error kinds only; extension pairs sorted)"""
    vs = parse_wire(line)
    if is_err(vs):
        return ("err", vs[0][1].decode() if len(vs[0]) > 1 else "")
    def fix(x):
        if isinstance(x, list):
            return tuple(fix(y) for y in x)
        if isinstance(x, bytes):
            return x.decode("latin1")
        return x
    return fix(vs)


def p_expect(pub, case, go_ext=None, strict=False):
    """What the published table says the answer must be: a set of acceptable (percent, surcharge) pairs,
    or ('err', kind), or None when the published files do not describe the case."""
    f, r = regime_by_country(pub, case["cc"])
    if r is None:
        return None
    cat = next((x for x in r.get("categories", []) if x["code"] == case["cat"]), None)
    if cat is None:
        return ("err", "nocat" if case["op"] == "lookup" else "invalid-category")
    rt = find_rate(cat, case["key"])
    if rt is None:
        return ("err", "norate" if case["op"] == "lookup" else "invalid-rate")
    ext = dict(case["ext"])
    if case["op"] != "lookup":
        if rt.get("ext") and not case.get("host"):     # Combo.prepareRate copies the rate's extensions to local combos only
            ext.update(rt["ext"])
        if go_ext is not None:
            ext = go_ext
        if rt.get("exempt"):
            return {(None, None)}
        if not rt.get("values"):
            return {(SENT_P, SENT_S)}
    vals = rt.get("values", [])
    idx = p_choice(vals, case["d"], case["tags"], ext, strict)
    if not idx:
        return ("err", "none" if case["op"] == "lookup" else "invalid-date")
    return {(ppct(vals[i]["percent"]), ppct(vals[i].get("surcharge"))) for i in idx}


def observed(case, n):
    """(percent, surcharge) or ('err', kind) out of a normalised result"""
    if n and n[0] == "err":
        return n
    row = n[0]
    if case["op"] == "lookup":
        if row[0] == 0:
            return ("err", "none")
        return (tuple(row[2]), tuple(row[3]) or None)
    if case["op"] == "prepare":
        return (tuple(row[2]) or None, tuple(row[3]) or None)
    return (tuple(row[1]) or None, tuple(row[2]) or None)


def go_ext_of(case, n):
    if case["op"] == "invoice" and n and n[0] != "err":
        return {k: v for k, v in n[0][3]}
    return None


def line_of(case, mode, for_go=False):
    if case.get("host"):
        # foreign stream. Model: what ONE combo of country cc receives on the date (the document around it is Go's
        # business; for via 2 the customer-rates tag is among the tags). Go: the host document, see harness/c12.go
        if not for_go:
            return case_line(case["op"], mode, case["cc"], case["cat"], case["key"], case["d"], case["tags"], case["ext"],
                             None if case["kind"] is None else case["kind"] % 2)
        if case["op"] == "prepare":
            return case_line("prepare", mode, case["cc"], case["cat"], case["key"], case["d"], case["tags"], case["ext"]) + " " + w(case["host"])
        gtags = tuple(t for t in case["tags"] if not (case["via"] == 2 and t == "customer-rates"))   # the harness adds the tag itself
        return (case_line("foreign", mode, case["cc"], case["cat"], case["key"], case["d"], gtags, case["ext"], case["kind"])
                + " %s %d %d" % (w(case["host"]), case["via"], case["where"]))
    l = case_line(case["op"], mode, case["cc"], case["cat"], case["key"], case["d"], case["tags"], case["ext"], case["kind"])
    if for_go and (case.get("decoys") or case.get("other")):
        # further rows of the same document in other contexts (Go only: the model states what ONE combo receives)
        l += " " + w([ext_w(e) for e in case.get("decoys") or []])
        if case.get("other"):
            # the date of every other date field of the document (Go only: the model is given the tax date)
            l += " " + w(list(case["other"]))
    return l


def describe(case):
    how = {"lookup": "RateDef.Value", "prepare": "tax.TotalCalculator", "invoice": "bill.Invoice.Calculate"}[case["op"]]
    if case["op"] == "invoice":
        how = "bill.%s.Calculate (%s)" % (["Invoice", "Order", "Delivery"][case["kind"] // 2], "issue_date" if case["kind"] % 2 == 0 else "value_date")
    ctx = ""
    if case["tags"] or case["ext"]:
        ctx = " tags=%s ext=%s" % (list(case["tags"]), case["ext"])
    if case.get("host"):
        if case["op"] == "prepare":
            how += " of country %s with Combo.Country = %s" % (case["host"], case["cc"])
        else:
            how += " of a %s document, the combo on %s, belonging to %s by %s" % (
                case["host"], ["a line", "a document discount", "a document charge"][case["where"]], case["cc"],
                "`country` on the combo" if case["via"] == 1 else "the customer-rates tag and a customer with tax_id country " + case["cc"])
    return "%s %s %s on %04d-%02d-%02d%s through %s" % (case["cc"], case["cat"], case["key"], *case["d"], ctx, how)


def show(o):
    if o is None:
        return "nothing"
    if o[0] == "err":
        return "error " + o[1]
    def pc(p):
        if p is None:
            return "none"
        v, e = p
        return "%s%%" % (v / 10 ** (e - 2)) if e >= 2 else "%s" % (v / 10 ** e)
    return "percent %s surcharge %s" % (pc(o[0]), pc(o[1]))


def load_corpus():
    cases = []
    d = os.path.join(VERIF, "corpus", "C12")
    if os.path.isdir(d):
        for f in sorted(os.listdir(d)):
            if f.endswith(".json"):
                for x in json.load(open(os.path.join(d, f)))["cases"]:
                    x = dict(x, stream="corpus", d=tuple(x["d"]), tags=tuple(x["tags"]), boundary=True)
                    if x.get("other"):
                        x["other"] = tuple(x["other"])
                    cases.append(x)
    return cases



def proof_error(pr):
    """the first coqc error of the build log (file, position, message)"""
    import re
    log = pr.get("make_log") or pr.get("log", "")
    m = re.search(r'File "[^"]+", line \d+, characters [\d-]+:\nError:.*?(?=\n\n|\nmake|\Z)', log, re.S)
    if m:
        return m.group(0)[:700]
    if pr.get("forbidden"):
        return "forbidden vernacular: %s" % pr["forbidden"][:3]
    return log[-400:]

def run(c):
    quick = c.tier == "quick"
    if not std_builds(c):
        return
    ok, out = translate()
    if not ok:
        c.report("translator failed: " + out[-800:], {"correspondence": "vharness translate", "log": out[-2000:]}, no_input=True)
        return
    proved = c.prove()
    ok, out = build_oracle()
    if not ok:
        c.report("extraction/oracle build failed: " + out[-800:], {"machinery": "oracle"}, no_input=True)
        return
    pub = load_published(REPO)
    code = load_in_code()

    # ---- generated-data theorems: concrete witnesses straight from the tables ----
    concrete = []
    for src, regs in (("code (tax.AllRegimeDefs)", code), ("published data/regimes", pub)):
        for f, cat, key, i, j, why in unordered_pairs(regs):
            concrete.append((src, f, cat, key, i, j, why))
    for src, f, cat, key, i, j, why in concrete[:10]:
        c.report("rate table %s %s %s in %s: %s" % (f, cat, key, src, why),
                 {"table": {"source": src, "file": f, "category": cat, "rate": key, "entries": [i, j]}, "why": why,
                  "theorem": "shipped_unqualified_strictly_descending / shipped_descending_in_every_context / shipped_dates_valid (rocq/Props/C12.v)"})

    # ---- correspondence + P over the tables ----
    union = dict(pub)
    union.update(code)          # cases are enumerated from what the code registers (plus files of countries only published)
    cases = load_corpus() + gen_table_cases(c, {f: r for f, r in union.items() if f in code}, quick)
    lines1 = [line_of(x, 1) for x in cases]
    lines0 = [line_of(x, 0) for x in cases]
    go = run_go([line_of(x, 1, for_go=True) for x in cases])
    m1 = run_oracle(lines1)
    m0 = run_oracle(lines0)
    known_hits, viol = [], []
    ngo_eq_shipped = 0
    other_fields = {}           # document type -> top-level fields under which the harness found and set other dates
    for x, g in zip(cases, go):
        if x.get("other") and x["kind"] // 2 not in other_fields:
            ng = norm(g)
            if ng and ng[0] != "err" and len(ng[0]) > 5:
                other_fields[x["kind"] // 2] = list(ng[0][5])
    c.cov["other_date_fields"] = {["bill.Invoice", "bill.Order", "bill.Delivery"][k]: v for k, v in sorted(other_fields.items())}
    if any(x.get("other") for x in cases) and len(other_fields) < 3:
        c.report("tables-otherdates: the harness set no other date on some document type (%s): the stream is not exercising anything" % other_fields,
                 {"machinery": "c12FillDates"}, no_input=True)
    for x, l, g, a, b in zip(cases, lines1, go, m1, m0):
        ng, n1, n0 = norm(g), norm(a), norm(b)
        if x["op"] == "invoice":       # compare percent/surcharge/rate key; the ext is an input of P
            cut = lambda n: n if n[0] == "err" else ((n[0][0], n[0][1], n[0][2], n[0][4]),)
            cg, c1, c0 = cut(ng), cut(n1), cut(n0)
        elif x.get("host"):            # foreign prepare: verdict, retained, percent, surcharge (extensions are the host's business)
            cut = lambda n: n if n[0] == "err" else (n[0][:4],)
            cg, c1, c0 = cut(ng), cut(n1), cut(n0)
        else:
            cg, c1, c0 = ng, n1, n0
        ckey = line_of(x, 1, for_go=True) if x.get("host") else l
        c.count(x["stream"] + ":" + x["op"], 1, (ckey + (" other %d-%d-%d" % x["other"] if x.get("other") else "")) if x["boundary"] else None)
        ngo_eq_shipped += cg == c0
        og = observed(x, ng)
        exp = p_expect(pub, x, go_ext_of(x, ng))
        p_ok = exp is None or (og == exp if isinstance(exp, tuple) else og in exp)
        if cg == c1 and p_ok:
            continue
        # something is wrong: classify
        exp_strict = p_expect(pub, x, go_ext_of(x, ng), strict=True)
        strict_ok = exp_strict is not None and (og == exp_strict if isinstance(exp_strict, tuple) else og in exp_strict)
        is_known = (x["boundary"] and cg == c0 and strict_ok and not p_ok)
        what = "%s: implementation gives %s, the table value in force is %s" % (
            describe(x), show(og), " or ".join(sorted(show(e) for e in exp)) if isinstance(exp, set) else show(exp))
        if exp in (("err", "norate"), ("err", "invalid-rate")) and not p_ok:
            what = "%s: implementation gives %s, but neither `%s` nor its first component `%s` is a rate of %s %s in the published table" % (
                describe(x), show(og), x["key"], x["key"].split("+", 1)[0], x["cc"], x["cat"])
        if cg != c1 and p_ok:
            what = "%s: implementation `%s` differs from the model `%s` (published table agrees with the implementation)" % (describe(x), g, a)
        if x.get("other"):
            fields = other_fields.get(x["kind"] // 2) or []
            what += "; every other date the document can carry (under %s) is %04d-%02d-%02d, and the tax date is the %s" % (
                ", ".join(fields) if fields else "op_date / despatch_date / receive_date, delivery, periods, due dates, references ...",
                *x["other"], "issue date" if x["kind"] % 2 == 0 else "value date")
        gl = line_of(x, 1, for_go=True)
        if x.get("host") and exp == ("err", "invalid-date") and not p_ok and og[0] != "err":
            what += "; no value of the %s table is in force on that date: the clause asks for an error rather than a guess%s" % (
                x["cc"], " (123.45% / 67.8% are the percentages the input itself carried)" if og == (SENT_P, SENT_S) else "")
        rep = {"case": l, "go_case": gl, "decoy_rows": x.get("decoys"), "case_fields": {k: x[k] for k in ("op", "kind", "cc", "cat", "key", "d", "tags", "ext")},
               "foreign": {k: x[k] for k in ("host", "via", "where")} if x.get("host") else None,
               "other_dates": list(x["other"]) if x.get("other") else None,
               "implementation": g, "model_after_fix": a, "model_as_shipped": b,
               "published_table_says": sorted(map(str, exp)) if isinstance(exp, set) else exp,
               "clause": "the percentage (and surcharge) a document receives is the table value with the latest start date on or before the tax date, a value taking effect on its start date itself",
               "rerun": "echo '%s' | bin/vharness ; echo '%s' | bin/oracle" % (gl, l)}
        if is_known:
            known_hits.append((what, rep))
        else:
            viol.append((what, rep))
    for what, rep in known_hits:
        c.report(what, rep, finding_id=FINDING)
    seen = set()
    for what, rep in viol:
        k = (rep["case_fields"]["cc"], rep["case_fields"]["cat"], rep["case_fields"]["key"], rep["case_fields"]["op"], bool(rep.get("foreign")))
        if k in seen:
            continue
        seen.add(k)
        c.report(what + (" (%d failing cases in all)" % len(viol)), rep)

    # ---- synthetic tables, validator order test, date functions ----
    syn = gen_synthetic(c, 6000 if quick else 60000)
    sl1 = [l % 1 if "%d" in l else l for _, l in syn]
    sl0 = [l % 0 if "%d" in l else l for _, l in syn]
    sg, s1, s0 = run_go(sl1), run_oracle(sl1), run_oracle(sl0)
    syn_known, syn_bad = 0, []
    for (stream, _), l, g, a, b in zip(syn, sl1, sg, s1, s0):
        ng, n1, n0 = norm(g), norm(a), norm(b)
        c.count(stream, 1, l)
        if ng == n1:
            continue
        if stream == "synthetic" and ng == n0:
            # differs from the repaired model exactly where the strict comparison does: P on the synthetic table
            vs = parse_wire(l)
            rows, d, tags, ext = vs[3], tuple(vs[4]), [t.decode() for t in vs[5]], {k.decode(): v.decode() for k, v in vs[6]}
            vals = [{"since": ("%d-%d-%d" % tuple(r[0])) if r[0] else None, "tags": [t.decode() for t in r[3]],
                     "ext": {k.decode(): v.decode() for k, v in r[4]}} for r in rows]
            for v_ in vals:
                if v_["since"] is None:
                    del v_["since"]
            inc = p_choice(vals, d, tags, ext)
            if inc and since_of(vals[inc[0]]) == d:
                syn_known += 1
                c.report("synthetic table `%s`: implementation `%s`, value in force `%s`" % (l, g, a), {"case": l}, finding_id=FINDING)
                continue
        syn_bad.append((stream, l, g, a, b))
    for stream, l, g, a, b in syn_bad[:3]:
        c.report("%s case `%s`: implementation `%s` differs from the model `%s` (%d such cases)" % (stream, l, g, a, len(syn_bad)),
                 {"case": l, "implementation": g, "model_after_fix": a, "model_as_shipped": b,
                  "rerun": "echo '%s' | bin/vharness ; echo '%s' | bin/oracle" % (l, l)}, no_input=False)

    # ---- bookkeeping ----
    nb = sum(1 for x in cases if x["boundary"])
    c.cov["exhaustive"] = True
    c.cov["rule"] = ("exhaustive: every registered regime x category x rate key x qualifier context (none, each tag / extension "
                     "filter of the table, a foreign code, an unknown tag) x dates {start-1, start, start+1 for every start date of "
                     "the table, 5 fixed dates incl. a leap day, random dates} x {RateDef.Value, TotalCalculator, invoice by "
                     "issue_date, invoice by value_date; on start dates and fixed dates also order and delivery by issue_date / "
                     "value_date}; plus (tables-otherdates) invoice, order and delivery by issue_date / value_date on every start date "
                     "and the day before it, with EVERY other date field of the document type (found by walking the Go type: op_date, "
                     "despatch_date, receive_date, delivery, periods, due dates, advances, references ...) set to the day on the other "
                     "side of the boundary, a date before every table and random far dates; plus (foreign) every rate x context x "
                     "{start-1, start, start+1, fixed dates} resolved in ANOTHER country's regime: a document of a different registered "
                     "regime (drawn per case) whose combo names the country (`country`) or that carries the customer-rates tag with a "
                     "customer of that country, the combo on a line / document discount / document charge, invoice / order / delivery by "
                     "issue_date / value_date (all 36 combinations on the first start date, the day before it and 1900-01-01; 8 drawn "
                     "ones elsewhere), and tax.TotalCalculator with Combo.Country set; plus extended rate keys (defined first component + suffixes), keys whose "
                     "first component is not a rate of the category (`zz-extra+standard`, `bogus+standard+x`, `eqs+standard+eqs`), "
                     "unknown rate keys and unknown categories; plus random "
                     "synthetic tables (tags, extension filters, absent and invalid start dates), the validator's order test and "
                     "date validity/order on random triples. distinct non-trivial = distinct case lines whose date IS a start "
                     "date of the table (table streams) or distinct lines (synthetic streams)")
    c.cov["tables"] = {"regimes_in_code": len(code), "regimes_published": len(pub),
                       "rate_tables": sum(len(cat.get("rates", [])) for r in code.values() for cat in r.get("categories", [])),
                       "values": sum(len(rt.get("values", [])) for r in code.values() for cat in r.get("categories", []) for rt in cat.get("rates", [])),
                       "cases_on_a_start_date": nb, "implementation_equals_as_shipped_model": ngo_eq_shipped, "cases": len(cases),
                       "synthetic_known_finding_cases": syn_known}
    if nb == 0:
        c.report("no generated case falls on a start date: the generator is broken", {"machinery": "generator"}, no_input=True)
    for x in [y for y in cases if y["boundary"]][:: max(1, nb // 4)][:4]:
        c.sample({"stream": x["stream"], "case": line_of(x, 1), "reads": describe(x)})
    c.sample({"stream": "synthetic", "case": sl1[0]})
    # cross-check extraction inside Coq on a sample
    samp = lines1[:: max(1, len(lines1) // 120)][:120] + sl1[:: max(1, len(sl1) // 80)][:80]
    try:
        inq = coq_eval(samp)
        mo = run_oracle(samp, shards=1)
        bad = [(l, a, b) for l, a, b in zip(samp, inq, mo) if a != b]
        c.cov["vm_compute_crosscheck"] = {"cases": len(samp), "differences": len(bad)}
        if bad:
            c.report("extracted model disagrees with vm_compute: %r" % (bad[0],), {"machinery": bad[0]}, no_input=True)
    except Exception as e:
        c.report("vm_compute cross-check failed: %r" % e, {"machinery": repr(e)}, no_input=True)

    if not proved:
        pr = c.proof
        found = bool(concrete or viol)
        c.report("proof obligations of rocq/Props/C12.v no longer check (%s): %s" % (
                 ", ".join(pr.get("failed_files") or ["Props/C12.v"]), proof_error(pr)),
                 {"theorem": "rocq/Props/C12.v", "failed_files": pr.get("failed_files"), "forbidden": pr.get("forbidden")},
                 no_input=not found)


def replay(path):
    r = json.load(open(path))["replay"]
    if "case" not in r:
        print(json.dumps(r, indent=1))
        return 0
    l = r["case"]
    build_harness()
    print("implementation:       ", run_go([r.get("go_case") or l], shards=1)[0])
    print("model (after repair): ", run_oracle([l], shards=1)[0])
    l0 = l.split(" ")
    if len(l0) > 2 and l0[2] == "1":
        l0[2] = "0"
        print("model (as shipped):   ", run_oracle([" ".join(l0)], shards=1)[0])
    return 0
