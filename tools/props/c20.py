"""C20 - tax summaries combine component-wise; payment totals add up.
Tie: tax.Total.Negate/Merge/Calculate and bill.Payment through Go vs Calc/Merge.v (extracted);
oracle P recomputes the component-wise sums from the operands with exact fractions."""
import copy
from fractions import Fraction
from vlib import *
import calcgen as cg

TRUSTED = ["modelled, not verified: currency conversion of payment lines uses the declared exchange rates only; "
           "regime normalisers of bill.Payment are not modelled (they do not touch amounts)"]
Z = Fraction(0)


def q(a):
    return None if a == [] else Fraction(a[0], 10 ** a[1])


# ---- generators -------------------------------------------------------------------------------
def gen_tt(rng, c=2, cats=None):
    """a well-formed tax summary as tax.Total JSON: distinct categories, distinct group keys per category,
    all amounts at the currency's precision."""
    def amt(maxv=900000):
        v = rng.randrange(maxv)
        if rng.random() < 0.2:
            v = -v
        return cg.fmt(cg.A(v, c))
    out = {"categories": [], "sum": amt()}
    for code in cats or rng.sample(["VAT", "IRPF", "IGIC", "GST"], rng.randint(1, 3)):
        ct = {"code": code, "rates": [], "amount": amt()}
        if code == "IRPF":
            ct["retained"] = True
        keys = set()
        anysur = False
        for _ in range(rng.randint(1, 4)):
            r = {"base": amt(), "amount": amt()}
            k = rng.random()
            pct = None if k < 0.15 else rng.choice(["21%", "21.0%", "10%", "4%", "0%", "7.75%"])
            sur = rng.choice(["5.2%", "1.4%"]) if pct is not None and rng.random() < 0.3 else None
            ext = rng.choice([None, None, {"es-x": "A"}, {"es-x": "B"}])
            country = rng.choice(["", "", "PT"])
            key = (country, repr(ext), None if pct is None else cg.parse_pct(pct).q(), None if sur is None else cg.parse_pct(sur).q())
            if key in keys:
                continue
            keys.add(key)
            if pct is not None:
                r["percent"] = pct
                if rng.random() < 0.5:
                    r["key"] = "standard"
            else:
                r["key"] = "exempt"
            if sur is not None:
                r["surcharge"] = {"percent": sur, "amount": amt(9000)}
                anysur = True
            if ext:
                r["ext"] = ext
            if country:
                r["country"] = country
            ct["rates"].append(r)
        if anysur and rng.random() < 0.9:
            ct["surcharge"] = amt(9000)
        out["categories"].append(ct)
    return out


def tt_wire(t):
    cats = []
    for ct in t.get("categories", []):
        rates = []
        for r in ct.get("rates", []):
            sur = r.get("surcharge")
            rates.append([r.get("key", "").encode(), r.get("country", "").encode(),
                          [[k.encode(), v.encode()] for k, v in sorted((r.get("ext") or {}).items())],
                          cg.op(r.get("percent")), [] if not sur else cg.parse_pct(sur["percent"]).t(),
                          cg.parse(r["base"]).t(), cg.parse(r["amount"]).t(), [0, 0] if not sur else cg.parse(sur["amount"]).t()])
        cats.append([ct["code"].encode(), 1 if ct.get("retained") else 0, rates, cg.parse(ct["amount"]).t(),
                     cg.oa(ct.get("surcharge")), [0, 0]])
    return [cats, cg.parse(t["sum"]).t(), [0, 0]]


def finer_bases(rng, t, c=2):
    """give most rate bases of a generated summary one or two more decimals than the currency has, so that
    recalculating it (ctt operand) leaves precise figures that differ from the presented ones"""
    t = copy.deepcopy(t)
    for ct in t["categories"]:
        for r in ct["rates"]:
            if rng.random() < 0.8:
                extra = rng.choice([1, 1, 2])
                a = cg.parse(r["base"])
                v = a.t()[0] * 10 ** extra + rng.randrange(10 ** extra) * (1 if a.t()[0] >= 0 else -1)
                r["base"] = cg.fmt(cg.A(v, c + extra))
    return t


# ---- corpus: witnesses of repaired defects, exercised on every run --------------------------------
def _one(code, pct, base, amount, retained=False):
    ct = {"code": code, "rates": [{"base": base, "percent": pct, "amount": amount}], "amount": amount}
    if retained:
        ct["retained"] = True
    return ct


W_VAT = {"categories": [_one("VAT", "21%", "100.00", "21.00")], "sum": "21.00"}
# C20-merge-shares-operand-rows (a): the operand lists the same category twice; Merge appended the first
# occurrence with the operand's own rate objects and then added the second occurrence into them
W_IRPF2 = {"categories": [_one("IRPF", "15%", "100.00", "15.00", True), _one("IRPF", "15%", "100.00", "15.00", True)], "sum": "-30.00"}
# the same without a repeated category: the result shared the operand's rates (recalculating the result rewrote them)
W_IRPF = {"categories": [_one("IRPF", "15%", "100.00", "14.00", True)], "sum": "-14.00"}
# C20-merge-shares-operand-rows (b), precise figures: base 100.004 recalculated in EUR, rule precise: precise 21.001 / presented 21.00
W_FINE = {"categories": [_one("VAT", "21%", "100.004", "21.00")], "sum": "21.00"}
# C20-merge-different-precisions: a summary calculated for JPY (no decimals) and one for EUR; the presented figures
# were added with x.Add(y), which rounds y to x's decimals: base 1101 in one order, 1100.55 in the other
W_JPY = {"categories": [_one("VAT", "10%", "1000", "100")], "sum": "100"}
W_EUR10 = {"categories": [_one("VAT", "10%", "100.55", "10.06")], "sum": "10.06"}
W_JPY_S = {"categories": [{"code": "VAT", "rates": [{"base": "1000", "percent": "10%", "surcharge": {"percent": "5.2%", "amount": "52"}, "amount": "100"}],
                           "amount": "100", "surcharge": "52"}], "sum": "152"}
W_EUR_S = {"categories": [{"code": "VAT", "rates": [{"base": "100.55", "percent": "10%", "surcharge": {"percent": "5.2%", "amount": "5.23"}, "amount": "10.06"}],
                           "amount": "10.06", "surcharge": "5.23"}], "sum": "15.29"}
CORPUS = [
    ("merge", [("tt", W_JPY), ("tt", W_EUR10)]),
    ("merge", [("tt", W_EUR10), ("tt", W_JPY)]),
    ("merge", [("tt", W_JPY_S), ("tt", W_EUR_S)]),
    ("merge", [("tt", W_EUR_S), ("tt", W_JPY_S)]),
    ("merge", [("ctt", [0, 0, W_JPY]), ("ctt", [0, 2, W_FINE]), ("ctt", [1, 3, W_EUR10])]),
    ("merge", [("tt", W_VAT), ("tt", W_IRPF2)]),
    ("merge", [("tt", W_VAT), ("tt", W_IRPF)]),
    ("merge", [("ctt", [0, 2, W_FINE]), ("ctt", [0, 2, W_FINE])]),
    ("merge", [("tt", W_VAT), ("ctt", [0, 2, W_FINE])]),
    ("merge", [("ctt", [0, 2, W_FINE]), ("tt", W_VAT)]),
    ("merge", [("ctt", [0, 2, W_FINE]), ("tt", W_VAT), ("ctt", [1, 2, W_FINE]), ("tt", W_IRPF)]),
    ("negate", [("ctt", [0, 2, W_FINE])]),
    ("merge_negate", [("ctt", [0, 2, W_FINE])]),
]


def operand_decimals(o):
    """decimals of the presented figures of an operand"""
    kind, x = o
    if kind == "ctt":
        return x[1]
    if kind == "tt":
        return cg.parse(x["sum"]).e
    return 2


def operand_lines(ops):
    """ops: list of ('doc', invoice) | ('tt', total) | ('ctt', [rule, c, total]) -> (go args, model args)"""
    g, m = [], []
    for kind, x in ops:
        if kind == "doc":
            g.append("( doc %s )" % w(json.dumps(x)))
            m.append("( doc %s )" % w(cg.to_wire(x)))
        elif kind == "ctt":
            rule, cdec, t = x
            g.append("( ctt %d %d %s )" % (rule, cdec, w(json.dumps(t))))
            m.append("( ctt %d %d %s )" % (rule, cdec, " ".join(w(y) for y in tt_wire(t))))
        else:
            g.append("( tt %s )" % w(json.dumps(x)))
            m.append("( tt %s )" % " ".join(w(y) for y in tt_wire(x)))
    return " ".join(g), " ".join(m)


# ---- oracle P ---------------------------------------------------------------------------------
def as_map(res):
    """projected summary (e_tt) -> {cat: {"amount", "surcharge", "groups": {key: (base, amount, suramount)}}}, sum"""
    cats = {}
    for ct in res[1]:
        groups = {}
        for g in ct[2]:
            key = (g[0], tuple(map(tuple, g[1])), q(g[2]), q(g[3]))
            if key in groups:
                return None, None    # not well formed
            groups[key] = (q(g[4]), q(g[5]), q(g[6]) or Z)
        if ct[0] in cats:
            return None, None
        cats[ct[0]] = {"amount": q(ct[3]), "surcharge": q(ct[4]), "groups": groups, "retained": ct[1]}
    return cats, q(res[2])


def precise_of(res):
    """projected summary -> (PreciseSum(), {category code: PreciseAmount()}) as exact fractions"""
    return q(res[3]), {ct[0]: q(p) for ct, p in zip(res[1], res[4])}


def expect_precise(ps):
    """left fold of the operands' precise figures [(sum, {code: amount})]; a figure whose running total passes
    through exactly zero is left unjudged (None): the accessors read zero as 'unset'"""
    tot, tot_ok = ps[0][0], True
    cats = {k: [v, True] for k, v in ps[0][1].items()}
    for s_, cs in ps[1:]:
        tot += s_
        if tot == 0:
            tot_ok = False
        for k, v in cs.items():
            if k in cats:
                cats[k][0] += v
                if cats[k][0] == 0:
                    cats[k][1] = False
            else:
                cats[k] = [v, True]
    return (tot if tot_ok else None), {k: (v if ok_ else None) for k, (v, ok_) in cats.items()}


def expect_merge(maps):
    out = {}
    for cats in maps:
        for code, ct in cats.items():
            o = out.setdefault(code, {"amount": Z, "surcharge": None, "groups": {}})
            o["amount"] += ct["amount"]
            if ct["surcharge"] is not None:
                o["surcharge"] = (o["surcharge"] or Z) + ct["surcharge"]
            for k, (b, a, s) in ct["groups"].items():
                ob, oa_, os_ = o["groups"].get(k, (Z, Z, Z))
                o["groups"][k] = (ob + b, oa_ + a, os_ + s)
    return out


def strip(cats):
    return {k: {"amount": v["amount"], "surcharge": v["surcharge"], "groups": v["groups"]} for k, v in cats.items()}


def run(c):
    quick = c.tier == "quick"
    if not std_builds(c):
        return
    cg.reset_tables()
    proved = c.prove()
    ok, out = build_oracle()
    if not ok:
        c.report("extraction/oracle build failed: " + out[-800:], {"machinery": "oracle"}, no_input=True)
        return
    rng = c.rng
    g = cg.Gen(rng)
    g.calc_only = True      # combos that calculate but would not validate (rate key under a country without regime)
    n = 3000 if quick else 120000

    def operand(cdec=None, cats=None):
        if cdec is not None:
            # a summary at the precision of another currency (JPY 0, EUR 2, KWD 3 decimals), as loaded or recalculated
            if rng.random() < 0.25:
                return ("ctt", [rng.choice([0, 0, 1]), cdec, finer_bases(rng, gen_tt(rng, c=cdec, cats=cats), c=cdec)])
            return ("tt", gen_tt(rng, c=cdec, cats=cats))
        if rng.random() < 0.2:
            # a loaded summary with finer bases, recalculated (as DocumentRef.Calculate does): unexported precise figures
            return ("ctt", [rng.choice([0, 0, 1]), 2, finer_bases(rng, gen_tt(rng))])
        if rng.random() < 0.35:
            for _ in range(20):
                d = g.doc(regimes=("ES",), force_rule=rng.choice([cg.PRECISE, cg.CURRENCY]))
                d["currency"] = "EUR"
                d.pop("exchange_rates", None)
                for l in d["lines"]:
                    l["item"].pop("currency", None)
                    l["item"].pop("alt_prices", None)
                    for sl in l.get("breakdown", []):
                        sl["item"].pop("currency", None)
                okd, r = cg.in_domain(d)
                if okd and r != "calc-error" and r[0] == b"ok" and r[1][15]:
                    return ("doc", d)
        return ("tt", gen_tt(rng))
    cases = list(CORPUS)
    for i in range(n):
        k = i % 5
        if k == 0:
            cases.append(("negate", [operand()]))
        elif k == 1:
            cases.append(("merge_negate", [operand()]))
        elif k == 2:
            if rng.random() < 0.4:
                # operands of DIFFERENT precision sharing categories (and, the keys being few, rate groups), in both orders
                ca, cb = rng.sample([0, 2, 3], 2)
                shared = rng.sample(["VAT", "IRPF", "IGIC", "GST"], rng.randint(1, 2))
                a, b = operand(ca, shared if rng.random() < 0.7 else None), operand(cb, shared)
            else:
                a, b = operand(), operand()
            cases.append(("merge", [a, b]))
            cases.append(("merge", [b, a]))
        elif k == 3:
            if rng.random() < 0.3:
                cases.append(("merge", [operand(rng.choice([0, 2, 2, 3])) for _ in range(rng.randint(3, 5))]))
            else:
                cases.append(("merge", [operand() for _ in range(rng.randint(3, 5))]))
        else:
            cases.append(("negate", [("tt", gen_tt(rng, cats=["VAT"]))]))
    gl, ml = [], []
    for op_, ops in cases:
        a, b = operand_lines(ops)
        gl.append("c20 %s %s" % (op_, a))
        ml.append("c20 %s %s" % (op_, b))
    # operands alone (their projections are needed by the oracle): negate twice = identity is also checked
    singles = {}
    for op_, ops in cases:
        for o in ops:
            key = json.dumps(o, sort_keys=True)
            if key not in singles:
                singles[key] = o
    skeys = list(singles)
    sg, sm = [], []
    for k in skeys:
        a, b = operand_lines([singles[k]])
        sg.append("c20 merge %s" % a)     # merge of a single operand = clone
        sm.append("c20 merge %s" % b)
    go = run_go(gl + sg)
    mo = run_oracle(ml + sm)
    proj = {}
    for k, gline in zip(skeys, go[len(gl):]):
        proj[k] = parse_wire(gline)
    mism = 0
    shown = 0
    prev = None
    for (op_, ops), gline, mline in zip(cases, go, mo):
        gv, mv = parse_wire(gline), parse_wire(mline)
        c.count(op_ if len(ops) < 3 else "merge-sequence", 1, gline)
        if op_ == "merge" and len({operand_decimals(o) for o in ops}) > 1:
            c.count("merge-different-precisions", 1, gline)
        broken = gv != mv
        if broken:
            mism += 1
        if is_err(gv):
            if (is_err(gv, "mutated") or is_err(gv, "shared")) and shown < 3:
                shown += 1
                how = ("an operand was altered by %s" % op_ if is_err(gv, "mutated") else
                       "the result of %s shares rows with an operand: recalculating the result altered the operand" % op_)
                c.report(how, {"operation": op_, "operands": ops, "implementation": gline, "clause": "neither operation alters its operands"})
            continue
        maps = []
        sums = []
        precs = []
        wf = True
        for o in ops:
            pv = proj[json.dumps(o, sort_keys=True)]
            if is_err(pv):
                wf = False
                break
            m_, s_ = as_map(pv)
            if m_ is None:
                wf = False
                break
            maps.append(m_)
            sums.append(s_)
            precs.append(precise_of(pv))
        if not wf:
            continue
        got, gsum = as_map(gv)
        if got is None:
            c.report("%s produced a summary with duplicate categories or group keys" % op_, {"operation": op_, "operands": ops, "implementation": gline})
            continue
        gps, gpc = precise_of(gv)
        if op_ == "negate":
            wps, wpc = -precs[0][0], {k: -v for k, v in precs[0][1].items()}
        elif op_ == "merge_negate":
            wps, wpc = None, {}       # cancels exactly: the accessors fall back on the presented (zero) figures, judged below
        else:
            wps, wpc = expect_precise(precs)
        if op_ == "negate":
            want = {k: {"amount": -v["amount"], "surcharge": None if v["surcharge"] is None else -v["surcharge"],
                        "groups": {gk: (-b, -a, -s) for gk, (b, a, s) in v["groups"].items()}} for k, v in maps[0].items()}
            wsum = -sums[0]
            clause = "negating flips the sign of every amount including surcharges"
        elif op_ == "merge_negate":
            want = {k: {"amount": Z, "surcharge": None if v["surcharge"] is None else Z,
                        "groups": {gk: (Z, Z, Z) for gk in v["groups"]}} for k, v in maps[0].items()}
            wsum = Z
            clause = "a summary merged with its negation is zero everywhere"
        else:
            want = expect_merge(maps)
            wsum = sum(sums, Z)
            clause = "merging yields component-wise sums independent of operand order"
        if strip(got) != want or gsum != wsum:
            if shown < 3:
                shown += 1
                c.report("%s: result is not the component-wise %s of the operands" % (op_, "negation" if "negate" == op_ else "sum"),
                         {"operation": op_, "operands": ops, "implementation": gline, "clause": clause})
        elif (wps is not None and gps != wps) or any(v is not None and gpc.get(k) != v for k, v in wpc.items()):
            if shown < 3:
                shown += 1
                c.report("%s: a precise figure (PreciseSum / PreciseAmount) of the result is not the %s of the operands'" % (op_, "negation" if "negate" == op_ else "sum"),
                         {"operation": op_, "operands": ops, "implementation": gline, "expected_precise_sum": str(wps),
                          "expected_precise_amounts": {k.decode(): str(v) for k, v in wpc.items()},
                          "clause": "every amount of the result is the sum of the operands' (merging yields component-wise sums)"})
        elif broken and shown < 6:
            shown += 1
            c.report("correspondence broken: %s in the model differs from the implementation (no clause of the property fails on this case)" % op_,
                     {"correspondence": "corr:C20:" + op_, "operands": ops, "implementation": gline, "model": mline}, no_input=True)
    # ---- recalculation of a summary (DocumentRef.Calculate) is idempotent ----
    rc = []
    for _ in range(n // 6):
        t = gen_tt(rng)
        rule, cc_ = rng.choice([0, 1]), 2
        a, b = operand_lines([("tt", t)])
        rc.append((t, "c20 calc %d %d %s" % (rule, cc_, a), "c20 calc %d %d %s" % (rule, cc_, b)))
    go = run_go([x[1] for x in rc])
    mo = run_oracle([x[2] for x in rc])
    for (t, gl_, ml_), gline, mline in zip(rc, go, mo):
        c.count("recalculate", 1, gl_)
        if gline != mline and shown < 5:
            shown += 1
            c.report("correspondence broken: Total.Calculate in the model differs from the implementation",
                     {"correspondence": "corr:C20:calc", "summary": t, "implementation": gline, "model": mline}, no_input=True)
    # ---- payments ----
    pay_cases = gen_payments(c, rng, n // 3)
    go = run_go(["c20 pay " + w(json.dumps(p)) for p, _ in pay_cases])
    mo = run_oracle(["c20 pay " + w(mw) for _, mw in pay_cases])
    for (p, mw), gline, mline in zip(pay_cases, go, mo):
        c.count("payment", 1, gline)
        if any(l.get("currency") and l.get("document", {}).get("currency") == l["currency"] != p["currency"] for l in p["lines"]):
            c.count("payment-line-in-document-currency", 1, gline)
        if len({l["document"].get("currency", p["currency"]) for l in p["lines"] if l.get("document", {}).get("tax")}) > 1:
            c.count("payment-documents-in-several-currencies", 1, gline)
        gv, mv = parse_wire(gline), parse_wire(mline)
        bad = None
        if not is_err(gv):
            bad = judge_payment(p, gv)
        if bad and shown < 8:
            shown += 1
            c.report("payment: " + bad, {"payment": p, "implementation": gline, "clause": "payment total = sum of debit - credit converted; tax = merge of the lines' summaries"})
        elif gv != mv and shown < 8:
            shown += 1
            c.report("correspondence broken: payment calculation in the model differs from the implementation",
                     {"correspondence": "corr:C20:pay", "payment": p, "implementation": gline, "model": mline}, no_input=True)
    for (op_, ops) in cases[:3]:
        c.sample({"operation": op_, "operands": ops}, limit=3)
    if pay_cases:
        c.sample({"payment": pay_cases[0][0]}, limit=4)
    c.cov["rule"] = ("summaries: a fixed corpus of witnesses of repaired defects, calculated invoices' tax totals (real unexported state), generated well-formed summaries "
                     "(1-3 categories, retained or not, keyed/percent/exempt groups, surcharges, extensions, countries) as loaded and - with finer bases - as recalculated "
                     "(unexported precise figures), at one precision and at the precisions of different currencies (0, 2, 3 decimals: counted as merge-different-precisions), "
                     "negated, merged pairwise in both orders, in sequences of 3-5 and with their own "
                     "negation; payments with 1-8 debit/credit lines in 1-4 currencies with exchange rates and document tax summaries, the documents with no currency, "
                     "the payment's or another one (0, 2, 3 decimals), the line currency absent, equal to or different from its document's and the payment's; distinct = distinct implementation results")
    c.cov["go_model_differences"] = mism
    if not proved:
        pr = c.proof
        c.report("proof obligations of Props/C20.v no longer check: " + (pr.get("make_log") or pr.get("log", ""))[-600:],
                 {"theorem": "rocq/Props/C20.v", "failed_files": pr.get("failed_files"), "forbidden": pr.get("forbidden")}, no_input=True)


def gen_payments(c, rng, n):
    out = []
    for _ in range(n):
        cur = rng.choice(["EUR", "EUR", "JPY", "KWD"])
        cdec = cg.SUBUNITS[cur]
        others = [x for x in ("USD", "GBP", "JPY") if x != cur]
        rates = [{"from": o, "to": cur, "amount": rng.choice(["0.875967", "149.31", "0.31", "1.1", "0.5", "1.25", "0.305", "0.96", "0.0061"])} for o in others]
        lines = []
        for _ in range(rng.randint(1, 8)):
            l = {}
            dec = rng.choice([cdec, cdec, cdec, cdec + 1, 3])
            if rng.random() < 0.8:
                l["debit"] = cg.fmt(cg.A(rng.randrange(1, 900000), dec))
            if rng.random() < 0.4 or "debit" not in l:
                l["credit"] = cg.fmt(cg.A(rng.randrange(1, 90000), dec))
            if rng.random() < 0.3:
                l["currency"] = rng.choice(others)
            if rng.random() < 0.6:
                doc = {"uuid": "3aea7b56-59d8-4beb-90bd-f8f280d852a0", "issue_date": "2025-01-10", "code": "001"}
                # the settled document's own currency: absent (= the payment's), the payment's stated explicitly, or another one
                # (its summary is recalculated at THAT currency's decimals, so one payment merges summaries of different precision)
                k = rng.random()
                if k < 0.25:
                    doc["currency"] = cur
                elif k < 0.6:
                    doc["currency"] = rng.choice(others + ["KWD", "EUR"])
                if rng.random() < 0.8:
                    doc["tax"] = gen_tt(rng, c=cg.SUBUNITS[doc.get("currency", cur)])
                l["document"] = doc
                # the amount of a line is in the line's currency when given (whatever the document's is), else in the
                # payment's: every combination of line currency = / <> document currency = / <> payment currency
                dc = doc.get("currency")
                if dc and (dc == cur or dc in others):
                    k = rng.random()
                    if k < 0.5:
                        l["currency"] = dc
                    elif k < 0.65:
                        l.pop("currency", None)
            lines.append(l)
        p = {"$schema": "https://gobl.org/draft-0/bill/payment", "uuid": "0194ad4c-3462-7695-a40c-66a30ccc1405", "type": "receipt",
             "method": {"key": "credit-transfer"}, "code": "0001", "issue_date": "2025-01-28", "currency": cur,
             "supplier": {"tax_id": {"country": "ES", "code": "B98602642"}, "name": "P"}, "lines": lines, "exchange_rates": rates}
        mlines = []
        for l in lines:
            d = l.get("document")
            mlines.append([[cg.CURID[l["currency"]]] if l.get("currency") else [], cg.oa(l.get("debit")), cg.oa(l.get("credit")),
                           [] if d is None else [[cg.CURID[d["currency"]]] if d.get("currency") else [], tt_wire(d["tax"]) if d.get("tax") else []]])
        mw = [1, 0, cg.CURID[cur], cdec, [[cg.CURID[k], cg.SUBUNITS[k]] for k in cg.SUBUNITS],
              [[cg.CURID[r["from"]], cg.CURID[r["to"]], cg.parse(r["amount"]).t()] for r in rates], mlines]
        out.append((p, mw))
    return out


def judge_payment(p, gv):
    """payment total = sum over lines of (converted debit - converted credit); returns a message or None"""
    cur = p["currency"]
    cdec = cg.SUBUNITS[cur]
    rates = {r["from"]: cg.parse(r["amount"]).q() for r in p["exchange_rates"]}
    total = Z
    for i, (l, lt) in enumerate(zip(p["lines"], gv[1])):
        v = Z
        for k, s in (("debit", 1), ("credit", -1)):
            if k in l:
                a = cg.parse(l[k]).q()
                if l.get("currency") and l["currency"] != cur:
                    # ExchangeRate.Convert (as repaired): multiply at the amount's own precision or the destination
                    # currency's, whichever has more decimals, then rescale to the currency
                    e = max(cg.parse(l[k]).e, cdec)
                    x = a * rates[l["currency"]] * 10 ** e
                    a = Fraction(cg.rha(x.numerator, x.denominator), 10 ** e)
                    if e > cdec:
                        x = a * 10 ** cdec
                        a = Fraction(cg.rha(x.numerator, x.denominator), 10 ** cdec)
                v += s * a
        if q(lt) != v:
            return ("line %d (line currency %s, document currency %s, payment currency %s): total %s is not debit - credit converted "
                    "to the payment currency with the declared rate = %s"
                    % (i, l.get("currency", "-"), (l.get("document") or {}).get("currency", "-"), cur, q(lt), v))
        total += v
    if q(gv[2]) != total:
        return "total %s is not the sum of the lines' debit - credit = %s" % (q(gv[2]), total)
    return None


def replay(path):
    r = json.load(open(path))["replay"]
    build_harness()
    if "operands" in r:
        a, b = operand_lines([tuple(x) for x in r["operands"]])
        print("implementation:", run_go(["c20 %s %s" % (r["operation"], a)], shards=1)[0])
        print("model:         ", run_oracle(["c20 %s %s" % (r["operation"], b)], shards=1)[0])
    elif "payment" in r:
        print("implementation:", run_go(["c20 pay " + w(json.dumps(r["payment"]))], shards=1)[0])
    return 0
